#!/venv/bin/python
"""Evaluate a sub-agent's seeded change: confirm the demonstration both ways in
a scratch worktree, optionally run the repository test suite with the change,
run the checks against a scratch copy with the change applied, and (with
--keep) store it under /verif/seeded/<name>/.

usage: tools/eval_seeded.py <PROP> <dir with patch.diff demo.py notes.md>
           [--tests] [--keep NAME] [--all-checks]
"""
import argparse
import json
import os
import shutil
import subprocess
import sys
import tempfile

sys.path.insert(0, os.path.dirname(os.path.dirname(os.path.abspath(__file__))))
from sa import selftest, core  # noqa

ALL = ['C01', 'C02', 'C03', 'C04', 'C07', 'C08', 'C09', 'C10', 'C11', 'C12',
       'C13', 'C14', 'C15', 'C16', 'C17', 'C18', 'C19', 'C20']


def sh(cmd, cwd=None, env=None, timeout=1800):
    e = dict(os.environ)
    if env:
        e.update(env)
    r = subprocess.run(cmd, shell=True, cwd=cwd, env=e, capture_output=True,
                       text=True, timeout=timeout)
    return r.returncode, (r.stdout + r.stderr)[-1500:]


def main():
    ap = argparse.ArgumentParser()
    ap.add_argument('prop')
    ap.add_argument('dir')
    ap.add_argument('--tests', action='store_true')
    ap.add_argument('--keep')
    ap.add_argument('--all-checks', action='store_true')
    a = ap.parse_args()
    patch = os.path.join(a.dir, 'patch.diff')
    demo = os.path.join(a.dir, 'demo.py')
    wt = tempfile.mkdtemp(prefix='seedwt_')
    os.rmdir(wt)
    out = {'property': a.prop, 'source_dir': a.dir}
    try:
        rc, o = sh(f'git -C /repo worktree add -q {wt} HEAD')
        if rc:
            print('worktree failed', o)
            return 2
        env = {'PYTHONPATH': wt, 'MPLBACKEND': 'Agg'}
        rc0, o0 = sh(f'/venv/bin/python {demo}', cwd=wt, env=env)
        rc, o = sh(f'git apply {patch}', cwd=wt)
        if rc:
            print('PATCH DOES NOT APPLY', o)
            return 2
        rc1, o1 = sh(f'/venv/bin/python {demo}', cwd=wt, env=env)
        out['demo_without_change'] = rc0
        out['demo_with_change'] = rc1
        print(f'demo without change: exit {rc0}; with change: exit {rc1}')
        if rc0 != 0 or rc1 == 0:
            print('DEMO NOT CONFIRMED\n', o0[-400:], '\n----\n', o1[-400:])
        if a.tests:
            rc, o = sh('/venv/bin/python -m pytest -q -p no:cacheprovider '
                       '--timeout=900 -x -n 6', cwd=wt, env=env)
            out['tests_with_change'] = o.strip().splitlines()[-1] if o else ''
            print('tests with change:', out['tests_with_change'])
    finally:
        sh(f'git -C /repo worktree remove --force {wt}')
        shutil.rmtree(wt, ignore_errors=True)
    props = ALL if a.all_checks else [a.prop]
    caught = {}
    for p in props:
        r = selftest.run_variant((p, 'mutant', 'seed', None, core.REPO, patch))
        caught[p] = (r[3], r[4])
        if r[3] != 'MISS' or p == a.prop:
            print(f'  check {p}: {r[3]} {r[4][:220]}')
    out['checks'] = {p: v[0] for p, v in caught.items()}
    hit = [p for p, v in caught.items() if v[0] == 'ok']
    print('CAUGHT BY:', hit or 'nothing')
    if a.keep:
        dst = os.path.join(core.VERIF, 'seeded', a.keep)
        os.makedirs(dst, exist_ok=True)
        for fn in ('patch.diff', 'demo.py', 'notes.md'):
            if os.path.exists(os.path.join(a.dir, fn)):
                shutil.copy(os.path.join(a.dir, fn), os.path.join(dst, fn))
        meta = {
            'property': a.prop,
            'breaks': open(os.path.join(a.dir, 'notes.md')).read()[:1500]
            if os.path.exists(os.path.join(a.dir, 'notes.md')) else '',
            'confirmed': {
                'demo_exit_without_change': out.get('demo_without_change'),
                'demo_exit_with_change': out.get('demo_with_change'),
                'tests_with_change': out.get('tests_with_change',
                                             'not re-run here'),
            },
            'what_i_ran': 'tools/eval_seeded.py: scratch git worktree of /repo '
                          'HEAD, demo.py before and after `git apply`, repo '
                          'test suite with the change, then the checks on a '
                          'scratch copy with the patch applied',
            'caught_by': hit,
            'expected': 'caught' if a.prop in hit else 'missed',
        }
        json.dump(meta, open(os.path.join(dst, 'meta.json'), 'w'), indent=1)
        print('kept as', dst)
    return 0


if __name__ == '__main__':
    sys.exit(main())

#!/venv/bin/python
"""Regenerate sa/local_names.json (reference spelling of function-level
locals, keyed by structural signature) from the tree at /repo (or argv[1]).
Run after a reviewed change of the reference tree; never at check time."""
import ast
import json
import os
import sys
sys.path.insert(0, os.path.join(os.path.dirname(os.path.abspath(__file__)), '..'))
from sa import canon   # noqa: E402

root = sys.argv[1] if len(sys.argv) > 1 else '/repo'
mods = {}
for dp, dn, fn in os.walk(os.path.join(root, 'optiland')):
    dn[:] = sorted(d for d in dn if d != '__pycache__')
    for f in sorted(fn):
        if f.endswith('.py'):
            p = os.path.join(dp, f)
            mods[os.path.relpath(p, root)] = ast.parse(open(p).read())
table = canon.build_table(mods)
import hashlib
table['__digests__'] = {
    rel: hashlib.sha1(open(os.path.join(root, rel)).read().encode()).hexdigest()
    for rel in mods}
with open(canon.TABLE_PATH, 'w') as fh:
    json.dump(table, fh, indent=0, sort_keys=True)
import gzip
ft = canon.build_fn_table(mods)
with gzip.GzipFile(canon.FN_TABLE_PATH, 'wb', mtime=0) as gz:
    gz.write(json.dumps(ft, sort_keys=True).encode())
bad = canon.operators_plain(mods)
if bad:
    print('WARNING: operator methods defined:', bad)
print(len(ft), 'function normal forms')
print(len(table) - 1, 'functions,', sum(len(v) for k, v in table.items() if k != '__digests__'), 'locals')

#!/venv/bin/python
"""Evaluate a sub-agent's behaviour-preserving change (twin): confirm in a
scratch worktree that equiv.py prints the same text without and with the
change, optionally run the repository test suite with the change, run ALL
checks against a scratch copy with the change applied (every one must stay
silent), and (with --keep) store it under /verif/seeded/<name>/ as a twin.

usage: tools/eval_twin.py <PROP> <dir with patch.diff equiv.py notes.md>
           [--tests] [--keep NAME]
"""
import argparse
import json
import os
import shutil
import sys
import tempfile

sys.path.insert(0, os.path.dirname(os.path.dirname(os.path.abspath(__file__))))
from sa import selftest, core  # noqa
from eval_seeded import sh, ALL  # noqa


def main():
    ap = argparse.ArgumentParser()
    ap.add_argument('prop')
    ap.add_argument('dir')
    ap.add_argument('--tests', action='store_true')
    ap.add_argument('--keep')
    a = ap.parse_args()
    patch = os.path.join(a.dir, 'patch.diff')
    equiv = os.path.join(a.dir, 'equiv.py')
    wt = tempfile.mkdtemp(prefix='twinwt_')
    os.rmdir(wt)
    out = {'property': a.prop}
    try:
        rc, o = sh(f'git -C /repo worktree add -q {wt} HEAD')
        if rc:
            print('worktree failed', o)
            return 2
        env = {'PYTHONPATH': wt, 'MPLBACKEND': 'Agg',
               'PYTHONDONTWRITEBYTECODE': '1'}
        import subprocess
        def run():
            r = subprocess.run(['/venv/bin/python', equiv], cwd=wt,
                               env=dict(os.environ, **env),
                               capture_output=True, text=True, timeout=1800)
            return r.returncode, r.stdout
        rc0, o0 = run()
        rc, o = sh(f'git apply {patch}', cwd=wt)
        if rc:
            print('PATCH DOES NOT APPLY', o)
            return 2
        rc1, o1 = run()
        same = rc0 == 0 and rc1 == 0 and o0 == o1 and len(o0) > 0
        out['equiv_same'] = same
        print(f'equiv.py: exit {rc0}/{rc1}, {len(o0)} bytes, '
              f'{"IDENTICAL" if same else "DIFFERENT"}')
        if a.tests:
            rc, o = sh('/venv/bin/python -m pytest -q -p no:cacheprovider '
                       '--timeout=900 -x -n 6', cwd=wt, env=env)
            out['tests_with_change'] = o.strip().splitlines()[-1] if o else ''
            print('tests with change:', out['tests_with_change'])
    finally:
        sh(f'git -C /repo worktree remove --force {wt}')
        shutil.rmtree(wt, ignore_errors=True)
    alarms = {}
    for p in ALL:
        r = selftest.run_variant((p, 'twin', 'seed', None, core.REPO, patch))
        if r[3] != 'ok':
            alarms[p] = r[4]
            print(f'  check {p}: {r[3]} {r[4][:300]}')
    print('ALARMS:', sorted(alarms) or 'none')
    if a.keep:
        dst = os.path.join(core.VERIF, 'seeded', a.keep)
        os.makedirs(dst, exist_ok=True)
        for fn in ('patch.diff', 'equiv.py', 'notes.md'):
            if os.path.exists(os.path.join(a.dir, fn)):
                shutil.copy(os.path.join(a.dir, fn), os.path.join(dst, fn))
        files = sorted({l[6:].strip() for l in open(patch)
                        if l.startswith('+++ b/')})
        meta = {
            'property': a.prop, 'kind': 'twin', 'files': files,
            'preserves': open(os.path.join(a.dir, 'notes.md')).read()[:1500]
            if os.path.exists(os.path.join(a.dir, 'notes.md')) else '',
            'confirmed': {
                'equiv_output_identical': out.get('equiv_same'),
                'tests_with_change': out.get('tests_with_change',
                                             'not re-run here'),
            },
            'what_i_ran': 'tools/eval_twin.py: scratch git worktree of /repo '
                          'HEAD, equiv.py before and after `git apply` '
                          '(outputs compared byte for byte), repo test suite '
                          'with the change, then all 18 checks on a scratch '
                          'copy with the patch applied',
            'alarms': sorted(alarms),
            'expected': 'silent',
        }
        json.dump(meta, open(os.path.join(dst, 'meta.json'), 'w'), indent=1)
        print('kept as', dst)
    return 0


if __name__ == '__main__':
    sys.exit(main())

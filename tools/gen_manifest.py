#!/venv/bin/python
"""Regenerate MANIFEST.json from the rule modules' META (run from /verif)."""
import importlib, json, os, sys
sys.path.insert(0, os.path.dirname(os.path.dirname(os.path.abspath(__file__))))
ALL = [f'C{i:02d}' for i in range(1, 21)]
NA = {
 'C05': 'A limit statement (real-ray / paraxial discrepancy shrinking quadratically as the scale factor goes to zero) over runtime floating-point values of two tracers; no sound static argument in reach bounds it. Its only structural clause (the zero-pupil ray is aimed at the paraxial pupil centre) is decided under C03 AIM.',
 'C06': 'Exactness to numerical precision of traced rays, optical paths, wavefront error and Strehl ratio for closed-form stigmatic systems: floating-point values, not visible in the shape of the code. The structural parts (intersection point on the conic, Snell law of the direction update) are decided under C02 ON-SURFACE / SNELL-LAW.',
}
checks = []
na = []
for pid in ALL:
    try:
        m = importlib.import_module(f'sa.rules.{pid}')
    except ModuleNotFoundError:
        na.append({'property_id': pid, 'reason': NA.get(pid, 'no static rule implemented yet for this property in this round; not claimed')})
        continue
    meta = m.META
    checks.append({
        'property_id': pid,
        'quick_cmd': f'./check {pid} --tier quick',
        'thorough_cmd': f'./check {pid} --tier thorough',
        'evidence_file': f'evidence/{pid}.json',
        'replay_cmd_template': f'./check {pid} --replay {{path}}',
        'engine': 'sa',
        'level_claimed': {
            'category': 'other',
            'text': meta.get('level_text', 'Static analysis of the current source: the named structural clauses (necessary conditions of the behavioural statement) hold on every path / call site / formula analysed. It does not prove the whole behavioural statement; declined clauses are listed in the evidence.'),
            'design_ref': f'DESIGN.md section 3, {pid}',
        },
        'level_note': 'Trusted base: ' + '; '.join(meta.get('trusted', [])) + '. Declined (runtime-valued) clauses: ' + '; '.join(meta.get('declined', [])),
        'technique': meta.get('technique', 'static analysis: custom AST / path / effect rules over the resolved program'),
    })
man = {
    'version': 1,
    'setup_cmd': '/venv/bin/python -m compileall -q sa >/dev/null 2>&1; /venv/bin/python -c "import ast, json, fractions, yaml"',
    'hooks': {
        'guard': 'HARRISONKRAMER_OPTILAND_VERIF',
        'enable': 'none: the checks read the source of /repo and never execute it; no hook or instrumentation exists in /repo and nothing reads the guard variable',
        'baseline_off_cmd': 'cd /repo && /venv/bin/python -m pytest -ra -q -p no:cacheprovider --timeout=900 --continue-on-collection-errors',
        'source_commits': [],
        'add_only': True,
    },
    'engines': [{
        'name': 'sa', 'path': 'sa/',
        'serves_properties': [c['property_id'] for c in checks],
        'kind_free_text': 'repository-specific static analysis in Python (ast only): program model with type/call resolution, structured path enumeration, effect / who-may-write analysis, graded type checking, rational normal forms, table agreement',
    }],
    'checks': checks,
    'notes': 'All verdicts are computed from the current working tree of /repo without executing it. Exit 0 = all obligations discharged (KNOWN-FINDING lines allowed); exit 1 + VIOLATION line = a violation not listed in known_findings.json; exit 2 + ANALYSIS-ERROR = the analysis cannot stand (never a verdict).',
    'not_applicable': na,
}
json.dump(man, open('MANIFEST.json', 'w'), indent=1)
print('checks', [c['property_id'] for c in checks], 'na', [n['property_id'] for n in na])

#!/venv/bin/python
"""Mutation score of the static checks (development tool, not a check).

For one property, AST mutation operators are applied one at a time to the
functions of the property's anchor files in a scratch copy of /repo/optiland;
the property's rules are run on each mutant; a mutant is *killed* when a new
finding is reported.  Survivors are listed per function: they are either
equivalent / irrelevant to the property, or a gap in the rules.

    tools/mutscore.py C04 [--files optiland/paraxial.py ...] [--max N]
                          [--out /tmp/mutscore_C04.json]

Operators: arithmetic operator swap (+ -, * /), sign drop (-x -> x), constant
index shift (k -> k+1 / k-1 in subscripts), swap of the first two positional
arguments of a call, sibling attribute swap (material_pre/material_post, x/y,
L/M, ...), comparison flip (< <-> >), statement deletion (expression
statements and augmented assignments), boolean constant flip, numeric constant
perturbation (c -> c + 1 for small integer constants in arithmetic).
"""
import ast
import copy
import fnmatch
import json
import os
import shutil
import sys
import tempfile
import time
from concurrent.futures import ProcessPoolExecutor

sys.path.insert(0, os.path.join(os.path.dirname(os.path.abspath(__file__)), '..'))
from sa import selftest, core   # noqa: E402
from sa.pm import AnalysisError  # noqa: E402

SIBLINGS = [('material_pre', 'material_post'), ('x', 'y'), ('L', 'M'),
            ('rx', 'ry'), ('vx', 'vy'), ('Hx', 'Hy'), ('Px', 'Py'),
            ('nx', 'ny'), ('r_max', 'r_min'), ('_ya', '_yb'), ('_ua', '_ub'),
            ('min_val', 'max_val'), ('index', 'abbe'), ('radius', 'k'),
            ('norm_x', 'norm_y'), ('is_stop', 'is_reflective')]
SIB = {}
for a, b in SIBLINGS:
    SIB[a] = b
    SIB[b] = a


def sites(tree):
    """yield (func qualname, lineno, description, mutator(node_copy_root))"""
    out = []

    def add(fq, node, desc, fn):
        out.append((fq, getattr(node, 'lineno', 0), desc, id(node), fn))

    def visit_func(fq, f):
        for n in ast.walk(f):
            if isinstance(n, ast.BinOp):
                swap = {ast.Add: ast.Sub, ast.Sub: ast.Add, ast.Mult: ast.Div,
                        ast.Div: ast.Mult}.get(type(n.op))
                if swap and not (isinstance(n.left, ast.Constant) and
                                 isinstance(n.left.value, str)):
                    add(fq, n, f'binop {type(n.op).__name__}->{swap.__name__}',
                        lambda m, swap=swap: setattr(m, 'op', swap()))
            if isinstance(n, ast.UnaryOp) and isinstance(n.op, ast.USub) and \
                    not isinstance(n.operand, ast.Constant):
                add(fq, n, 'drop unary minus',
                    lambda m: setattr(m, 'op', ast.UAdd()))
            if isinstance(n, ast.Subscript):
                sl = n.slice
                if isinstance(sl, ast.Constant) and isinstance(sl.value, int) \
                        and not isinstance(sl.value, bool):
                    for d in (1, -1):
                        add(fq, n, f'index {sl.value}->{sl.value + d}',
                            lambda m, d=d: setattr(
                                m, 'slice', ast.Constant(m.slice.value + d)))
                elif isinstance(sl, ast.UnaryOp) and isinstance(
                        sl.op, ast.USub) and isinstance(
                        sl.operand, ast.Constant) and isinstance(
                        sl.operand.value, int):
                    v = -sl.operand.value
                    for d in (1, -1):
                        if v + d >= 0:
                            continue
                        add(fq, n, f'index {v}->{v + d}',
                            lambda m, v=v, d=d: setattr(
                                m, 'slice', ast.UnaryOp(
                                    ast.USub(), ast.Constant(-(v + d)))))
                elif isinstance(sl, ast.BinOp) and isinstance(
                        sl.right, ast.Constant) and isinstance(
                        sl.right.value, int) and isinstance(
                        sl.op, (ast.Add, ast.Sub)):
                    add(fq, n, f'index offset {ast.unparse(sl)} -> base',
                        lambda m: setattr(m, 'slice', m.slice.left))
                elif isinstance(sl, ast.Name):
                    add(fq, n, f'index {sl.id}->{sl.id}-1',
                        lambda m: setattr(m, 'slice', ast.BinOp(
                            m.slice, ast.Sub(), ast.Constant(1))))
            if isinstance(n, ast.Call) and len(n.args) >= 2 and not any(
                    isinstance(a, ast.Starred) for a in n.args[:2]) and \
                    ast.dump(n.args[0]) != ast.dump(n.args[1]):
                add(fq, n, f'swap args of {ast.unparse(n.func)[:30]}',
                    lambda m: m.args.__setitem__(
                        slice(0, 2), [m.args[1], m.args[0]]))
            if isinstance(n, ast.Attribute) and n.attr in SIB:
                add(fq, n, f'attr {n.attr}->{SIB[n.attr]}',
                    lambda m: setattr(m, 'attr', SIB[m.attr]))
            if isinstance(n, ast.Compare) and len(n.ops) == 1:
                flip = {ast.Lt: ast.Gt, ast.Gt: ast.Lt, ast.LtE: ast.GtE,
                        ast.GtE: ast.LtE, ast.Eq: ast.NotEq,
                        ast.NotEq: ast.Eq}.get(type(n.ops[0]))
                if flip:
                    add(fq, n, f'compare {type(n.ops[0]).__name__}->'
                               f'{flip.__name__}',
                        lambda m, flip=flip: setattr(m, 'ops', [flip()]))
            if isinstance(n, ast.Constant) and isinstance(n.value, bool):
                add(fq, n, f'bool {n.value}->{not n.value}',
                    lambda m: setattr(m, 'value', not m.value))
        # statement deletion
        for parent in ast.walk(f):
            for fld in ('body', 'orelse'):
                body = getattr(parent, fld, None)
                if not isinstance(body, list):
                    continue
                for i, st in enumerate(body):
                    if isinstance(st, ast.Expr) and isinstance(
                            st.value, ast.Constant):
                        continue
                    if isinstance(st, (ast.Expr, ast.AugAssign)) or (
                            isinstance(st, ast.Assign) and isinstance(
                                st.targets[0], (ast.Attribute,
                                                ast.Subscript))):
                        add(fq, st, 'guard stmt ' +
                            ast.unparse(st)[:40].replace('\n', ' '),
                            ('guard', fld, id(parent), i))
                        if len(body) == 1:
                            add(fq, st, 'delete stmt ' +
                                ast.unparse(st)[:40].replace('\n', ' '),
                                ('replace_pass', fld, id(parent), i))
                        else:
                            add(fq, st, 'delete stmt ' +
                                ast.unparse(st)[:40].replace('\n', ' '),
                                ('delete', fld, id(parent), i))

    for n in tree.body:
        if isinstance(n, ast.FunctionDef):
            visit_func(n.name, n)
        elif isinstance(n, ast.ClassDef):
            for m in n.body:
                if isinstance(m, ast.FunctionDef):
                    visit_func(f'{n.name}.{m.name}', m)
    return out


def mutate(src, k):
    """source with the k-th mutation site applied"""
    tree = ast.parse(src)
    ss = sites(tree)
    fq, line, desc, nid, fn = ss[k]
    if isinstance(fn, tuple):
        how, fld, pid, i = fn
        for parent in ast.walk(tree):
            if id(parent) == pid:
                body = getattr(parent, fld)
                if how == 'guard':
                    # the statement runs only under a condition that is
                    # false by default: at run time this is a deletion, in
                    # the syntax tree the statement is still there
                    body[i] = ast.If(
                        test=ast.parse("globals().get('_LAZY_UPDATE')",
                                       mode='eval').body,
                        body=[body[i]], orelse=[])
                elif how == 'delete':
                    del body[i]
                else:
                    body[i] = ast.Pass()
                break
    else:
        for n in ast.walk(tree):
            if id(n) == nid:
                fn(n)
                break
    ast.fix_missing_locations(tree)
    return ast.unparse(tree) + '\n'


_W = {}

DIR_TESTS = {
    'analysis': ['test_analysis.py'],
    'geometries': ['test_geometries.py'],
    'rays': ['test_rays.py', 'test_optic.py'],
    'materials': ['test_materials.py'],
    'optimization': ['test_optimization.py', 'test_variable.py',
                     'test_operand.py'],
    'tolerancing': ['test_tolerancing.py', 'test_perturbation.py',
                    'test_sensitivity_analysis.py', 'test_monte_carlo.py',
                    'test_compensator.py'],
    'fileio': ['test_fileio.py'],
    'surfaces': ['test_standard_surface.py', 'test_surface_factory.py',
                 'test_image_surface.py', 'test_object_surface.py',
                 'test_optic.py'],
}
FILE_TESTS = {
    'optic.py': ['test_optic.py', 'test_paraxial.py', 'test_fileio.py'],
    'paraxial.py': ['test_paraxial.py', 'test_aberrations.py'],
    'aberrations.py': ['test_aberrations.py', 'test_operand.py'],
    'wavefront.py': ['test_wavefront.py'],
    'psf.py': ['test_psf.py', 'test_mtf.py'],
    'mtf.py': ['test_mtf.py'],
    'zernike.py': ['test_zernike.py', 'test_wavefront.py'],
    'coatings.py': ['test_coatings.py'],
    'jones.py': ['test_jones.py', 'test_coatings.py'],
    'scatter.py': ['test_scatter.py'],
    'distribution.py': ['test_distribution.py'],
    'fields.py': ['test_fields.py', 'test_optic.py'],
    'wavelength.py': ['test_wavelength.py', 'test_optic.py'],
    'aperture.py': ['test_aperture.py'],
    'physical_apertures.py': ['test_physical_apertures.py'],
    'pickup.py': ['test_pickup.py'],
    'solves.py': ['test_solves.py'],
    'coordinate_system.py': ['test_coordinate_system.py',
                             'test_geometries.py'],
}


def auto_tests(rel, tmp):
    parts = rel.split('/')
    out = list(FILE_TESTS.get(parts[-1], []))
    if len(parts) > 2:
        out += DIR_TESTS.get(parts[1], [])
    cand = 'test_' + parts[-1]
    out.append(cand)
    seen = []
    for t in out:
        pth = os.path.join('tests', t)
        if t not in seen and os.path.exists(os.path.join(tmp, pth)):
            seen.append(t)
    return [os.path.join('tests', t) for t in seen]


def _init(repo, tests=None):
    tmp = tempfile.mkdtemp(prefix='mutscore_')
    selftest._make_copy(repo, tmp)
    _W['tmp'] = tmp
    _W['tests'] = list(tests or [])
    if tests:
        shutil.copytree(os.path.join(repo, 'tests'), os.path.join(tmp, 'tests'),
                        ignore=shutil.ignore_patterns('__pycache__'))
    import atexit
    atexit.register(lambda: shutil.rmtree(tmp, ignore_errors=True))


def _run(job):
    prop, rel, k, fq, line, desc = job
    tmp = _W['tmp']
    p = os.path.join(tmp, rel)
    orig = open(p, encoding='utf-8').read()
    try:
        try:
            new = mutate(orig, k)
            compile(new, rel, 'exec')
        except Exception as e:
            return job + ('invalid', str(e)[:80])
        open(p, 'w', encoding='utf-8').write(new)
        fs, err = None, None
        for pr in prop.split(','):
            try:
                fs = selftest._new_findings(pr, tmp)
            except AnalysisError as e:
                err = err or ('analysis-error', f'{pr}: ' + str(e)[:100])
                continue
            except Exception as e:
                err = err or ('crash', f'{pr}: {type(e).__name__}: {e}'[:100])
                continue
            if fs:
                return job + ('killed', f'{pr} [{fs[0].rule}] '
                                        f'{fs[0].construct}'[:110])
        if err:
            return job + err
        tests = _W.get('tests')
        if tests == ['auto']:
            tests = auto_tests(rel, tmp)
        if tests:
            import subprocess
            env = dict(os.environ, PYTHONPATH=tmp, PYTHONDONTWRITEBYTECODE='1',
                       MPLBACKEND='Agg')
            r = subprocess.run(
                ['/venv/bin/python', '-m', 'pytest', '-q', '-x',
                 '-p', 'no:cacheprovider', '--no-header'] + tests,
                cwd=tmp, env=env, capture_output=True, text=True,
                timeout=900)
            if r.returncode != 0:
                return job + ('tests-kill', r.stdout.strip().splitlines()[-1][:80]
                              if r.stdout.strip() else '')
        return job + ('survived', '')
    finally:
        open(p, 'w', encoding='utf-8').write(orig)


def main():
    import argparse
    ap = argparse.ArgumentParser()
    ap.add_argument('prop')
    ap.add_argument('--files', nargs='*')
    ap.add_argument('--max', type=int, default=0)
    ap.add_argument('--out')
    ap.add_argument('--repo', default='/repo')
    ap.add_argument('--jobs', type=int, default=14)
    ap.add_argument('--tests', nargs='*')
    ap.add_argument('--only', help='only mutants whose description starts '
                                   'with this text (e.g. "guard stmt")')
    a = ap.parse_args()
    files = a.files
    anchors = {}
    claimed = {c['property_id'] for c in json.load(open(
        os.path.join(core.VERIF, 'MANIFEST.json')))['checks']}
    for l in open(os.path.join(core.VERIF, 'properties.jsonl')):
        pr = json.loads(l)
        if pr['id'] in claimed:
            anchors[pr['id']] = pr['anchors']['files']
    allpy = []
    for dp, dn, fns in os.walk(os.path.join(a.repo, 'optiland')):
        for fn in fns:
            if fn.endswith('.py'):
                allpy.append(os.path.relpath(os.path.join(dp, fn), a.repo))
    if not files:
        pats = [p for k, v in anchors.items()
                if a.prop == 'ALL' or k == a.prop for p in v]
        files = [rel for rel in allpy
                 if any(fnmatch.fnmatch(rel, pt) for pt in pats)]

    def props_for(rel):
        if a.prop != 'ALL':
            return a.prop
        ps = [k for k, v in sorted(anchors.items())
              if any(fnmatch.fnmatch(rel, pt) for pt in v)]
        return ','.join(ps) or 'C13'
    jobs = []
    for rel in sorted(set(files)):
        src = open(os.path.join(a.repo, rel), encoding='utf-8').read()
        for k, (fq, line, desc, nid, fn) in enumerate(sites(ast.parse(src))):
            if fq.split('.')[-1] in ('view', '_plot', '__str__', '__repr__',
                                     'info', 'draw', 'draw3D') or \
                    '_plot' in fq or 'view' in fq.split('.')[-1]:
                continue
            if a.only and not desc.startswith(a.only):
                continue
            jobs.append((props_for(rel), rel, k, fq, line, desc))
    if a.max and len(jobs) > a.max:
        import random
        random.Random(1).shuffle(jobs)
        jobs = sorted(jobs[:a.max], key=lambda j: (j[1], j[2]))
    t0 = time.time()
    with ProcessPoolExecutor(a.jobs, initializer=_init,
                             initargs=(a.repo, a.tests)) as ex:
        outs = list(ex.map(_run, jobs, chunksize=4))
    stat = {}
    for o in outs:
        stat[o[6]] = stat.get(o[6], 0) + 1
    print(a.prop, len(outs), 'mutants', stat, f'{time.time() - t0:.0f}s')
    byf = {}
    for o in outs:
        d = byf.setdefault(o[3], {'killed': 0, 'survived': [], 'other': 0})
        if o[6] == 'killed':
            d['killed'] += 1
        elif o[6] == 'survived':
            d['survived'].append(f'L{o[4]} {o[5]}')
        else:
            d['other'] += 1
    for fq in sorted(byf, key=lambda q: -len(byf[q]['survived'])):
        d = byf[fq]
        if d['survived']:
            print(f'  {fq}: killed {d["killed"]}, other {d["other"]}, '
                  f'survived {len(d["survived"])}')
            for s_ in d['survived'][:12]:
                print('      ' + s_)
    if a.out:
        json.dump([list(o) for o in outs], open(a.out, 'w'), indent=0)


if __name__ == '__main__':
    main()

"""Checker self-validation (thorough tier).

Scratch copies of /repo/optiland are made under a tempfile.mkdtemp() directory
(removed before exit); in each copy exactly one instance of a rule is broken
(mutant: the check must fire with a new finding) or a behaviour-preserving edit
is applied (twin: the check must stay silent).  A failure here is a checker
defect (exit 2), never a VIOLATION of the property.

Variants are text substitutions on the *current* source; a variant whose
anchor text is not present any more is skipped and reported (the tree moved),
it never fails the run.  Seeded changes kept under /verif/seeded/<id>/ are
applied with `git apply` semantics (plain patch) as additional mutants.
"""
import importlib
import json
import os
import shutil
import subprocess
import sys
import tempfile
import traceback
from concurrent.futures import ProcessPoolExecutor

from . import core
from .pm import AnalysisError

VERIF = core.VERIF


def _make_copy(repo, dst):
    os.makedirs(dst, exist_ok=True)
    shutil.copytree(os.path.join(repo, 'optiland'), os.path.join(dst, 'optiland'),
                    ignore=shutil.ignore_patterns('__pycache__'))
    db = os.path.join(repo, 'database')
    if os.path.isdir(db):
        os.symlink(db, os.path.join(dst, 'database'))


def _new_findings(prop, root):
    mod = importlib.import_module(f'sa.rules.{prop}')
    ctx = core.Ctx('quick', prop, repo=root)
    known = core.load_known()
    out = []
    errs = []
    for r in mod.RULES:
        try:
            res = core.run_rule(r, ctx)
        except AnalysisError as e:
            errs.append(e)
            continue
        for rr in (res if isinstance(res, list) else [res] if res else []):
            for f in rr.findings:
                if not core.match_known(known, prop, f):
                    out.append(f)
    if errs and not out:
        raise errs[0]
    return out


def run_variant(args):
    prop, kind, name, edits, repo, patch = args
    tmp = tempfile.mkdtemp(prefix='sa_selftest_')
    try:
        _make_copy(repo, tmp)
        if patch:
            r = subprocess.run(['patch', '-p1', '-s', '-i', patch], cwd=tmp,
                               capture_output=True, text=True)
            if r.returncode != 0:
                return (prop, kind, name, 'skipped',
                        'patch does not apply: ' + r.stdout[:200])
        if kind == 'gtwin':
            from .twins import GLOBAL_TWINS
            GLOBAL_TWINS[name.split('/')[-1]](tmp)
            kind = 'twin'
        for rel, old, new in edits or []:
            p = os.path.join(tmp, rel)
            if not os.path.exists(p):
                return (prop, kind, name, 'skipped', f'{rel} missing')
            s = open(p, encoding='utf-8').read()
            if old not in s:
                return (prop, kind, name, 'skipped',
                        f'anchor text not in {rel}')
            open(p, 'w', encoding='utf-8').write(s.replace(old, new, 1))
        try:
            fs = _new_findings(prop, tmp)
        except AnalysisError as e:
            if kind == 'mutant':
                return (prop, kind, name, 'analysis-error', str(e)[:300])
            return (prop, kind, name, 'FAIL',
                    'twin made the analysis give up: ' + str(e)[:300])
        except Exception:
            return (prop, kind, name, 'FAIL',
                    'internal exception: ' + traceback.format_exc()[-400:])
        if kind == 'mutant':
            if fs:
                return (prop, kind, name, 'ok',
                        f'{len(fs)} finding(s), e.g. [{fs[0].rule}] '
                        f'{fs[0].function}: {fs[0].construct}')
            return (prop, kind, name, 'MISS', 'no finding')
        if fs:
            return (prop, kind, name, 'FAIL',
                    f'twin raised [{fs[0].rule}] {fs[0].function}: '
                    f'{fs[0].construct}')
        return (prop, kind, name, 'ok', 'silent')
    finally:
        shutil.rmtree(tmp, ignore_errors=True)


_ANCH = {}


def _anchored(prop, rel):
    import fnmatch
    if not _ANCH:
        for line in open(os.path.join(VERIF, 'properties.jsonl')):
            pr = json.loads(line)
            _ANCH[pr['id']] = pr['anchors']['files']
    return any(fnmatch.fnmatch(rel, pt) for pt in _ANCH.get(prop, []))


def variants_for(prop):
    from .variants import VARIANTS
    out = []
    for kind, name, edits in VARIANTS.get(prop, []):
        out.append((kind, name, edits, None))
    from .twins import GLOBAL_TWINS
    for g in GLOBAL_TWINS:
        out.append(('gtwin', 'global/' + g, None, None))
    sd = os.path.join(VERIF, 'seeded')
    if os.path.isdir(sd):
        for d in sorted(os.listdir(sd)):
            meta = os.path.join(sd, d, 'meta.json')
            patch = os.path.join(sd, d, 'patch.diff')
            if os.path.exists(meta) and os.path.exists(patch):
                m = json.load(open(meta))
                if m.get('kind') == 'twin':
                    # a confirmed behaviour-preserving change: silent for its
                    # own property and for every property anchored in a file
                    # it touches
                    if m.get('property') == prop or any(
                            _anchored(prop, f) for f in m.get('files', [])):
                        out.append(('twin', 'seeded/' + d, None, patch))
                elif m.get('property') == prop and \
                        m.get('expected', 'caught') == 'caught':
                    out.append(('mutant', 'seeded/' + d, None, patch))
    return out


def selftest_rule(prop):
    def rule(ctx):
        res = core.Result('SELF-VALIDATION', 'seeded variants on scratch '
                          'copies: every mutant must be reported, every '
                          'behaviour-preserving twin must stay silent')
        vs = variants_for(prop)
        seed = int(os.environ.get('VERIF_SEED', '0') or 0)
        jobs = [(prop, kind, name, edits, ctx.repo, patch)
                for kind, name, edits, patch in vs]
        if not jobs:
            res.notes.append('no variants defined')
            return res
        with ProcessPoolExecutor(max_workers=min(16, len(jobs))) as ex:
            outs = list(ex.map(run_variant, jobs))
        bad = []
        for prop_, kind, name, status, detail in outs:
            res.obligations += 1
            line = f'{kind} {name}: {status} ({detail})'
            if status in ('ok',):
                res.discharged += 1
            elif status == 'skipped':
                res.discharged += 1
                res.notes.append(line)
            elif status == 'analysis-error' and kind == 'mutant':
                # the mutated tree left the analysable fragment: not a miss,
                # but reported
                res.discharged += 1
                res.notes.append(line)
            else:
                bad.append(line)
            if len(res.samples) < 12:
                res.samples.append(line)
        if bad:
            raise AnalysisError('checker self-validation failed: ' +
                                ' | '.join(bad[:6]))
        return res
    return rule

"""E6 -- rational normal forms (RATFORM).

Straight-line arithmetic of the repository's source is brought to a quotient of
polynomials over Q; equality is decided by cross-multiplication, optionally
modulo relations of the form atom**2 = rational (sqrt, unit vectors,
sin**2 + cos**2 = 1).  Since the leading monomials of the relations used are
pairwise coprime squares of distinct atoms, they form a Groebner basis and
normal-form reduction decides membership in the ideal exactly.  No solver, no
path exploration, nothing is executed.
"""
import ast
from fractions import Fraction as Fr
from .pm import AnalysisError, unparse


class Inconclusive(AnalysisError):
    """construct outside the rational fragment"""


BUDGET = [40_000_000]


class Poly:
    __slots__ = ('d',)

    def __init__(self, d=None):
        self.d = {k: v for k, v in (d or {}).items() if v != 0}

    @staticmethod
    def const(c):
        return Poly({(): Fr(c)})

    @staticmethod
    def atom(a):
        return Poly({((a, 1),): Fr(1)})

    def __add__(self, o):
        BUDGET[0] -= len(self.d) + len(o.d)
        if BUDGET[0] < 0:
            raise Inconclusive('term budget exhausted')
        d = dict(self.d)
        for k, v in o.d.items():
            d[k] = d.get(k, 0) + v
        return Poly(d)

    def __neg__(self):
        return Poly({k: -v for k, v in self.d.items()})

    def __sub__(self, o):
        return self + (-o)

    def __mul__(self, o):
        d = {}
        for k1, v1 in self.d.items():
            for k2, v2 in o.d.items():
                if not k1:
                    k = k2
                elif not k2:
                    k = k1
                else:
                    m = dict(k1)
                    for a, e in k2:
                        m[a] = m.get(a, 0) + e
                    k = tuple(sorted((a, e) for a, e in m.items() if e))
                d[k] = d.get(k, 0) + v1 * v2
        if len(d) > 60000:
            raise Inconclusive('polynomial too large')
        BUDGET[0] -= len(self.d) * len(o.d)
        if BUDGET[0] < 0:
            raise Inconclusive('term budget exhausted')
        return Poly(d)

    def __pow__(self, n):
        r = Poly.const(1)
        for _ in range(n):
            r = r * self
        return r

    def __eq__(self, o):
        return self.d == o.d

    def __hash__(self):
        return hash(frozenset(self.d.items()))

    def is_zero(self):
        return not self.d

    def atoms(self):
        return {a for k in self.d for a, _ in k}

    def degree(self, atom):
        return max([e for k in self.d for a, e in k if a == atom] or [0])

    def is_const(self):
        return all(k == () for k in self.d)

    def constant(self):
        return self.d.get((), Fr(0))

    def diff(self, atom):
        d = {}
        for k, v in self.d.items():
            for a, e in k:
                if a == atom:
                    m = tuple(sorted(((x, y - 1) if x == atom else (x, y))
                                     for x, y in k if not (x == atom and y == 1)))
                    d[m] = d.get(m, 0) + v * e
        return Poly(d)

    def subst(self, atom, val):
        """replace atom by Poly val"""
        out = Poly()
        for k, v in self.d.items():
            term = Poly({(): v})
            for a, e in k:
                term = term * ((val ** e) if a == atom else Poly({((a, e),): Fr(1)}))
            out = out + term
        return out

    def canon(self):
        def mono(k):
            return '*'.join(a if e == 1 else f'{a}^{e}' for a, e in k) or '1'
        return ' + '.join(f'{v}*{mono(k)}' for k, v in sorted(
            self.d.items(), key=lambda kv: repr(kv[0]))) or '0'

    def __repr__(self):
        return self.canon()

    def pretty(self):
        """compact canonical text (used for index keys): k+1, 2*k-1, -1"""
        items = sorted(self.d.items(), key=lambda kv: (kv[0] == (), repr(kv[0])))
        out = ''
        for k, v in items:
            mono = '*'.join(a if e == 1 else f'{a}**{e}' for a, e in k)
            if not mono:
                t = str(abs(v))
            elif abs(v) == 1:
                t = mono
            else:
                t = f'{abs(v)}*{mono}'
            out += ('-' if v < 0 else ('+' if out else '')) + t
        return out or '0'


ONEP = Poly.const(1)


class Rat:
    __slots__ = ('n', 'd')

    def __init__(self, n, d=None):
        self.n = n
        self.d = d if d is not None else ONEP
        # cheap normalisation: constant denominators and common monomials
        if self.d.is_const() and self.d.constant() != 1 and not self.d.is_zero():
            c = self.d.constant()
            self.n = Poly({k: v / c for k, v in self.n.d.items()})
            self.d = ONEP

    @staticmethod
    def const(c):
        return Rat(Poly.const(c))

    @staticmethod
    def atom(a):
        return Rat(Poly.atom(a))

    def __add__(self, o):
        if self.d == o.d:
            return Rat(self.n + o.n, self.d)
        if len(self.d.d) == 1 and len(o.d.d) == 1:
            # monomial denominators: use their lcm (keeps forms small)
            (k1, c1), = self.d.d.items()
            (k2, c2), = o.d.d.items()
            m1, m2 = dict(k1), dict(k2)
            l = {a: max(m1.get(a, 0), m2.get(a, 0)) for a in set(m1) | set(m2)}
            f1 = tuple(sorted((a, e - m1.get(a, 0)) for a, e in l.items()
                              if e - m1.get(a, 0)))
            f2 = tuple(sorted((a, e - m2.get(a, 0)) for a, e in l.items()
                              if e - m2.get(a, 0)))
            lk = tuple(sorted(l.items()))
            n = self.n * Poly({f1: c2}) + o.n * Poly({f2: c1})
            return Rat(n, Poly({lk: c1 * c2}))
        return Rat(self.n * o.d + o.n * self.d, self.d * o.d)

    def __sub__(self, o):
        return self + (-o)

    def __mul__(self, o):
        return Rat(self.n * o.n, self.d * o.d)

    def __truediv__(self, o):
        if o.n.is_zero():
            raise Inconclusive('division by literal zero')
        return Rat(self.n * o.d, self.d * o.n)

    def __neg__(self):
        return Rat(-self.n, self.d)

    def __pow__(self, k):
        if k >= 0:
            return Rat(self.n ** k, self.d ** k)
        return Rat(self.d ** (-k), self.n ** (-k))

    def atoms(self):
        return self.n.atoms() | self.d.atoms()

    def is_const(self):
        return self.n.is_const() and self.d.is_const()

    def diff(self, atom):
        # (n/d)' = (n' d - n d') / d^2
        return Rat(self.n.diff(atom) * self.d - self.n * self.d.diff(atom),
                   self.d * self.d)

    def __repr__(self):
        return f'({self.n.canon()})/({self.d.canon()})' \
            if self.d != ONEP else self.n.canon()


ZERO = Rat.const(0)
ONE = Rat.const(1)


def reduce_poly(p, rel, guard=64):
    """normal form of polynomial p modulo relations atom**2 -> Rat (n/d);
    returns a polynomial equal to p times a product of (non-zero) relation
    denominators."""
    cur = p
    for _ in range(guard):
        hit = None
        for a in rel:
            if cur.degree(a) >= 2:
                hit = a
                break
        if hit is None:
            return cur
        a = hit
        rn, rd = rel[a].n, rel[a].d
        maxq = cur.degree(a) // 2
        out = Poly()
        for k, v in cur.d.items():
            e = dict(k).get(a, 0)
            q = e // 2
            rest = tuple((x, y) for x, y in k if x != a)
            term = Poly({rest: v})
            if e % 2:
                term = term * Poly.atom(a)
            term = term * (rn ** q) * (rd ** (maxq - q))
            out = out + term
        cur = out
    raise Inconclusive('relation reduction did not terminate')


def _with_facts(n):
    """numerator under the path conditions of the forked run (Fork.facts)"""
    fk = globals().get('FORK')
    if fk is not None and fk.active and fk.facts:
        for atom, c in fk.facts.items():
            n = n.subst(atom, Poly({(): Fr(c)}) if c != 0 else Poly())
    return n


def rat_eq(a, b, rel=None):
    n = _with_facts(a.n * b.d - b.n * a.d)
    if rel:
        n = reduce_poly(n, rel)
    return n.is_zero()


def rat_is_zero(a, rel=None):
    n = _with_facts(a.n)
    if rel:
        n = reduce_poly(n, rel)
    return n.is_zero()


IDENTITY_CALLS = {'copy', 'array', 'asarray', 'atleast_1d', 'ravel', 'float', 'int', 'list', 'tuple',
                  'astype', 'squeeze', 'flatten', 'real', 'item'}


class Sym:
    """symbol context: registry of function atoms (sqrt, sin, cos, abs, ...),
    their arguments and the relations they obey."""

    def __init__(self):
        self.defs = {}       # atom -> (kind, arg Rat | tuple)
        self.rel = {}        # atom -> Rat (value of atom**2)
        self._n = 0

    def fn_atom(self, kind, arg, label=None):
        for a, (k, x) in self.defs.items():
            if k == kind and isinstance(x, Rat) and isinstance(arg, Rat) and \
                    rat_eq(x, arg, self.rel):
                return a
        self._n += 1
        a = f'{kind}<{label or self._n}>#{self._n}'
        self.defs[a] = (kind, arg)
        return a

    def sqrt(self, arg, label=None):
        # sqrt of a perfect constant square
        if arg.is_const():
            c = arg.n.constant() / arg.d.constant()
            if c >= 0:
                from math import isqrt
                num, den = c.numerator, c.denominator
                if isqrt(num) ** 2 == num and isqrt(den) ** 2 == den:
                    return Rat.const(Fr(isqrt(num), isqrt(den)))
        if getattr(self, 'assume_positive', False) and \
                len(arg.n.d) == 1 and len(arg.d.d) == 1:
            # sqrt of a perfect-square monomial of positive quantities
            (kn, cn), = arg.n.d.items()
            (kd, cd), = arg.d.d.items()
            from math import isqrt
            c = cn / cd
            if c > 0 and all(e % 2 == 0 for _, e in kn + kd) and \
                    isqrt(c.numerator) ** 2 == c.numerator and \
                    isqrt(c.denominator) ** 2 == c.denominator:
                return Rat(Poly({tuple((x, e // 2) for x, e in kn):
                                 Fr(isqrt(c.numerator))}),
                           Poly({tuple((x, e // 2) for x, e in kd):
                                 Fr(isqrt(c.denominator))}))
        a = self.fn_atom('sqrt', arg, label)
        self.rel[a] = arg
        return Rat.atom(a)

    def _signed(self, arg):
        """(sign, canonical arg) with sign=-1 when the leading coefficient of
        the numerator is negative (for odd / even function normalisation)."""
        if arg.n.is_zero():
            return 0, arg
        lead = sorted(arg.n.d.items(), key=lambda kv: repr(kv[0]))[0][1]
        if lead < 0:
            return -1, -arg
        return 1, arg

    def imag_part(self, a):
        """x such that a == I*x with x free of I, else None"""
        if 'I' not in a.atoms():
            return None
        x = a / Rat.atom('I')
        # a = I*x  <=>  every numerator monomial has I^1 and denominator none
        if 'I' in a.d.atoms():
            return None
        n = Poly()
        for k, v in a.n.d.items():
            e = dict(k).get('I', 0)
            if e != 1:
                return None
            n = n + Poly({tuple((x_, y) for x_, y in k if x_ != 'I'): v})
        return Rat(n, a.d)

    def conj(self, a):
        if 'I' not in a.atoms():
            return a
        m = -Poly.atom('I')
        return Rat(a.n.subst('I', m), a.d.subst('I', m))

    def _special_angle(self, arg):
        """(sin, cos) for arg in {0, pi/2, pi, -pi/2} else None"""
        if arg.d.is_const() and set(arg.n.atoms()) <= {'pi'} and \
                arg.n.degree('pi') <= 1:
            c = arg.n.d.get((('pi', 1),), Fr(0)) / arg.d.constant()
            if arg.n.d.get((), 0) != 0:
                return None
            q = c % 2
            table = {Fr(0): (0, 1), Fr(1, 2): (1, 0), Fr(1): (0, -1),
                     Fr(3, 2): (-1, 0)}
            if q in table:
                return table[q]
        return None

    def _double(self, arg):
        """a if arg == 2*a with a 'simple' (all numerator coefficients even)"""
        if arg.d.is_const() and arg.n.d and all(
                (v / arg.d.constant()) % 2 == 0 for v in arg.n.d.values()):
            return arg * Rat.const(Fr(1, 2))
        return None

    def sin(self, arg, label=None):
        sp = self._special_angle(arg)
        if sp is not None:
            return Rat.const(sp[0])
        h = self._double(arg)
        if h is not None:
            return Rat.const(2) * self.sin(h) * self.cos(h)
        s, a = self._signed(arg)
        if s == 0:
            return ZERO
        c = self.fn_atom('cos', a, label)
        sn = self.fn_atom('sin', a, label)
        self.rel[sn] = ONE - Rat.atom(c) * Rat.atom(c)
        r = Rat.atom(sn)
        return -r if s < 0 else r

    def cos(self, arg, label=None):
        sp = self._special_angle(arg)
        if sp is not None:
            return Rat.const(sp[1])
        h = self._double(arg)
        if h is not None:
            c_, s_ = self.cos(h), self.sin(h)
            return c_ * c_ - s_ * s_
        s, a = self._signed(arg)
        if s == 0:
            return ONE
        c = self.fn_atom('cos', a, label)
        sn = self.fn_atom('sin', a, label)
        self.rel[sn] = ONE - Rat.atom(c) * Rat.atom(c)
        return Rat.atom(c)

    def sign(self, arg, label=None):
        s, a = self._signed(arg)
        if s == 0:
            return ZERO
        if a.is_const():
            return Rat.const(s)
        at = self.fn_atom('sgn', a, label)
        self.rel[at] = ONE          # sgn**2 = 1 (generic, arg != 0)
        r = Rat.atom(at)
        return -r if s < 0 else r

    def absv(self, arg, label=None):
        if arg.is_const():
            c = arg.n.constant() / arg.d.constant()
            return Rat.const(abs(c))
        # |x| = sgn(x) * x
        return self.sign(arg, label) * arg

    def opaque(self, kind, args, label=None):
        for a, (k, x) in self.defs.items():
            if k == kind and isinstance(x, tuple) and len(x) == len(args) and \
                    all(isinstance(p, Rat) and isinstance(q, Rat) and
                        rat_eq(p, q, self.rel) if isinstance(p, Rat) else p == q
                        for p, q in zip(x, args)):
                return Rat.atom(a)
        self._n += 1
        a = f'{kind}<{label or ""}>#{self._n}'
        self.defs[a] = (kind, tuple(args))
        return Rat.atom(a)

    def eq(self, a, b, extra=None):
        rel = dict(self.rel)
        if extra:
            rel.update(extra)
        return rat_eq(a, b, rel)

    def is_zero(self, a, extra=None):
        rel = dict(self.rel)
        if extra:
            rel.update(extra)
        return rat_is_zero(a, rel)

    def diff(self, r, atom):
        """total derivative of Rat r w.r.t. variable atom, chain rule through
        sqrt / sin / cos / abs atoms."""
        total = r.diff(atom)
        for a in list(r.atoms()):
            if a == atom or a not in self.defs:
                continue
            kind, arg = self.defs[a]
            if not isinstance(arg, Rat):
                continue
            darg = self.diff(arg, atom)
            if darg.n.is_zero():
                continue
            if kind == 'sqrt':
                da = darg / (Rat.const(2) * Rat.atom(a))
            elif kind == 'sin':
                c = [x for x, (k, y) in self.defs.items()
                     if k == 'cos' and y is arg or (k == 'cos' and rat_eq(y, arg))]
                da = Rat.atom(c[0]) * darg
            elif kind == 'cos':
                s = [x for x, (k, y) in self.defs.items()
                     if k == 'sin' and (y is arg or rat_eq(y, arg))]
                da = -Rat.atom(s[0]) * darg
            elif kind == 'acos':
                da = -darg / self.sqrt(ONE - arg * arg)
            else:
                raise Inconclusive(f'derivative through {kind}')
            total = total + r.diff(a) * da
        return total


def const_of(node):
    if isinstance(node, ast.Constant) and isinstance(node.value, (int, float)) \
            and not isinstance(node.value, bool):
        return Fr(str(node.value)) if isinstance(node.value, float) \
            else Fr(node.value)
    if isinstance(node, ast.UnaryOp) and isinstance(node.op, ast.USub):
        c = const_of(node.operand)
        return -c if c is not None else None
    return None


class Ev:
    """symbolic evaluator of expressions / straight-line statements."""

    def __init__(self, sym=None, env=None, heap=None, P=None, func=None,
                 choose=None, inline=None, self_prefix='self'):
        self.sym = sym or Sym()
        self.env = env if env is not None else {}
        self.heap = heap if heap is not None else {}
        self.P = P
        self.func = func
        self.choose = choose          # callback(test node, ev) -> bool | None
        self.inline = inline          # callback(call node, ev) -> value | None
        self.self_prefix = self_prefix
        self.returned = None
        self.depth = 0

    # ------------------------------------------------------------- keys
    def key(self, e):
        """canonical key of an lvalue-like expression (attribute chains and
        subscripts with normalised linear indices)."""
        if isinstance(e, ast.Name):
            v = self.env.get(e.id)
            if isinstance(v, str):      # alias to a heap key
                return v
            if isinstance(v, Rat) and v.d == ONEP and len(v.n.d) == 1:
                (k, c), = v.n.d.items()
                if c == 1 and len(k) == 1 and k[0][1] == 1:
                    return k[0][0]      # pure alias of a named object
            if e.id == 'self':
                return self.self_prefix
            return e.id
        if isinstance(e, ast.Attribute):
            return self.key(e.value) + '.' + e.attr
        if isinstance(e, ast.Subscript):
            return self.key(e.value) + '[' + self.index_key(e.slice) + ']'
        if isinstance(e, ast.Call):
            return unparse(e)
        return unparse(e)

    def index_key(self, s):
        if isinstance(s, ast.Tuple):
            return ','.join(self.index_key(x) for x in s.elts)
        if isinstance(s, ast.Slice):
            def part(x):
                return '' if x is None else self.index_key(x)
            return part(s.lower) + ':' + part(s.upper) + (
                ':' + part(s.step) if s.step is not None else '')
        try:
            v = self.ev(s)
            if isinstance(v, Rat) and v.is_const():
                c = v.n.constant() / v.d.constant()
                return str(c)
            if isinstance(v, Rat) and v.d == ONEP:
                return v.n.pretty()
        except Inconclusive:
            pass
        return unparse(s)

    # ------------------------------------------------------------- expr
    def ev(self, e):
        if isinstance(e, ast.Constant):
            if isinstance(e.value, complex):
                self.sym.rel.setdefault('I', -ONE)
                return Rat.const(Fr(str(e.value.real))) + \
                    Rat.const(Fr(str(e.value.imag))) * Rat.atom('I')
            c = const_of(e)
            if c is None:
                if isinstance(e.value, bool):
                    return ONE if e.value else ZERO
                return Rat.atom(f'const:{e.value!r}')
            return Rat.const(c)
        if isinstance(e, ast.Name):
            if e.id in self.env:
                v = self.env[e.id]
                if isinstance(v, str):
                    return self.read(v)
                return v
            return Rat.atom(e.id)
        if isinstance(e, ast.Attribute):
            if isinstance(e.value, ast.Name) and e.value.id == 'np':
                if e.attr == 'pi':
                    return Rat.atom('pi')
                if e.attr == 'inf':
                    return Rat.atom('inf')
            if e.attr == 'T':
                return self.ev(e.value)
            return self.read(self.key(e))
        if isinstance(e, ast.Subscript):
            full = None
            if getattr(self, 'drop_zero_index', False) and \
                    const_of(e.slice) == 0 and not isinstance(
                        e.value, (ast.Tuple, ast.List)):
                v0 = self.ev(e.value)
                if isinstance(v0, Rat):
                    return v0
            if isinstance(e.value, (ast.Name, ast.Attribute, ast.Subscript)):
                full = self.key(e)
                if full in self.heap:
                    return self.heap[full]
            base = None
            if isinstance(e.value, ast.Name) and e.value.id in self.env:
                base = self.env[e.value.id]
                if isinstance(base, str):
                    base = self.heap.get(base)
            elif isinstance(e.value, (ast.Attribute, ast.Subscript)):
                bk = self.key(e.value)
                if bk in self.heap:
                    base = self.heap[bk]
                elif isinstance(e.value, ast.Subscript):
                    b2 = self.ev(e.value)
                    if isinstance(b2, (tuple, list)) or (
                            isinstance(b2, Rat) and
                            repr(b2) != repr(Rat.atom(bk))):
                        base = b2
            elif isinstance(e.value, (ast.Tuple, ast.List, ast.BinOp, ast.Call,
                                      ast.UnaryOp)):
                base = self.ev(e.value)
            if isinstance(base, (tuple, list)) and isinstance(e.slice, ast.Slice):
                def cint(x, default):
                    if x is None:
                        return default
                    r = self.ev(x)
                    if isinstance(r, Rat) and r.is_const():
                        return int(r.n.constant() / r.d.constant())
                    raise Inconclusive('non-constant slice bound')
                sl = e.slice
                return tuple(base[slice(cint(sl.lower, None) if sl.lower else None,
                                        cint(sl.upper, None) if sl.upper else None)])
            if isinstance(base, (tuple, list)):
                sl = e.slice
                if isinstance(sl, ast.Tuple) and len(sl.elts) == 2 and \
                        isinstance(sl.elts[0], ast.Slice):
                    sl = sl.elts[1]
                    if isinstance(sl, ast.Constant) and sl.value is None:
                        return base
                c = const_of(sl)
                if c is None:
                    try:
                        r = self.ev(sl)
                        if isinstance(r, Rat) and r.is_const():
                            c = r.n.constant() / r.d.constant()
                    except Inconclusive:
                        c = None
                if c is not None and c.denominator == 1 and \
                        -len(base) <= int(c) < len(base):
                    return base[int(c)]
            if isinstance(base, Rat):
                ik = self.index_key(e.slice)
                return self.elem(base, ik, e)
            return self.read(full if full is not None else self.key(e))
        if isinstance(e, ast.UnaryOp):
            if isinstance(e.op, ast.USub):
                return -self.ev(e.operand)
            if isinstance(e.op, ast.UAdd):
                return self.ev(e.operand)
            if isinstance(e.op, (ast.Invert, ast.Not)):
                return Rat.atom('mask:' + ' '.join(unparse(e).split()))
            raise Inconclusive(unparse(e))
        if isinstance(e, ast.BinOp) and isinstance(
                e.op, (ast.BitOr, ast.BitAnd)):
            return Rat.atom('mask:' + ' '.join(unparse(e).split()))
        if isinstance(e, ast.BinOp):
            if isinstance(e.op, ast.Pow):
                c = const_of(e.right)
                if c is None:
                    try:
                        r = self.ev(e.right)
                        if isinstance(r, Rat) and r.is_const():
                            c = r.n.constant() / r.d.constant()
                    except Inconclusive:
                        c = None
                base = self.ev(e.left)
                if c is not None and c.denominator == 1 and abs(c) <= 12:
                    return base ** int(c)
                if c is not None and c == Fr(1, 2):
                    return self.sym.sqrt(base)
                if c is not None and c == Fr(-1, 2):
                    return ONE / self.sym.sqrt(base)
                ex = self.ev(e.right)
                return self.sym.opaque('pow', (base, ex))
            a = self.ev(e.left)
            b = self.ev(e.right)
            return self.arith(e.op, a, b, e)
        if isinstance(e, (ast.Tuple, ast.List)):
            return tuple(self.ev(x) for x in e.elts)
        if isinstance(e, ast.Call):
            return self.call(e)
        if isinstance(e, ast.Compare):
            if self.choose is not None:
                c = self.decide(e)
                if c is not None:
                    return ONE if c else ZERO
            # a boolean mask kept as a value: opaque, only usable as the
            # condition of np.where / a masked store (decided by `choose`)
            return Rat.atom('mask:' + ' '.join(unparse(e).split()))
        if isinstance(e, ast.IfExp):
            c = self.decide(e.test) if self.choose is not None else None
            if c is None:
                c = FORK.ask(e.test)
            if c is not None:
                return self.ev(e.body if c else e.orelse)
            raise Inconclusive('conditional expression ' + unparse(e))
        if isinstance(e, (ast.BoolOp, ast.ListComp, ast.GeneratorExp, ast.Dict,
                          ast.JoinedStr, ast.Lambda, ast.Set, ast.DictComp)):
            # outside the arithmetic fragment: an opaque value of its own
            return Rat.atom('expr:' + unparse(e, 80))
        raise Inconclusive(type(e).__name__ + ' ' + unparse(e))

    def elem(self, base, ik, node):
        mask = isinstance(node.slice, ast.Compare) or any(
            c in ik for c in '<>=')
        if mask or ':' in ik:
            return base
        if ik == '0' and getattr(self, 'drop_zero_index', False):
            return base     # trailing singleton axis of (N, 1) records
        pure = None
        if base.d == ONEP and len(base.n.d) == 1:
            (k, c), = base.n.d.items()
            if c == 1 and len(k) == 1 and k[0][1] == 1:
                pure = k[0][0]
        if pure is not None:
            if ik == '0' and pure.endswith(']') and \
                    getattr(self, 'drop_singleton', False):
                return base
            return Rat.atom(f'{pure}[{ik}]')
        # computed array: numpy indexes elementwise -> distribute the index
        # over the array-valued atoms (when the rule says which they are)
        is_arr = getattr(self, 'is_array', None)
        if is_arr is None:
            return base
        if ik == '0' and getattr(self, 'drop_singleton', False):
            return base
        sub = {}
        for a in base.atoms():
            if is_arr(a) and not a.endswith(']'):
                sub[a] = Poly.atom(f'{a}[{ik}]')
        n, d = base.n, base.d
        for a, v in sub.items():
            n, d = n.subst(a, v), d.subst(a, v)
        return Rat(n, d)

    def assume(self, test, truth):
        """path condition of a forked guard: `x == 3` taken True (or `x != 3`
        taken False) makes x the number 3 on the rest of the path"""
        if isinstance(test, ast.UnaryOp) and isinstance(test.op, ast.Not):
            return self.assume(test.operand, not truth)
        if not (isinstance(test, ast.Compare) and len(test.ops) == 1):
            return
        eq = isinstance(test.ops[0], ast.Eq) and truth or \
            isinstance(test.ops[0], ast.NotEq) and not truth
        if not eq:
            return
        a, b = test.left, test.comparators[0]
        if isinstance(a, ast.Constant):
            a, b = b, a
        if not (isinstance(b, ast.Constant) and isinstance(
                b.value, (int, float)) and not isinstance(b.value, bool)):
            return
        try:
            cur = self.ev(a)
        except Inconclusive:
            cur = None
        if isinstance(cur, Rat) and cur.d == ONEP and len(cur.atoms()) == 1 \
                and rat_eq(cur, Rat.atom(next(iter(cur.atoms())))):
            FORK.facts[next(iter(cur.atoms()))] = b.value
        if isinstance(a, ast.Name):
            self.env[a.id] = Rat.const(b.value)
        elif isinstance(a, ast.Attribute):
            self.heap[self.key(a)] = Rat.const(b.value)

    def decide(self, test):
        """ask the rule's hook about a branch condition; `a != b`, `a is not
        b` and `not c` are answered through their positive forms, so that a
        rule that knows `x == 'angle'` also knows `x != 'angle'`"""
        c = self.choose(test, self) if self.choose is not None else None
        if c is not None:
            return c
        folded = self._fold_compare(test)
        if folded is not None:
            return folded
        if self.choose is None:
            return None
        if isinstance(test, ast.UnaryOp) and isinstance(test.op, ast.Not):
            d = self.decide(test.operand)
            return None if d is None else not d
        if isinstance(test, ast.Compare) and len(test.ops) == 1 and \
                isinstance(test.ops[0], (ast.NotEq, ast.IsNot)):
            pos = ast.Compare(
                left=test.left,
                ops=[ast.Eq() if isinstance(test.ops[0], ast.NotEq)
                     else ast.Is()],
                comparators=test.comparators)
            ast.copy_location(pos, test)
            d = self.choose(pos, self)
            return None if d is None else not d
        return None

    def _fold_compare(self, test):
        """a comparison of two numbers known at analysis time (a rule that
        runs a function for surface_number = 0, 1, ...) decides itself"""
        if not (isinstance(test, ast.Compare) and len(test.ops) == 1):
            return None
        sides = []
        for x in (test.left, test.comparators[0]):
            if isinstance(x, ast.Name):
                v = self.env.get(x.id)
            elif isinstance(x, ast.Constant) and isinstance(
                    x.value, (int, float)) and not isinstance(x.value, bool):
                v = Rat.const(x.value)
            else:
                return None
            if not (isinstance(v, Rat) and v.is_const()):
                return None
            sides.append(v.n.constant() / v.d.constant())
        a, b = sides
        op = test.ops[0]
        table = {ast.Eq: a == b, ast.NotEq: a != b, ast.Lt: a < b,
                 ast.LtE: a <= b, ast.Gt: a > b, ast.GtE: a >= b}
        return table.get(type(op))

    def arith(self, op, a, b, node=None):
        if isinstance(a, (tuple, list)) or isinstance(b, (tuple, list)):
            if isinstance(a, (tuple, list)) and isinstance(b, (tuple, list)):
                if len(a) != len(b):
                    raise Inconclusive('vector length mismatch')
                return tuple(self.arith(op, x, y, node) for x, y in zip(a, b))
            if isinstance(a, (tuple, list)):
                return tuple(self.arith(op, x, b, node) for x in a)
            return tuple(self.arith(op, a, y, node) for y in b)
        if isinstance(op, ast.Add):
            return a + b
        if isinstance(op, ast.Sub):
            return a - b
        if isinstance(op, (ast.Mult, ast.MatMult)):
            return a * b
        if isinstance(op, ast.Div):
            return a / b
        if isinstance(op, ast.FloorDiv):
            # integer quotient: opaque (equal arguments give the same atom)
            return self.sym.opaque('floordiv', (a, b))
        raise Inconclusive('operator ' + type(op).__name__)

    def read(self, key):
        if key in self.heap:
            return self.heap[key]
        return Rat.atom(key)

    def call(self, e):
        f = e.func
        name = f.attr if isinstance(f, ast.Attribute) else (
            f.id if isinstance(f, ast.Name) else None)
        isnp = isinstance(f, ast.Attribute) and isinstance(f.value, ast.Name) \
            and f.value.id in ('np', 'math')
        if isnp or isinstance(f, ast.Name):
            if name == 'sqrt' and e.args:
                return self.sym.sqrt(self.ev(e.args[0]))
            if name in ('abs', 'fabs') and e.args:
                return self.sym.absv(self.ev(e.args[0]))
            if name == 'sign' and e.args:
                return self.sym.sign(self.ev(e.args[0]))
            if name == 'sin' and e.args:
                return self.sym.sin(self.ev(e.args[0]))
            if name == 'cos' and e.args:
                return self.sym.cos(self.ev(e.args[0]))
            if name == 'tan' and e.args:
                a = self.ev(e.args[0])
                return self.sym.sin(a) / self.sym.cos(a)
            if name in ('radians', 'deg2rad') and e.args:
                return self.ev(e.args[0]) * Rat.atom('pi') / Rat.const(180)
            if name in ('degrees', 'rad2deg') and e.args:
                return self.ev(e.args[0]) * Rat.const(180) / Rat.atom('pi')
            if name in IDENTITY_CALLS and e.args:
                return self.ev(e.args[0])
            if name in ('ones_like', 'ones'):
                return ONE
            if name in ('zeros_like', 'zeros'):
                return ZERO
            if name in ('full_like', 'full') and len(e.args) >= 2:
                return self.ev(e.args[1])
            if name == 'exp' and e.args:
                a = self.ev(e.args[0])
                x = self.sym.imag_part(a)
                if x is not None:
                    return self.sym.cos(x) + Rat.atom('I') * self.sym.sin(x)
                return self.sym.opaque('exp', (a,))
            if name in ('conj', 'conjugate') and e.args:
                return self.sym.conj(self.ev(e.args[0]))
            if name == 'arccos' and e.args:
                a = self.ev(e.args[0])
                at = self.sym.fn_atom('acos', a)
                return Rat.atom(at)
            if name in ('column_stack', 'stack', 'vstack', 'hstack') and e.args:
                v = self.ev(e.args[0])
                if isinstance(v, tuple):
                    return v
            if name == 'where' and len(e.args) == 3:
                # elementwise selection: the caller's hook says which branch
                # the elements under consideration take
                c = self.decide(e.args[0]) if self.choose is not None \
                    else None
                if c is None:
                    c = FORK.ask(e.args[0])
                if c is not None:
                    return self.ev(e.args[1] if c else e.args[2])
                raise Inconclusive('np.where with undecided condition ' +
                                   unparse(e.args[0]))
            if name in ('isfinite', 'isnan', 'isinf') and e.args:
                return Rat.atom('mask:' + ' '.join(unparse(e).split()))
            if name == 'square' and e.args:
                a = self.ev(e.args[0])
                return a * a
            if name == 'hypot' and len(e.args) == 2:
                a, b = self.ev(e.args[0]), self.ev(e.args[1])
                return self.sym.sqrt(a * a + b * b)
        if isinstance(f, ast.Attribute) and name in ('copy', 'astype', 'flatten',
                                                     'ravel', 'squeeze', 'item') \
                and not isnp:
            return self.ev(f.value)
        if self.inline is not None:
            v = self.inline(e, self)
            if v is not None:
                return v
        args = []
        for a in e.args:
            try:
                args.append(self.ev(a))
            except Inconclusive:
                args.append(unparse(a))
        for k in e.keywords:
            try:
                args.append((k.arg, self.ev(k.value)))
            except Inconclusive:
                args.append((k.arg, unparse(k.value)))
        label = self.key(f) if isinstance(f, (ast.Attribute, ast.Name)) \
            else unparse(f)
        flat = []
        for a in args:
            flat.append(a[1] if isinstance(a, tuple) and len(a) == 2 and
                        isinstance(a[0], str) else a)
        if any(isinstance(a, tuple) for a in flat):
            raise Inconclusive('tuple argument in opaque call ' + unparse(e))
        return self.sym.opaque('call:' + label, tuple(flat), label)

    # -------------------------------------------------------- statements
    def assign(self, tg, v):
        if isinstance(tg, ast.Name):
            self.env[tg.id] = v
        elif isinstance(tg, (ast.Tuple, ast.List)):
            if isinstance(v, (tuple, list)) and len(v) == len(tg.elts):
                for t, x in zip(tg.elts, v):
                    self.assign(t, x)
            elif isinstance(v, Rat):
                # unpacking an opaque result: fresh component atoms
                for i, t in enumerate(tg.elts):
                    base = sorted(v.atoms())[0] if v.atoms() else 'val'
                    self.assign(t, Rat.atom(f'{base}.{i}'))
            else:
                raise Inconclusive('tuple unpack')
        elif isinstance(tg, ast.Subscript) and isinstance(tg.value, ast.Name) \
                and isinstance(self.env.get(tg.value.id), tuple):
            cur = list(self.env[tg.value.id])
            sl = tg.slice
            n = len(cur)

            def cint(x, default):
                if x is None:
                    return default
                r = self.ev(x)
                if isinstance(r, Rat) and r.is_const():
                    return int(r.n.constant() / r.d.constant())
                raise Inconclusive('non-constant slice bound')
            if isinstance(sl, ast.Slice):
                lo, hi = cint(sl.lower, 0), cint(sl.upper, n)
                idx = list(range(*slice(lo, hi).indices(n)))
                for j, i in enumerate(idx):
                    cur[i] = v[j] if isinstance(v, tuple) else v
            else:
                cur[cint(sl, 0)] = v
            self.env[tg.value.id] = tuple(cur)
        elif isinstance(tg, (ast.Attribute, ast.Subscript)):
            self.heap[self.key(tg)] = v
            if isinstance(tg, ast.Subscript) and not isinstance(
                    tg.slice, (ast.Constant, ast.Slice, ast.Tuple)):
                # a masked store `a[mask] = v` overwrites the elements the
                # mask selects.  Masks of the reference tree keep their
                # established treatment (the hook of the rule, else the
                # elements under consideration are not selected); a mask
                # that was added is followed both ways
                c = self.decide(tg.slice) if self.choose is not None else None
                if c is None:
                    c = FORK.ask(tg.slice)
                if c:
                    base = tg.value
                    if isinstance(base, ast.Name) and isinstance(
                            self.env.get(base.id), Rat):
                        self.env[base.id] = v
                    elif isinstance(base, ast.Attribute):
                        self.heap[self.key(base)] = v
        else:
            raise Inconclusive('assignment target ' + unparse(tg))

    def run(self, body):
        """execute statements; returns True when a return/raise terminated."""
        for s in body:
            r = self.stmt(s)
            if r:
                return r            # True, or 'continue' inside a loop body
        return False

    def stmt(self, s):
        if isinstance(s, ast.Continue):
            return 'continue'
        if isinstance(s, ast.Assign):
            v = self.ev(s.value)
            for t in s.targets:
                self.assign(t, v)
            return False
        if isinstance(s, ast.AugAssign):
            cur = self.ev(s.target)
            v = self.ev(s.value)
            r = self.arith(s.op, cur, v, s)
            self.assign(s.target, r)
            return False
        if isinstance(s, ast.Expr):
            if isinstance(s.value, ast.Constant):
                return False
            if isinstance(s.value, ast.Call):
                if self.inline is not None:
                    self.inline(s.value, self)
                return False
            return False
        if isinstance(s, ast.Return):
            self.returned = self.ev(s.value) if s.value is not None else None
            return True
        if isinstance(s, ast.Raise):
            self.returned = ('raise', s)
            return True
        if isinstance(s, ast.If):
            c = self.decide(s.test)
            if c is None and not s.orelse and all(
                    isinstance(b, ast.Raise) for b in s.body):
                return False        # argument-validation guard: valid input
            if c is None:
                c = FORK.ask(s.test)
                if c is not None:
                    self.assume(s.test, c)
            if c is None:
                raise Inconclusive('undecided branch ' + unparse(s.test))
            return self.run(s.body if c else s.orelse)
        if isinstance(s, ast.With):
            return self.run(s.body)
        if isinstance(s, ast.Try):
            # the normal path: body, else, finally (handlers describe the
            # exceptional path, which the evaluated laws do not cover)
            return self.run(list(s.body) + list(s.orelse) +
                            list(s.finalbody))
        if isinstance(s, ast.For):
            items = self.iterate(s.iter)
            if items is None:
                raise Inconclusive('loop over ' + unparse(s.iter))
            for it in items:
                self.assign(s.target, it)
                r = self.run(s.body)
                if r == 'continue':
                    continue
                if r:
                    return True
            return False
        if isinstance(s, ast.While):
            # bounded unrolling: the test is decided by the hook; after
            # max_while iterations it is taken as False (the rule states the
            # bound it explored)
            bound = getattr(self, 'max_while', 2)
            for _ in range(bound):
                c = self.decide(s.test)
                if c is None:
                    raise Inconclusive('undecided loop test ' +
                                       unparse(s.test))
                if not c:
                    return self.run(s.orelse) if s.orelse else False
                r = self.run(s.body)
                if r == 'continue':
                    continue
                if r:
                    return True
            return False
        if isinstance(s, (ast.Pass, ast.Import, ast.ImportFrom)):
            return False
        raise Inconclusive('statement ' + type(s).__name__)


def _iterate(self, it):
    """values a for-loop ranges over, when statically known through the
    evaluator's `lens` table (unparse(expr) -> length) or `iters` hook."""
    hook = getattr(self, 'iters', None)
    if hook is not None:
        v = hook(it, self)
        if v is not None:
            return v
    lens = getattr(self, 'lens', {})

    def resolved(node):
        """(base key, length) of a sequence expression: the table is keyed by
        source text or by the atom the expression evaluates to (aliases and
        identity wrappers such as np.asarray are seen through); an opaque
        derived sequence gets the default length and its own element atoms."""
        k = unparse(node)
        if k in lens:
            return self.key(node) if isinstance(
                node, (ast.Name, ast.Attribute, ast.Subscript)) else k, lens[k]
        if isinstance(node, ast.Subscript) and isinstance(node.slice, ast.Slice):
            b, n = resolved(node.value)
            if n is not None and not isinstance(b, tuple):
                def cint(x):
                    if x is None:
                        return None
                    r = self.ev(x)
                    if isinstance(r, Rat) and r.is_const():
                        return int(r.n.constant() / r.d.constant())
                    raise Inconclusive('non-constant slice bound')
                try:
                    sl = slice(cint(node.slice.lower), cint(node.slice.upper),
                               cint(node.slice.step))
                except Inconclusive:
                    return None, None
                idx = list(range(*sl.indices(n)))
                return tuple(self.read(f'{b}[{i}]') for i in idx), len(idx)
        if isinstance(node, ast.Subscript):
            k2 = unparse(node.value) + '[*]'
            if k2 in lens:
                return self.key(node), lens[k2]
        try:
            v = self.ev(node)
        except Inconclusive:
            return None, None
        if isinstance(v, tuple):
            return v, len(v)
        if isinstance(v, Rat) and v.d == ONEP and len(v.n.d) == 1:
            (mono, c), = v.n.d.items()
            if c == 1 and len(mono) == 1 and mono[0][1] == 1:
                a = mono[0][0]
                if a in lens:
                    return a, lens[a]
                if '*' in lens:
                    return a, lens['*']
        return None, None

    def length(node):
        return resolved(node)[1]
    if isinstance(it, ast.Call) and isinstance(it.func, ast.Name):
        if it.func.id == 'range':
            vals = []
            for a in it.args:
                if isinstance(a, ast.Call) and isinstance(a.func, ast.Name) \
                        and a.func.id == 'len':
                    n = length(a.args[0])
                    if n is None:
                        return None
                    vals.append(n)
                else:
                    try:
                        r = self.ev(a)
                    except Inconclusive:
                        return None
                    if not (isinstance(r, Rat) and r.is_const()):
                        return None
                    vals.append(int(r.n.constant() / r.d.constant()))
            return [Rat.const(i) for i in range(*vals)]
        if it.func.id == 'enumerate' and it.args:
            base, n = resolved(it.args[0])
            if n is None:
                return None
            if isinstance(base, tuple):
                return [(Rat.const(i), base[i]) for i in range(n)]
            return [(Rat.const(i), self.read(f'{base}[{i}]'))
                    for i in range(n)]
    base, n = resolved(it)
    if n is not None:
        if isinstance(base, tuple):
            return list(base)
        return [self.read(f'{base}[{i}]') for i in range(n)]
    return None


Ev.iterate = _iterate


def fn_eval(P, func, args=None, choose=None, sym=None, heap=None, inline=None,
            self_prefix='self', kwargs=None, lens=None, iters=None):
    """evaluate the body of func symbolically; parameters bound to args (Rat)
    or to atoms named after the parameter."""
    ev = Ev(sym=sym, P=P, func=func, choose=choose, heap=heap, inline=inline,
            self_prefix=self_prefix)
    if lens:
        ev.lens = lens
    if iters:
        ev.iters = iters
    params = func.params
    a = func.node.args
    defaults = dict(zip([x.arg for x in a.args][len(a.args) - len(a.defaults):],
                        a.defaults))
    for i, p in enumerate(params):
        if args is not None and i < len(args) and args[i] is not None:
            ev.env[p] = args[i]
        elif kwargs and p in kwargs:
            ev.env[p] = kwargs[p]
        else:
            ev.env[p] = Rat.atom(p)
    ev.run(func.node.body)
    return ev


class Fork:
    """Scheduler for *new* guards.

    A branch condition that no hook of the running rule decides normally ends
    the evaluation (`Inconclusive`): the function left the fragment the rule
    was written for.  When the condition's text occurs nowhere in the
    reference tree it is a guard somebody added, and the honest analysis of
    an added guard is to follow both of its arms: the driver in
    `core.run_rule` re-runs the whole rule once per combination of decisions
    (one decision per distinct condition text, at most `LIMIT` texts), and
    every obligation of the rule has to hold in every run.  A finding that
    appears only under some decision is reported with that path condition.
    On a tree whose guards all occur in the reference tree nothing changes.
    """
    LIMIT = 3

    def __init__(self):
        self.active = False
        self.assign = {}
        self.facts = {}
        self.pending = []
        self._ref = None

    def reference_tests(self):
        if self._ref is None:
            from . import canon
            self._ref = canon.reference_tests()
        return self._ref

    def begin(self, assign):
        self.active = True
        self.facts = {}
        self.assign = dict(assign)
        self.fixed = set(assign)
        self.pending = []

    def end(self):
        self.active = False
        return dict(self.assign), list(self.pending)

    def ask(self, test):
        if not self.active:
            return None
        txt = ' '.join(unparse(test).split())
        if txt in self.assign:
            return self.assign[txt]
        ref = self.reference_tests()
        if not ref or txt in ref or len(self.assign) >= self.LIMIT:
            return None
        alt = dict(self.assign)
        alt[txt] = False
        self.pending.append(alt)
        self.assign[txt] = True
        return True


FORK = Fork()


def explore(run, limit=64):
    """enumerate every combination of undecided branch decisions.

    run(choose) must perform one symbolic evaluation using the given
    choose(test, ev) callback for branches it cannot decide itself and return
    a result; explore returns [(decisions, result)] for all decision vectors
    (depth-first, each undecided branch taken True then False)."""
    out = []
    stack = [[]]
    while stack:
        prefix = stack.pop()
        trace = []

        def choose(test, ev, prefix=prefix, trace=trace):
            i = len(trace)
            if i < len(prefix):
                d = prefix[i]
            else:
                d = True
                stack.append(trace[:i] + [False])
            trace.append(d)
            return d
        res = run(choose)
        out.append((list(trace), res))
        if len(out) > limit:
            raise Inconclusive('too many undecided branch combinations')
    return out

"""Driver infrastructure: findings, rule results, evidence, known findings, exit
protocol (0 held / 1 VIOLATION / 2 ANALYSIS-ERROR)."""
import ast
import json
import os
import sys
import time
import traceback

from .pm import Program, AnalysisError, unparse

VERIF = os.path.dirname(os.path.dirname(os.path.abspath(__file__)))
REPO = os.environ.get('VERIF_REPO', '/repo')


class Finding:
    def __init__(self, rule, function, construct, message, file='', line=0,
                 path=None):
        self.rule = rule
        self.function = function
        self.construct = construct if isinstance(construct, str) \
            else unparse(construct, 200)
        self.message = message
        self.file = file
        self.line = line
        self.path = path or []

    def key(self, prop):
        return (prop, self.rule, self.function, self.construct)

    def to_json(self, prop):
        return {'property': prop, 'rule': self.rule, 'function': self.function,
                'construct': self.construct, 'file': self.file,
                'line': self.line, 'message': self.message, 'path': self.path}


class Result:
    """outcome of one rule: obligations examined, findings, samples."""

    def __init__(self, rule, what, level='other'):
        self.rule = rule
        self.what = what
        self.level = level
        self.obligations = 0
        self.discharged = 0
        self.findings = []
        self.samples = []
        self.notes = []
        self.analysed = set()
        self.min_instances = 0
        self.trusted = []
        self.exceptions = []
        self.distinct = set()
        from . import rat
        rat.BUDGET[0] = 40_000_000

    def ok(self, sample=None):
        self.obligations += 1
        self.discharged += 1
        self.distinct.add(sample if sample is not None
                          else f'#{self.obligations}')
        if sample is not None and len(self.samples) < 6:
            self.samples.append(f'{sample} -> ok')

    def fail(self, finding):
        self.obligations += 1
        self.findings.append(finding)
        self.distinct.add((finding.function, finding.construct))
        if len(self.samples) < 8:
            self.samples.append(
                f'{finding.file}:{finding.line} {finding.rule} '
                f'{finding.function}: {finding.construct} -> VIOLATION')

    def saw(self, func):
        self.analysed.add(func if isinstance(func, str) else func.qual)

    def require(self, n, what='instances'):
        self.min_instances = n
        if self.obligations < n:
            raise AnalysisError(
                f'rule {self.rule}: only {self.obligations} {what} found, '
                f'{n} confirmed by reading -- anchor vanished?')


class Ctx:
    def __init__(self, tier, prop, repo=None):
        self.tier = tier
        self.prop = prop
        self.repo = repo or REPO
        self._P = None
        self._Pall = None
        self._eff = None

    @property
    def P(self):
        if self._P is None:
            self._P = Program(self.repo, include_all=False)
        return self._P

    @property
    def Pall(self):
        if self._Pall is None:
            self._Pall = Program(self.repo, include_all=True)
        return self._Pall

    def pruned(self):
        """the same context over the model without the statements under
        added one-armed guards"""
        c = Ctx(self.tier, self.prop, repo=self.repo)
        c._P = Program(self.repo, include_all=False, prune_guards=True)
        c._pruned = True
        return c

    @property
    def effects(self):
        if self._eff is None:
            from .effects import Effects
            self._eff = Effects(self.P)
        return self._eff

    def finding(self, rule, func, node, message, construct=None, path=None):
        file, line = '', 0
        if func is not None and not isinstance(func, str):
            file = func.module
            line = getattr(node, 'lineno', None) or func.node.lineno
            fq = func.qual
        else:
            fq = func or ''
        if construct is None:
            construct = node if node is not None else fq
        return Finding(rule, fq, construct, message, file, line, path)


def load_known():
    p = os.path.join(VERIF, 'known_findings.json')
    if not os.path.exists(p):
        return []
    return json.load(open(p))


def match_known(known, prop, f):
    for k in known:
        if k.get('status') != 'known':
            continue
        if k['property'] == prop and k['rule'] == f.rule and \
                k['function'] == f.function and \
                (k.get('construct') in (None, '*', f.construct)):
            return k
    return None


def _reference_tree(repo):
    """True when every package file has the digest recorded with the
    local-name reference table (the tree the known findings were triaged on)"""
    import hashlib
    from . import canon
    dg = canon.load_table().get('__digests__', {})
    if not dg:
        return False
    for rel, want in dg.items():
        try:
            with open(os.path.join(repo, rel), encoding='utf-8') as fh:
                if hashlib.sha1(fh.read().encode()).hexdigest() != want:
                    return False
        except OSError:
            return False
    return True


_PRUNED = {}


RULE_SECONDS = 180


class _Deadline:
    """a rule that does not come back (an algebra blow-up on some tree) is an
    analysis error, not a hang"""

    def __init__(self, what):
        self.what = what

    def __enter__(self):
        import signal
        self.ok = hasattr(signal, 'SIGALRM')
        if self.ok:
            try:
                self.old = signal.signal(signal.SIGALRM, self._fire)
                signal.alarm(RULE_SECONDS)
            except ValueError:          # not in the main thread
                self.ok = False
        return self

    def _fire(self, *a):
        raise AnalysisError(f'{self.what}: no result after {RULE_SECONDS} s '
                            f'(the analysis does not terminate on this tree)')

    def __exit__(self, *a):
        if self.ok:
            import signal
            signal.alarm(0)
            signal.signal(signal.SIGALRM, self.old)
        return False


def run_rule(r, ctx):
    with _Deadline(getattr(r, '__name__', 'rule')):
        return _run_rule_guarded(r, ctx)


def _run_rule_guarded(r, ctx):
    """run one rule (see _run_rule_forked); when the tree has one-armed
    guards that the reference tree does not have, run it a second time on
    the model without the guarded statements: an obligation of the form
    "X is done" has to hold when the guard is false as well.  Findings that
    appear only there are reported with that condition."""
    base = _run_rule_forked(r, ctx)
    if getattr(ctx, '_pruned', False):
        return base
    try:
        guards = ctx.P.added_guards
    except AnalysisError:
        return base
    if not guards:
        return base
    key = (ctx.repo, ctx.prop)
    if key not in _PRUNED:
        _PRUNED[key] = ctx.pruned()
    try:
        alt = _run_rule_forked(r, _PRUNED[key])
    except AnalysisError:
        return base
    have = {(f.rule, f.function, f.construct) for res in base
            for f in res.findings}
    cond = '; '.join(f'{rel}:{ln} `{t[:60]}`' for rel, ln, t in guards[:3])
    for res in alt:
        for f in res.findings:
            k = (f.rule, f.function, f.construct)
            if k in have:
                continue
            have.add(k)
            f.message += (' [when the statements under the added guard are '
                          f'not executed: {cond}]')
            f.path = list(f.path) + ['added guard false: ' + cond]
            tgt = next((b for b in base if b.rule == f.rule),
                       base[0] if base else None)
            if tgt is None:
                base = [res]
                break
            tgt.fail(f)
    return base


def _run_rule_forked(r, ctx):
    """run one rule; when its evaluators meet guards that the reference tree
    does not contain and no hook decides, run it once per combination of
    decisions (rat.Fork) and merge: obligations of the first run, findings of
    all runs, those seen only under some decision marked with the path
    condition.  Returns a list of Results."""
    from .rat import FORK
    runs = []
    stack = [{}]
    err = None
    while stack:
        assign = stack.pop()
        FORK.begin(assign)
        try:
            out = r(ctx)
        except AnalysisError as e:
            from .pm import Missing
            if isinstance(e, Missing):
                mres = Result(e.rule, 'statement the obligation is about')
                mres.fail(ctx.finding(e.rule, e.func, getattr(
                    e.func, 'node', None), e.message, construct=e.construct))
                out = [mres]
            else:
                out, err = None, (err or e)
        finally:
            assign, pending = FORK.end()
        stack.extend(pending)
        if out is not None:
            runs.append((assign, out if isinstance(out, list) else [out]))
        if len(runs) + len(stack) > 16:
            break
    if not runs:
        if err:
            raise err
        return []
    base = runs[0][1]
    if len(runs) == 1 and not runs[0][0]:
        if err:
            raise err
        return base
    where = {}
    for assign, out in runs:
        for res in out:
            for f in res.findings:
                where.setdefault((f.rule, f.function, f.construct),
                                 []).append((assign, f))
    have = {(f.rule, f.function, f.construct)
            for res in base for f in res.findings}
    for k, occ in where.items():
        if len(occ) == len(runs):
            continue                    # independent of the new guards
        assign, f = occ[0]
        cond = ' and '.join(f"`{t}` is {d}" for t, d in sorted(assign.items()))
        f.message += f' [on the path where the added guard {cond}]'
        f.path = list(f.path) + [f'guard {t} = {d}'
                                 for t, d in sorted(assign.items())]
        if k not in have:
            tgt = next((res for res in base if res.rule == f.rule), base[0])
            tgt.fail(f)
            have.add(k)
    for res in base:
        res.notes.append(
            f'{len(runs)} runs over added guards: ' +
            '; '.join(sorted({t for a, _ in runs for t in a}))[:300])
        break
    if err and not any(res.findings for res in base):
        raise err
    return base


def run_property(prop, rules, tier, seed, meta):
    """rules: list of callables(ctx) -> Result | list[Result]."""
    t0 = time.time()
    ctx = Ctx(tier, prop)
    results = []
    errors = []
    todo = list(rules)
    if tier == 'thorough':
        from .selftest import selftest_rule
        todo += list(meta.get('thorough', [])) + [selftest_rule(prop)]
    for r in todo:
        try:
            out = run_rule(r, ctx)
        except AnalysisError as e:
            errors.append(f'{getattr(r, "__name__", "rule")}: {e}')
            continue
        except Exception:
            tb = traceback.format_exc()
            errors.append(f'{getattr(r, "__name__", "rule")}: internal '
                          f'exception\n{tb}')
            continue
        if out is None:
            continue
        results += out if isinstance(out, list) else [out]
    known = load_known()
    new, knownhits = [], []
    seen = set()
    for res in results:
        for f in res.findings:
            k = f.key(prop)
            if k in seen:
                continue
            seen.add(k)
            m = match_known(known, prop, f)
            if m:
                knownhits.append((f, m))
            else:
                new.append(f)
    for f, m in knownhits:
        print(f'KNOWN-FINDING: property={prop} rule={f.rule} '
              f'{f.function}: {f.construct} -- {m.get("what", f.message)}')
    # a listed finding that is no longer reproduced although the package is
    # byte-identical to the reference tree means the checker lost a rule
    hit_ids = {id(m) for _, m in knownhits}
    lost = [m for m in known if m.get('property') == prop and
            m.get('status') == 'known' and id(m) not in hit_ids]
    if lost and not errors and _reference_tree(ctx.repo):
        for m in lost:
            errors.append(
                f'known finding not reproduced on the reference tree '
                f'(checker regression): rule={m.get("rule")} '
                f'function={m.get("function")} construct={m.get("construct")}')
    wall = time.time() - t0
    write_evidence(prop, tier, seed, results, new, knownhits, wall, meta)
    for res in results:
        print(f'  [{res.rule}] obligations={res.obligations} '
              f'discharged={res.discharged} findings={len(res.findings)} '
              f'-- {res.what}')
    for e in errors:
        print(f'ANALYSIS-ERROR property={prop} {e}')
    if errors and not new:
        # the analysis could not stand for some rule and nothing definite was
        # found: not a verdict
        return 2
    if new:
        os.makedirs(os.path.join(VERIF, 'replay'), exist_ok=True)
        rp = os.path.join(VERIF, 'replay', f'{prop}.json')
        with open(rp, 'w') as fh:
            json.dump([f.to_json(prop) for f in new], fh, indent=1)
        for f in new:
            print(f'  {f.file}:{f.line} [{f.rule}] {f.function}: '
                  f'{f.construct} :: {f.message}')
        print(f'VIOLATION property={prop} replay={rp}')
        return 1
    print(f'OK property={prop} tier={tier} rules={len(results)} '
          f'obligations={sum(r.obligations for r in results)} '
          f'wall={wall:.2f}s')
    return 0


def write_evidence(prop, tier, seed, results, new, knownhits, wall, meta):
    obligations = sum(r.obligations for r in results)
    discharged = sum(r.discharged for r in results)
    samples = []
    for r in results:
        for s in r.samples[:4]:
            samples.append(f'[{r.rule}] {s}')
    analysed = sorted(set().union(*[r.analysed for r in results])) \
        if results else []
    trusted = sorted(set(t for r in results for t in r.trusted) |
                     set(meta.get('trusted', [])))
    ev = {
        'property_id': prop,
        'tier': tier,
        'seed': seed,
        'level': 'other',
        'coverage': {
            'explanation': meta.get('explanation', ''),
            'obligations': obligations,
            'discharged': discharged,
            'evaluations': obligations,
            'distinct_nontrivial': sum(len(r.distinct) for r in results),
            'rule': 'one obligation = one rule instance (call site, store, '
                    'path, formula or table row) discovered in the current '
                    'source of /repo; distinct = obligations with different '
                    '(rule, construct description), counted per rule; '
                    'obligations reported without a description count once '
                    'each',
            'samples': samples[:60],
            'exhaustive': True,
            'rules': [{
                'rule': r.rule, 'what': r.what, 'level': r.level,
                'obligations': r.obligations, 'discharged': r.discharged,
                'findings': len(r.findings), 'min_instances': r.min_instances,
                'notes': r.notes[:12], 'exceptions': r.exceptions,
            } for r in results],
            'functions_analysed': analysed[:400],
            'functions_analysed_count': len(analysed),
            'trusted_base': trusted,
            'checker_cmd': f'./check {prop} --tier {tier}',
            'declined_clauses': meta.get('declined', []),
            'known_findings_printed': [
                {'rule': f.rule, 'function': f.function,
                 'construct': f.construct} for f, _ in knownhits],
            'new_violations': [f.to_json(prop) for f in new][:50],
        },
        'assumptions': meta.get('assumptions', []),
        'wall_s': round(wall, 3),
        'violations': len(new),
    }
    evdir = os.path.join(VERIF, 'evidence')
    if os.environ.get('VERIF_REPO'):
        # experiments against a scratch tree never overwrite real evidence
        import tempfile
        evdir = os.path.join(tempfile.gettempdir(), 'verif_scratch_evidence')
    os.makedirs(evdir, exist_ok=True)
    with open(os.path.join(evdir, f'{prop}.json'), 'w') as fh:
        json.dump(ev, fh, indent=1)


def replay(prop, rules, path, meta):
    """re-evaluate the rules and report whether the recorded constructs still
    violate."""
    want = json.load(open(path))
    ctx = Ctx('quick', prop)
    found = {}
    try:
        for r in rules:
            out = run_rule(r, ctx)
            for res in (out if isinstance(out, list) else [out] if out else []):
                for f in res.findings:
                    found[f.key(prop)] = f
    except AnalysisError as e:
        print(f'ANALYSIS-ERROR property={prop} {e}')
        return 2
    still = 0
    for w in want:
        k = (prop, w['rule'], w['function'], w['construct'])
        if k in found:
            still += 1
            f = found[k]
            print(f'REPRODUCED {f.file}:{f.line} [{f.rule}] {f.function}: '
                  f'{f.construct} :: {f.message}')
        else:
            print(f'NOT-REPRODUCED [{w["rule"]}] {w["function"]}: '
                  f'{w["construct"]}')
    if still:
        print(f'VIOLATION property={prop} replay={path}')
        return 1
    return 0

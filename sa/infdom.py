"""E8b: the three-point domain {FIN, INF, NAN} for "does this function survive
an infinite parameter" questions (object at infinity, flat base radius).

INF is unsigned (the sign of an infinite radius is not known), so the domain is
conservative in one direction only: INF + INF is reported as NAN.  A rule uses
it only to *prove* FIN results; a non-FIN result is a finding only where the
rule has confirmed by reading that the reference tree's form evaluates to FIN
and the broken form does not.

Values are joined over rays (a numpy array is one abstract value).  Supported:
names, attributes (looked up in `attr`), numbers, + - * / **, unary minus,
np.sqrt / np.abs / np.where / np.isinf / np.isnan, tuples, masked stores
`t[mask] = v` (join), `with`, `if` (decided by the hook, else both arms
joined), `return`.  Anything else raises Inconclusive.
"""
import ast
from .pm import unparse
from .rat import Inconclusive

FIN, INF, NAN = 'FIN', 'INF', 'NAN'


def join(a, b):
    if a == b:
        return a
    if NAN in (a, b):
        return NAN
    return INF


def add(a, b):
    if NAN in (a, b):
        return NAN
    if a == INF and b == INF:
        return NAN              # unsigned: inf - inf possible
    return INF if INF in (a, b) else FIN


def mul(a, b):
    if NAN in (a, b):
        return NAN
    return INF if INF in (a, b) else FIN        # FIN taken as non-zero


def div(a, b):
    if NAN in (a, b):
        return NAN
    if a == INF and b == INF:
        return NAN
    if b == INF:
        return FIN
    return a


class InfEv:
    def __init__(self, attr=None, env=None, choose=None):
        self.attr = attr or {}
        self.env = env or {}
        self.choose = choose or (lambda test: None)
        self.returned = None

    def ev(self, e):
        if isinstance(e, ast.Constant) and isinstance(e.value, (int, float)):
            return FIN
        if isinstance(e, ast.Name):
            if e.id in self.env:
                return self.env[e.id]
            raise Inconclusive(f'unbound name {e.id}')
        if isinstance(e, ast.Attribute):
            k = unparse(e)
            if k in ('np.inf',):
                return INF
            if k in ('np.nan',):
                return NAN
            return self.attr.get(k, FIN)
        if isinstance(e, ast.UnaryOp) and isinstance(e.op, (ast.USub,
                                                            ast.UAdd)):
            return self.ev(e.operand)
        if isinstance(e, ast.BinOp):
            a, b = self.ev(e.left), self.ev(e.right)
            if isinstance(e.op, (ast.Add, ast.Sub)):
                return add(a, b)
            if isinstance(e.op, ast.Mult):
                return mul(a, b)
            if isinstance(e.op, ast.Div):
                return div(a, b)
            if isinstance(e.op, ast.Pow):
                return a if b == FIN else NAN
            raise Inconclusive('operator ' + type(e.op).__name__)
        if isinstance(e, ast.Compare):
            for x in [e.left] + list(e.comparators):
                self.ev(x)
            return FIN
        if isinstance(e, ast.Subscript):
            return self.ev(e.value)
        if isinstance(e, ast.Tuple):
            return tuple(self.ev(x) for x in e.elts)
        if isinstance(e, ast.Call):
            fn = unparse(e.func)
            if fn in ('np.sqrt', 'np.abs', 'np.copy', 'np.asarray',
                      'np.array', 'np.squeeze') and e.args:
                return self.ev(e.args[0])
            if fn in ('np.isinf', 'np.isnan', 'np.isfinite') and e.args:
                self.ev(e.args[0])
                return FIN
            if fn == 'np.where' and len(e.args) == 3:
                self.ev(e.args[0])
                return join(self.ev(e.args[1]), self.ev(e.args[2]))
            if fn in ('np.zeros_like', 'np.ones_like'):
                return FIN
            # any other call: finite arguments give a finite result (cos,
            # arccos, helper methods of the class)
            vals = [self.ev(a) for a in e.args] + \
                [self.ev(k.value) for k in e.keywords]
            if all(v == FIN for v in vals):
                return FIN
        raise Inconclusive(f'expression {unparse(e)[:60]}')

    def run(self, body):
        for s in body:
            if self.returned is not None:
                return
            self.stmt(s)

    def stmt(self, s):
        if isinstance(s, ast.Pass) or (isinstance(s, ast.Expr) and isinstance(
                s.value, (ast.Constant, ast.Call))):
            return
        if isinstance(s, ast.Assign) and len(s.targets) == 1:
            t = s.targets[0]
            v = self.ev(s.value)
            if isinstance(t, ast.Name):
                self.env[t.id] = v
                return
            if isinstance(t, ast.Tuple) and isinstance(v, tuple) and \
                    len(t.elts) == len(v):
                for x, y in zip(t.elts, v):
                    if not isinstance(x, ast.Name):
                        raise Inconclusive('tuple target')
                    self.env[x.id] = y
                return
            if isinstance(t, ast.Subscript) and isinstance(t.value, ast.Name):
                cur = self.env.get(t.value.id)
                if cur is None:
                    raise Inconclusive('masked store to unbound name')
                self.env[t.value.id] = join(cur, v)
                return
        if isinstance(s, ast.AugAssign) and isinstance(s.target, ast.Name):
            cur = self.env.get(s.target.id)
            if cur is None:
                raise Inconclusive('augmented assignment to unbound name')
            v = self.ev(s.value)
            if isinstance(s.op, (ast.Add, ast.Sub)):
                self.env[s.target.id] = add(cur, v)
            elif isinstance(s.op, ast.Mult):
                self.env[s.target.id] = mul(cur, v)
            elif isinstance(s.op, ast.Div):
                self.env[s.target.id] = div(cur, v)
            else:
                raise Inconclusive('augmented operator')
            return
        if isinstance(s, ast.For):
            # one abstract pass: loop variables are finite numbers
            for n in ast.walk(s.target):
                if isinstance(n, ast.Name):
                    self.env[n.id] = FIN
            self.run(s.body)
            return
        if isinstance(s, ast.With):
            self.run(s.body)
            return
        if isinstance(s, ast.If):
            d = bool(s.test.value) if isinstance(s.test, ast.Constant) \
                else self.choose(s.test)
            if d is None:
                from .rat import FORK
                d = FORK.ask(s.test)
            if d is not None:
                self.run(s.body if d else s.orelse)
                return
            raise Inconclusive(f'undecided branch {unparse(s.test)[:50]}')
        if isinstance(s, ast.Return):
            self.returned = self.ev(s.value) if s.value is not None else ()
            return
        raise Inconclusive(f'statement {unparse(s)[:60]}')

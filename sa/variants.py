"""Self-validation variants: (kind, name, [(file, old, new), ...]).

mutant  - breaks exactly one instance of a rule; the check must fire.
twin    - behaviour-preserving edit; the check must stay silent.
These are fixtures for the checker, not rules: text anchors that are no longer
present are skipped and reported by the harness.
"""
O = 'optiland/'
RR = O + 'rays/real_rays.py'
SS = O + 'surfaces/standard_surface.py'
SG = O + 'surfaces/surface_group.py'
SF = O + 'surfaces/surface_factory.py'
OP = O + 'optic.py'
PX = O + 'paraxial.py'
AB = O + 'aberrations.py'
WF = O + 'wavefront.py'
CS = O + 'coordinate_system.py'
ST = O + 'geometries/standard.py'
NR = O + 'geometries/newton_raphson.py'
EA = O + 'geometries/even_asphere.py'
RG = O + 'rays/ray_generator.py'
OPT = O + 'optimization/optimization.py'
VAR = O + 'optimization/variable/'
TOL = O + 'tolerancing/'
JN = O + 'jones.py'
CT = O + 'coatings.py'
MF = O + 'materials/material_file.py'
MT = O + 'materials/material.py'
ZH = O + 'fileio/zemax_handler.py'
CV = O + 'fileio/converters.py'
ZK = O + 'zernike.py'
MTF = O + 'mtf.py'
PSF = O + 'psf.py'
AN = O + 'analysis/'


def M(name, *edits):
    return ('mutant', name, list(edits))


def T(name, *edits):
    return ('twin', name, list(edits))


VARIANTS = {
    'C01': [
        M('thickness-shift-off-by-one',
          (OP, 'positions[surface_number+1:] += delta_t',
           'positions[surface_number:] += delta_t')),
        # since 27b3d98 no gap edit moves surface 1, so under the invariant
        # 'surface 1 at z = 0' (checked by THICKNESS-EDIT) the re-zeroing is
        # the identity: behaviour-preserving
        T('thickness-no-rezero',
          (OP, 'positions -= positions[1]  # force surface 1 to be at zero',
           'pass')),
        M('set-index-same-surface',
          (OP, '        idx = surface_number + 1\n        surfaces[idx].'
               'material_pre = new_material',
           '        idx = surface_number\n        surfaces[idx].'
           'material_pre = new_material')),
        M('stop-not-cleared',
          (SG, '        if new_surface.is_stop:\n            for surface in '
               'self.surfaces:\n                surface.is_stop = False\n',
           '')),
        M('last-thickness-not-recorded',
          (SG, 'self.surface_factory.last_thickness = thickness', 'pass')),
        M('placement-wrong-predecessor',
          (SF, 'positions[index-1][0]) + \\', 'positions[index-2][0]) + \\')),
        M('material-chain-wrong-predecessor',
          (SF, 'previous_surface = self._surface_group.surfaces[index-1]',
           'previous_surface = self._surface_group.surfaces[index-2]')),
        M('primary-not-cleared',
          (O + 'wavelength.py', '        if is_primary:\n            for '
           'wavelength in self.wavelengths:\n                '
           'wavelength.is_primary = False\n', '')),
        M('pickup-offset-scaled',
          (O + 'pickup.py', 'new_value = self.scale * old_value + self.offset',
           'new_value = self.scale * (old_value + self.offset)')),
        M('solve-slope-after-surface',
          (O + 'solves.py', 'ua[self.surface_idx - 1][0]',
           'ua[self.surface_idx][0]')),
        M('solve-shift-successors-only',
          (O + 'solves.py', 'surfaces[self.surface_idx:]',
           'surfaces[self.surface_idx+1:]')),
        M('update-order',
          (OP, '        self.pickups.apply()\n        self.solves.apply()',
           '        self.solves.apply()\n        self.pickups.apply()')),
        M('float-of-array',
          (SF, 'float(self._surface_group.positions[index-1][0])',
           'float(self._surface_group.positions[index-1])')),
        M('set-conic-writes-radius',
          (OP, 'surface.geometry.k = value', 'surface.geometry.radius = value')),
        T('rename-local-delta',
          (OP, 'delta_t = value - positions[surface_number+1] + \\\n'
               '                positions[surface_number]\n'
               '            positions[surface_number+1:] += delta_t',
           'shift = value - positions[surface_number+1] + \\\n'
           '                positions[surface_number]\n'
           '            positions[surface_number+1:] += shift')),
        T('pickup-commuted',
          (O + 'pickup.py', 'new_value = self.scale * old_value + self.offset',
           'new_value = self.offset + old_value * self.scale')),
        T('logging-in-set-index',
          (OP, 'surface.material_post = new_material',
           'surface.material_post = new_material\n        _ = None')),
    ],
    'C02': [
        M('refract-sign',
          (RR, 'tx = u * self.L0 + nx * root - u * nx * dot',
           'tx = u * self.L0 + nx * root + u * nx * dot')),
        M('refract-wrong-normal-component',
          (RR, 'ty = u * self.M0 + ny * root - u * ny * dot',
           'ty = u * self.M0 + nx * root - u * ny * dot')),
        M('refract-inverse-ratio', (RR, 'u = n1 / n2', 'u = n2 / n1')),
        M('reflect-factor',
          (RR, 'self.M -= 2 * dot * ny', 'self.M -= dot * ny')),
        M('align-no-abs', (RR, 'dot = np.abs(dot)', 'dot = dot')),
        M('conic-b-sign',
          (ST, '- 2 * rays.N * self.radius', '+ 2 * rays.N * self.radius')),
        M('conic-c-missing-k',
          (ST, 'c = (self.k * rays.z**2 - 2 * self.radius * rays.z',
           'c = (- 2 * self.radius * rays.z')),
        M('normal-not-normalised',
          (ST, 'nx = dfdx / mag', 'nx = dfdx')),
        M('asphere-normal-factor',
          (EA, 'dfdx += 2 * (i+1) * x * Ci * r2**i',
           'dfdx += (i+1) * x * Ci * r2**i')),
        M('newton-step-sign',
          (NR, 'intersections -= distance[:, None] * ray_directions',
           'intersections += distance[:, None] * ray_directions')),
        M('rotate-y-sign',
          (RR, 'z = -self.x * np.sin(ry) + self.z * np.cos(ry)',
           'z = self.x * np.sin(ry) + self.z * np.cos(ry)')),
        M('globalize-order',
          (CS, '        if self.rz:\n            rays.rotate_z(self.rz)\n'
               '        if self.ry:\n            rays.rotate_y(self.ry)',
           '        if self.ry:\n            rays.rotate_y(self.ry)\n'
           '        if self.rz:\n            rays.rotate_z(self.rz)')),
        M('opd-post-medium',
          (SS, 'rays.opd += np.abs(t * self.material_pre.n(rays.w))',
           'rays.opd += np.abs(t * self.material_post.n(rays.w))')),
        M('record-before-globalize',
          (SS, '        # inverse transform coordinate system\n'
               '        self.geometry.globalize(rays)\n\n'
               '        # record ray information\n        self._record(rays)',
           '        # record ray information\n        self._record(rays)\n\n'
           '        # inverse transform coordinate system\n'
           '        self.geometry.globalize(rays)')),
        M('plane-mask-removed', (O + 'geometries/plane.py',
                                 't[t < 0] = np.nan', 'pass')),
        M('refract-swapped-indices',
          (SS, 'rays.refract(nx, ny, nz, n1, n2)',
           'rays.refract(nx, ny, nz, n2, n1)')),
        M('nan-masked',
          (RR, 'root = np.sqrt(1 - u**2 * (1 - dot**2))',
           'root = np.sqrt(np.maximum(1 - u**2 * (1 - dot**2), 0))')),
        T('refract-regrouped',
          (RR, 'tx = u * self.L0 + nx * root - u * nx * dot',
           'tx = nx * (root - u * dot) + self.L0 * u')),
        T('distance-temporary',
          (ST, 'd = b ** 2 - 4 * a * c', 'four_ac = 4 * a * c\n        '
           'd = b * b - four_ac')),
        T('rotate-x-commuted',
          (RR, 'y = self.y * np.cos(rx) - self.z * np.sin(rx)',
           'y = -np.sin(rx) * self.z + np.cos(rx) * self.y')),
        T('normal-reciprocal',
          (ST, 'nz = dfdz / mag', 'nz = -1 / mag')),
    ],
    'C03': [
        M('aim-wrong-pupil-axis',
          (RG, 'x1 = Px * EPD * vx / 2', 'x1 = Py * EPD * vx / 2')),
        M('aim-full-diameter',
          (RG, 'y1 = Py * EPD * vy / 2', 'y1 = Py * EPD * vy')),
        M('aim-plane-not-epl',
          (RG, 'z1 = np.full_like(Px, EPL)', 'z1 = np.full_like(Px, EPD)')),
        M('direction-not-normalised',
          (RG, 'N = (z1 - z0) / mag', 'N = (z1 - z0)')),
        M('origin-field-swapped',
          (RG, 'y = -np.tan(np.radians(field_y)) * (offset + EPL)',
           'y = -np.tan(np.radians(field_x)) * (offset + EPL)')),
        M('infinite-height-not-rejected',
          (RG, "            if self.optic.field_type == 'object_height':\n"
               "                raise ValueError('Field type cannot be "
               "\"object_height\" for an '\n"
               "                                 'object at infinity.')\n"
               "            if self.optic.obj_space_telecentric:",
           "            if self.optic.obj_space_telecentric:")),
        M('telecentric-epd-accepted',
          (RG, "            if self.optic.aperture.ap_type == 'EPD':\n"
               "                raise ValueError('Aperture type cannot be "
               "\"EPD\" for '\n"
               "                                 'telecentric object space.')\n"
               "            elif", "            if")),
        M('intensity-not-one',
          (RG, 'intensity = np.ones_like(x1)', 'intensity = np.zeros_like(x1)')),
        M('vignetting-enlarges',
          (RG, 'vx, vy = 1 - np.array(self.optic.fields.get_vig_factor(Hx, Hy))',
           'vx, vy = 1 + np.array(self.optic.fields.get_vig_factor(Hx, Hy))')),
        M('vignetting-applied-twice',
          (OP, '        Px = distribution.x\n', '        Px = distribution.x * (1 - vx)\n')),
        M('ring-radius-two',
          (O + 'distribution.py', 'x = np.cos(theta)\n        y = np.sin(theta)',
           'x = 2 * np.cos(theta)\n        y = 2 * np.sin(theta)')),
        M('uniform-mask-removed',
          (O + 'distribution.py', 'self.x = x[r2 <= 1] * (1 - vx)',
           'self.x = x.ravel() * (1 - vx)')),
        M('registry-swapped',
          (O + 'distribution.py', "'line_x': LineXDistribution,",
           "'line_x': LineYDistribution,")),
        T('aim-regrouped',
          (RG, 'x1 = Px * EPD * vx / 2', 'x1 = 0.5 * vx * EPD * Px')),
        T('mag-temporary',
          (RG, 'mag = np.sqrt((x1 - x0)**2 + (y1 - y0)**2 + (z1 - z0)**2)',
           'dx_ = x1 - x0\n        mag = np.sqrt(dx_**2 + (y1 - y0)**2 + '
           '(z1 - z0)**2)')),
    ],
    'C04': [
        M('refraction-power-sign',
          (SS, 'rays.u = 1 / n2 * (n1 * rays.u - rays.y * power)',
           'rays.u = 1 / n2 * (n1 * rays.u + rays.y * power)')),
        M('refraction-divide-n1',
          (SS, 'rays.u = 1 / n2 * (n1 * rays.u - rays.y * power)',
           'rays.u = 1 / n1 * (n1 * rays.u - rays.y * power)')),
        M('reflection-factor',
          (SS, 'rays.u = -rays.u - 2 * rays.y / radius',
           'rays.u = -rays.u - rays.y / radius')),
        M('propagate-z-only',
          (O + 'rays/paraxial_rays.py', 'self.y += t * self.u',
           'self.y += self.u')),
        M('F2-sign', (PX, 'F2 = -y[-1] / u[-2]', 'F2 = y[-1] / u[-2]')),
        M('F2-slope-after-image', (PX, 'F2 = -y[-1] / u[-2]', 'F2 = -y[-1] / u[-1]')),
        M('EPL-forward-trace',
          (PX, "        y, u = self._trace_generic(y0, u0, z0, wavelength, "
               "reverse=True,\n                                   "
               "skip=stop_index+1)\n\n        loc_relative = y[-1] / u[-1]",
           "        y, u = self._trace_generic(y0, u0, z0, wavelength, "
           "reverse=False,\n                                   "
           "skip=stop_index+1)\n\n        loc_relative = y[-1] / u[-1]")),
        M('XPD-single', (PX, 'return 2 * np.abs(yxp[0])',
                         'return np.abs(yxp[0])')),
        M('XPD-signed', (PX, 'return 2 * np.abs(yxp[0])',
                         'return 2 * yxp[0]')),
        T('XPD-abs-outside', (PX, 'return 2 * np.abs(yxp[0])',
                              'return np.abs(2 * yxp[0])')),
        M('FNO-inverse', (PX, 'return self.f2() / self.EPD()',
                          'return self.EPD() / self.f2()')),
        M('invariant-mixed-surface',
          (PX, 'inv = yb[1] * n[1] * ua[1] - ya[1] * n[1] * ub[1]',
           'inv = yb[1] * n[1] * ua[1] - ya[1] * n[0] * ub[1]')),
        M('magnification-swapped',
          (PX, 'mag = n[0]*ua[0]/(n[-1]*ua[-1])', 'mag = n[-1]*ua[-1]/(n[0]*ua[0])')),
        M('inverted-no-radius-flip',
          (SG, 'surf.geometry.radius *= -1', 'surf.geometry.radius *= 1')),
        M('inverted-no-media-swap',
          (SG, 'surf.material_post = temp', 'surf.material_post = surf.material_post')),
        M('marginal-finite-wrong-distance',
          (PX, 'ua = EPD / (2 * z)', 'ua = EPD / z')),
        M('P2-plus', (PX, 'return self.F2() - self.f2()',
                      'return self.F2() + self.f2()')),
        T('refraction-regrouped',
          (SS, 'rays.u = 1 / n2 * (n1 * rays.u - rays.y * power)',
           'rays.u = (n1 * rays.u - power * rays.y) / n2')),
        T('F2-temp',
          (PX, 'F2 = -y[-1] / u[-2]', 'num = -y[-1]\n        F2 = num / u[-2]')),
    ],
    'C07': [
        M('propagate-squared',
          (RR, 'self.x += t * self.L', 'self.x += t * t * self.L')),
        M('scale-radius-not-scaled',
          (OP, 'self.set_radius(radii[surf_idx] * scale_factor, surf_idx)',
           'self.set_radius(radii[surf_idx], surf_idx)')),
        M('scale-aperture-rmin',
          (O + 'physical_apertures.py', 'self.r_min *= scale_factor',
           'self.r_min += scale_factor')),
        M('scale-epd-divided',
          (OP, 'self.aperture.value *= scale_factor',
           'self.aperture.value /= scale_factor')),
        M('mirror-rotate-z',
          (RR, 'x = self.x * np.cos(rz) - self.y * np.sin(rz)',
           'x = self.x * np.cos(rz) - self.y * np.cos(rz)')),
        M('mirror-launch',
          (RG, 'L = (x1 - x0) / mag', 'L = (y1 - y0) / mag')),
        M('conic-distance-not-homogeneous',
          (ST, '+ rays.x**2 + rays.y**2 + rays.z**2)',
           '+ rays.x**2 + rays.y**2 + rays.z)')),
        M('wavelength-in-direction',
          (RR, 'self.z += t * self.N', 'self.z += t * self.N * self.w / self.w')),
        M('clip-mixed-grade',
          (O + 'physical_apertures.py', 'radius2 = rays.x**2 + rays.y**2',
           'radius2 = rays.x + rays.y**2')),
        T('scale-commuted',
          (OP, 'self.set_radius(radii[surf_idx] * scale_factor, surf_idx)',
           'self.set_radius(scale_factor * radii[surf_idx], surf_idx)')),
    ],
    'C08': [
        M('TSC-uses-ip', (AB, 'return self._B[k-1] * self._i[k-1]**2 * self._hp',
                          'return self._B[k-1] * self._ip[k-1]**2 * self._hp')),
        M('CC-missing-ip',
          (AB, 'return self._B[k-1] * self._i[k-1] * self._ip[k-1] * self._hp',
           'return self._B[k-1] * self._i[k-1] * self._i[k-1] * self._hp')),
        M('TPC-sign',
          (AB, 'return ((self._n[k] - self._n[k-1]) * self._C[k] * self._hp *',
           'return ((self._n[k-1] - self._n[k]) * self._C[k] * self._hp *')),
        M('DC-half', (AB, '0.5*(self._ub[k]**2 - self._ub[k-1]**2)',
                      '(self._ub[k]**2 - self._ub[k-1]**2)')),
        M('precalc-i-offset',
          (AB, 'self._i[k-1] = (self._C[k] * self._ya[k] + self._ua[k-1])[0]',
           'self._i[k-1] = (self._C[k] * self._ya[k-1] + self._ua[k-1])[0]')),
        M('precalc-B-chief',
          (AB, 'self._ya[k] *\n                                '
               '(self._ua[k] + self._i[k-1]) /',
           'self._yb[k] *\n                                '
           '(self._ua[k] + self._i[k-1]) /')),
        M('TCC-factor', (AB, 'return self.CC() * 3', 'return self.CC() * 2')),
        M('SC-no-precalc',
          (AB, '        self._precalculations()\n\n        TSC = []\n        SC = []',
           '        TSC = []\n        SC = []')),
        M('sum-factor',
          (AB, '-sum(CC) * self._n[-1] * self._ua[-1]*2',
           '-sum(CC) * self._n[-1] * self._ua[-1]')),
        M('operand-wrong-accessor',
          (O + 'optimization/operand/aberration.py',
           'return optic.aberrations.AC()[surface_number - 1]',
           'return optic.aberrations.TAC()[surface_number - 1]')),
        M('operand-index-shift',
          (O + 'optimization/operand/aberration.py',
           'return optic.aberrations.DC()[surface_number - 1]',
           'return optic.aberrations.DC()[surface_number]')),
        M('hp-wrong-index',
          (AB, 'self._hp = self._inv / (self._n[-1] * self._ua[-1])',
           'self._hp = self._inv / (self._n[-1] * self._ua[-2])')),
        T('TSC-commuted',
          (AB, 'return self._B[k-1] * self._i[k-1]**2 * self._hp',
           'return self._hp * self._i[k-1] * self._B[k-1] * self._i[k-1]')),
        T('rename-private',
          (AB, 'def _TAC_term(self, k):', 'def _TAC_term(self, k):\n        '
           'x_ = 0  # noqa')),
    ],
    'C09': [
        M('opd-sign', (WF, 'return (opd_ref - opd) / (wavelength * 1e-3), intensity',
                       'return (opd - opd_ref) / (wavelength * 1e-3), intensity')),
        M('opd-wavelength-unit',
          (WF, '(wavelength * 1e-3), intensity', '(wavelength * 1e3), intensity')),
        M('sphere-b-sign',
          (WF, 'b = 2*L*(xr - xc) + 2*M*(yr - yc) + 2*N*(zr - zc)',
           'b = 2*L*(xr + xc) + 2*M*(yr - yc) + 2*N*(zr - zc)')),
        M('sphere-direction-not-reversed',
          (WF, 'L = -self.optic.surface_group.L[-2, :]',
           'L = self.optic.surface_group.L[-2, :]')),
        M('sphere-direction-after-image',
          (WF, 'L = -self.optic.surface_group.L[-2, :]',
           'L = -self.optic.surface_group.L[-1, :]')),
        M('sphere-leg-geometric',
          (WF, 'return n_image * t', 'return t')),
        M('radius-missing-z',
          (WF, 'R = np.sqrt(xc**2 + yc**2 + (zc - pupil_z)**2)',
           'R = np.sqrt(xc**2 + yc**2 + pupil_z**2)')),
        M('pupil-z-relative',
          (WF, 'pupil_z = (self.optic.paraxial.XPL() +\n                   '
               'self.optic.surface_group.positions[-1])',
           'pupil_z = self.optic.paraxial.XPL()')),
        M('path-plus', (WF, 'return opd - self._opd_image_to_xp(xc, yc, zc, r)',
                        'return opd + self._opd_image_to_xp(xc, yc, zc, r)')),
        M('chief-not-centre',
          (WF, 'self.optic.trace_generic(*field, Px=0.0, Py=0.0,',
           'self.optic.trace_generic(*field, Px=0.0, Py=1.0,')),
        M('rms-mean-abs',
          (WF, 'return np.sqrt(np.mean(self.data[0][0][0]**2))',
           'return np.mean(np.abs(self.data[0][0][0]))')),
        T('opd-regrouped',
          (WF, 'return (opd_ref - opd) / (wavelength * 1e-3), intensity',
           'return (opd_ref - opd) / wavelength / 1e-3, intensity')),
    ],
    'C10': [
        M('radial-sign', (ZK, 'value += (-1)**k * math.factorial(n - k) /',
                          'value += math.factorial(n - k) /')),
        M('radial-power', (ZK, 'r ** (n - 2*k)', 'r ** (n - k)')),
        M('norm-standard', (ZK, 'return np.sqrt((2 * n + 2) / (1 + (m == 0)))',
                            'return np.sqrt((2 * n + 1) / (1 + (m == 0)))')),
        M('noll-norm', (ZK, 'return np.sqrt(n + 1)', 'return np.sqrt(n + 2)')),
        M('noll-c-table',
          (ZK, 'if m > 0 and mod <= 1:\n                        c = 0',
           'if m > 0 and mod <= 1:\n                        c = 1')),
        M('fringe-number',
          (ZK, '2 * np.abs(m) + (1 - np.sign(m)) / 2))',
           'np.abs(m) + (1 - np.sign(m)) / 2))')),
        M('family-swapped',
          (ZK, "elif self.type == 'standard':\n            self.zernike = "
               "ZernikeStandard()",
           "elif self.type == 'standard':\n            self.zernike = "
           "ZernikeNoll()")),
        M('fit-not-stored', (ZK, '        self.zernike.coeffs = coeffs\n',
                             '        pass\n')),
        M('fit-rcond', (ZK, 'np.linalg.lstsq(A[valid], z[valid], rcond=None)',
                        'np.linalg.lstsq(A[valid], z[valid], rcond=1e-3)')),
        M('fit-wrong-rhs', (ZK, '        z = np.ravel(self.z)\n',
                            '        z = np.ravel(self.radius)\n')),
        M('fit-nan-rows-kept',
          (ZK, 'np.linalg.lstsq(A[valid], z[valid], rcond=None)',
           'np.linalg.lstsq(A, z, rcond=None)')),
        M('fit-inputs-as-given',
          (ZK, 'self.x = np.asarray(x, dtype=float)', 'self.x = x')),
        M('fit-terms-swapped',
          (ZK, 'self.zernike.terms(np.ravel(self.radius), np.ravel(self.phi))',
           'self.zernike.terms(np.ravel(self.phi), np.ravel(self.radius))')),
        M('fit-no-unit-coeffs',
          (ZK, '        self.zernike.coeffs = np.ones(self.num_terms)\n', '')),
        M('fit-one-term-short',
          (ZK, 'self.zernike.coeffs = np.ones(self.num_terms)',
           'self.zernike.coeffs = np.ones(self.num_terms - 1)')),
        M('fit-back-to-iterative',
          (ZK, '        coeffs, _, _, _ = np.linalg.lstsq(A[valid], z[valid], '
               'rcond=None)\n',
           '        from scipy.optimize import least_squares\n'
           '        coeffs = least_squares(self._objective, '
           'np.zeros(self.num_terms)).x\n')),
        T('fit-T-index-form',
          (ZK, '        coeffs, _, _, _ = np.linalg.lstsq(A[valid], z[valid], '
               'rcond=None)\n',
           '        coeffs = np.linalg.lstsq(A[valid], z[valid], '
           'rcond=None)[0]\n')),
        M('term-coefficient-squared',
          (ZK, 'return (coeff *\n                self._norm_constant(n, m) *',
           'return (coeff * coeff *\n                self._norm_constant(n, m) *')),
        T('term-commuted',
          (ZK, 'return (coeff *\n                self._norm_constant(n, m) *',
           'return (self._norm_constant(n, m) *\n                coeff *')),
    ],
    'C11': [
        M('mtf-axis-per-um',
          (MTF, 'dx = Q / (self.wavelength * 1e-3 * self.FNO * self.grid_size)',
           'dx = Q / (self.wavelength * self.FNO * self.grid_size)')),
        M('mtf-axis-no-grid',
          (MTF, 'dx = Q / (self.wavelength * 1e-3 * self.FNO * self.grid_size)',
           'dx = Q / (self.wavelength * 1e-3 * self.FNO)')),
        M('cutoff-um', (MTF, 'self.max_freq = 1 / (self.wavelength * 1e-3 * self.FNO)',
                        'self.max_freq = 1 / (self.wavelength * self.FNO)')),
        M('fno-correction-dropped',
          (MTF, 'FNO *= (1 + np.abs(m) / p)', 'FNO *= (1 + np.abs(m))')),
        M('maxfreq-unset',
          (MTF, '        else:\n            self.max_freq = max_freq\n', '')),
        M('strehl-off-centre',
          (PSF, 'return self.psf[self.grid_size//2, self.grid_size//2] / 100',
           'return self.psf[0, 0] / 100')),
        M('pupil-phase-no-2pi',
          (PSF, 'np.exp(1j * 2 * np.pi * phase)',
           'np.exp(1j * np.pi * phase)')),
        M('mtf-slice-from-zero',
          (MTF, 'tangential = data[self.grid_size//2:, self.grid_size//2]',
           'tangential = data[:self.grid_size//2, self.grid_size//2]')),
        M('geometric-axes-swapped',
          (MTF, 'mtf.append([self._compute_field_data(yi, self.freq, scale_factor),',
           'mtf.append([self._compute_field_data(xi, self.freq, scale_factor),')),
        T('mtf-axis-regrouped',
          (MTF, 'dx = Q / (self.wavelength * 1e-3 * self.FNO * self.grid_size)',
           'dx = Q / self.grid_size / (self.FNO * 1e-3 * self.wavelength)')),
    ],
    'C12': [
        M('operand-wrong-record',
          (O + 'optimization/operand/ray.py',
           'return optic.surface_group.y[surface_number, 0]',
           'return optic.surface_group.x[surface_number, 0]')),
        M('operand-args-swapped',
          (O + 'optimization/operand/ray.py',
           "    def M(optic, surface_number, Hx, Hy, Px, Py, wavelength):\n"
           "        \"\"\"\n", "    def M(optic, surface_number, Hx, Hy, Px, Py, "
           "wavelength):\n        Px, Py = Py, Px\n        \"\"\"\n")),
        M('parabasal-sign',
          (AN + 'field_curvature.py',
           't1 = (M2*z01 - M2*z02 - N2*y01 + N2*y02) / (M1*N2 - M2*N1)',
           't1 = (M2*z01 - M2*z02 + N2*y01 + N2*y02) / (M1*N2 - M2*N1)')),
        M('sagittal-mixed-slices',
          (AN + 'field_curvature.py',
           'L2 = self.optic.surface_group.L[-1, 1::2]',
           'L2 = self.optic.surface_group.L[-1, ::2]')),
        M('distortion-denominator',
          (AN + 'distortion.py', 'data.append(100 * (yr - yp) / yp)',
           'data.append(100 * (yr - yp) / yr)')),
        M('center-spots-x-with-y',
          (AN + 'spot_diagram.py', 'wave_data[1] -= centroids[i][1]',
           'wave_data[1] -= centroids[i][0]')),
        M('rms-radius-no-sqrt',
          (AN + 'spot_diagram.py',
           'rms_field.append(np.sqrt(np.mean(r2[wave_data[2] > 0])))',
           'rms_field.append(np.mean(r2[wave_data[2] > 0]))')),
        M('rayfan-wrong-axis',
          (AN + 'ray_fan.py',
           "data[f'{field}'][f'{wavelength}']['y'] = \\\n                    "
           "self.optic.surface_group.y[-1, :]",
           "data[f'{field}'][f'{wavelength}']['y'] = \\\n                    "
           "self.optic.surface_group.x[-1, :]")),
        M('spot-read-before-trace',
          (AN + 'spot_diagram.py',
           '        self.optic.trace(*field, wavelength, num_rays, distribution)\n'
           '        x = self.optic.surface_group.x[-1, :]',
           '        x = self.optic.surface_group.x[-1, :]\n'
           '        self.optic.trace(*field, wavelength, num_rays, distribution)')),
        T('parabasal-commuted',
          (AN + 'field_curvature.py',
           't1 = (M2*z01 - M2*z02 - N2*y01 + N2*y02) / (M1*N2 - M2*N1)',
           't1 = (M2*(z01 - z02) + N2*(y02 - y01)) / (M1*N2 - N1*M2)')),
    ],
    'C13': [
        M('analysis-writes-prescription',
          (AN + 'distortion.py', '        Hx = np.zeros(self.num_points)',
           '        self.optic.surface_group.surfaces[1].geometry.radius = 1.0\n'
           '        Hx = np.zeros(self.num_points)')),
        M('inverted-no-deepcopy',
          (SG, 'surfs_inverted = deepcopy(self.surfaces[::-1])',
           'surfs_inverted = self.surfaces[::-1]')),
        M('trace-generic-inplace',
          (OP, 'Px = Px * np.ones_like(vx, dtype=float)',
           'Px *= np.ones_like(vx, dtype=float)')),
        M('process-input-no-copy',
          (O + 'rays/base.py', 'return np.ravel(data).astype(float)',
           'return np.ravel(data)')),
        M('trace-no-reset',
          (SG, '        self.reset()\n        for surface in self.surfaces[skip:]:',
           '        for surface in self.surfaces[skip:]:')),
        M('record-aliases',
          (SS, 'self.y = np.copy(np.atleast_1d(rays.y))\n            '
               'self.u = np.copy(np.atleast_1d(rays.u))',
           'self.y = np.atleast_1d(rays.y)\n            '
           'self.u = np.copy(np.atleast_1d(rays.u))')),
        M('rng-in-trace',
          (RG, 'intensity = np.ones_like(x1)',
           'intensity = np.ones_like(x1) + 0 * np.random.rand()')),
        M('paraxial-sets-stop',
          (PX, '        stop_index = self.surfaces.stop_index\n'
               '        if stop_index == 0:',
           '        stop_index = self.surfaces.stop_index\n'
           '        self.surfaces.surfaces[1].is_stop = self.surfaces.surfaces[1].is_stop\n'
           '        if stop_index == 0:')),
        T('trace-generic-temp',
          (OP, 'Px = Px * np.ones_like(vx, dtype=float)',
           'unit_x = np.ones_like(vx, dtype=float)\n        Px = Px * unit_x')),
        T('inverted-rename',
          (SG, 'temp = surf.material_pre\n            surf.material_pre = '
               'surf.material_post\n            surf.material_post = temp',
           'swap_ = surf.material_pre\n            surf.material_pre = '
           'surf.material_post\n            surf.material_post = swap_')),
    ],
    'C14': [
        M('result-not-applied',
          (OPT, '        for idvar, var in enumerate(self.problem.variables):\n'
                '            var.update(result.x[idvar])\n'
                '        self.problem.update_optics()\n\n        return result\n\n'
                '    def _keep_start_if_better',
           '        return result\n\n    def _keep_start_if_better')),
        M('start-not-compared',
          (OPT, "                                       options=options,\n"
                "                                       tol=tol)\n\n"
                "        # scipy does not guarantee a descent: never hand back a "
                "lens that is\n        # worse than the one the run started "
                "from\n        self._keep_start_if_better(result, x0)\n",
           "                                       options=options,\n"
           "                                       tol=tol)\n")),
        M('start-compare-inverted',
          (OPT, '        if not self._fun(result.x) <= f0:',
           '        if self._fun(result.x) <= f0:')),
        M('undo-no-update-optics',
          (OPT, '            self._x.pop(-1)\n            self.problem.update_optics()',
           '            self._x.pop(-1)')),
        M('fun-unweighted',
          (O + 'optimization/operand/operand.py', 'return self.weight * self.delta()',
           'return self.delta()')),
        M('sum-squared-no-square',
          (OPT, "return np.array([op.fun() for op in self.operands])**2",
           "return np.array([op.fun() for op in self.operands])")),
        M('radius-inverse-mismatch',
          (VAR + 'radius.py', 'return (scaled_value + 1.0) * 100.0',
           'return (scaled_value + 1.0) * 10.0')),
        M('index-scale-mismatch',
          (VAR + 'index.py', 'return scaled_value + 1.5', 'return scaled_value + 1.0')),
        M('thickness-unguarded-inverse',
          (VAR + 'thickness.py', '        if self.apply_scaling:\n            '
           'new_value = self.inverse_scale(new_value)\n        '
           'self.optic.set_thickness',
           '        new_value = self.inverse_scale(new_value)\n        '
           'self.optic.set_thickness')),
        M('bounds-unconditional',
          (VAR + 'variable.py', '        if self.apply_scaling:\n            # bounds',
           '        if True:\n            # bounds')),
        M('dispatch-swapped',
          (VAR + 'variable.py', "'radius': RadiusVariable,", "'radius': ConicVariable,")),
        M('tilt-axis-swapped',
          (VAR + 'tilt.py', "        if self.axis == 'x':\n            "
           "surf.geometry.cs.rx = new_value",
           "        if self.axis == 'x':\n            surf.geometry.cs.ry = new_value")),
        M('history-not-pushed',
          (OPT, "        x0 = [var.value for var in self.problem.variables]\n"
                "        self._x.append(x0)\n\n        options",
           "        x0 = [var.value for var in self.problem.variables]\n"
           "\n        options")),
        T('fun-commuted',
          (O + 'optimization/operand/operand.py', 'return self.weight * self.delta()',
           'return self.delta() * self.weight')),
        T('radius-inverse-regrouped',
          (VAR + 'radius.py', 'return (scaled_value + 1.0) * 100.0',
           'return scaled_value * 100.0 + 100.0')),
    ],
    'C15': [
        M('mc-no-final-reset',
          (TOL + 'monte_carlo.py', '        # reset the system to its nominal '
           'state\n        self.tolerancing.reset()\n', '')),
        M('sa-no-final-reset',
          (TOL + 'sensitivity_analysis.py', '        self._results = '
           'pd.DataFrame(results)\n        self.tolerancing.reset()',
           '        self._results = pd.DataFrame(results)')),
        M('mc-reset-after-apply',
          (TOL + 'monte_carlo.py', '            # reset the tolerancing system\n'
           '            self.tolerancing.reset()\n', '')),
        M('reset-skips-compensators',
          (TOL + 'core.py', '        for compensator in self.compensator.variables:\n'
           '            compensator.reset()', '        pass')),
        M('two-samples',
          (TOL + 'perturbation.py', 'self.variable.update(self.value)',
           'self.variable.update(self.sampler.sample())')),
        M('target-not-defaulted',
          (TOL + 'core.py', '        if target is None:\n            '
           'new_operand.target = new_operand.value\n', '')),
        M('variable-reset-wrong-value',
          (VAR + 'variable.py', 'self.update(self.initial_value)',
           'self.update(self.value)')),
        T('mc-extra-local',
          (TOL + 'monte_carlo.py', '            # reset the tolerancing system\n'
           '            self.tolerancing.reset()\n',
           '            tol_ = self.tolerancing\n            tol_.reset()\n')),
    ],
    'C16': [
        M('clip-sets-one', (RR, 'self.i[condition] = 0.0', 'self.i[condition] = 1.0')),
        M('absorption-sign',
          (RR, 'self.i *= np.exp(-alpha * t * 1e3)', 'self.i *= np.exp(alpha * t * 1e3)')),
        M('absorption-unit',
          (RR, 'self.i *= np.exp(-alpha * t * 1e3)', 'self.i *= np.exp(-alpha * t)')),
        M('absorption-assign',
          (RR, 'self.i *= np.exp(-alpha * t * 1e3)', 'self.i = np.exp(-alpha * t * 1e3)')),
        M('coating-swapped',
          (CT, '        rays.i *= self.reflectance\n', '        rays.i *= self.transmittance\n')),
        M('aperture-condition-and',
          (O + 'physical_apertures.py',
           'condition = (radius2 > self.r_max**2) | (radius2 < self.r_min**2)',
           'condition = (radius2 > self.r_max**2) & (radius2 < self.r_min**2)')),
        M('aperture-not-squared',
          (O + 'physical_apertures.py', '(radius2 > self.r_max**2)',
           '(radius2 > self.r_max)')),
        M('clip-after-globalize',
          (SS, '        # if there is a limiting aperture, clip rays outside of it\n'
               '        if self.aperture:\n            self.aperture.clip(rays)\n\n'
               '        # interact with surface\n        rays = self._interact(rays)\n\n'
               '        # inverse transform coordinate system\n'
               '        self.geometry.globalize(rays)',
           '        # interact with surface\n        rays = self._interact(rays)\n\n'
           '        # inverse transform coordinate system\n'
           '        self.geometry.globalize(rays)\n\n'
           '        if self.aperture:\n            self.aperture.clip(rays)')),
        M('new-writer',
          (SS, '        nx, ny, nz = self.geometry.surface_normal(rays)\n',
           '        nx, ny, nz = self.geometry.surface_normal(rays)\n'
           '        rays.i = rays.i + 0.0\n')),
        M('lost-write',
          (OP, 'self.image_surface.intensity = np.copy(np.atleast_1d(rays.i))\n\n'
               '        return rays\n\n    def trace_generic',
           'self.surface_group.intensity[-1, :] = rays.i\n\n'
           '        return rays\n\n    def trace_generic')),
        M('propagate-post-medium',
          (SS, 'rays.propagate(t, self.material_pre)',
           'rays.propagate(t, self.material_post)')),
        T('absorption-regrouped',
          (RR, 'self.i *= np.exp(-alpha * t * 1e3)',
           'self.i *= np.exp(-1e3 * t * alpha)')),
    ],
    'C17': [
        M('fresnel-s-sign',
          (JN, 's = (cos_theta_i - root) / (cos_theta_i + root)',
           's = (cos_theta_i + root) / (cos_theta_i - root)')),
        M('fresnel-tp-missing-n',
          (JN, 'p = 2 * n * cos_theta_i / (n**2 * cos_theta_i + root)',
           'p = 2 * cos_theta_i / (n**2 * cos_theta_i + root)')),
        M('fresnel-radicand',
          (JN, 'radicand = (n**2 - np.sin(aoi)**2).astype(complex)',
           'radicand = (n**2 + np.sin(aoi)**2).astype(complex)')),
        M('fresnel-index-ratio', (JN, 'n = n2 / n1', 'n = n1 / n2')),
        M('retarder-offdiag',
          (JN, 'j0x = -1j * np.sin(d / 2) * np.sin(2 * t)',
           'j0x = -1j * np.sin(d / 2) * np.sin(t)')),
        M('retarder-j11',
          (JN, 'j11 = (np.exp(1j * d / 2) * np.cos(t)**2 +',
           'j11 = (np.exp(-1j * d / 2) * np.cos(t)**2 +')),
        M('polarizer-l45-sign',
          (JN, '        jones_matrix[:, 0, 0] = 0.5\n        jones_matrix[:, 0, 1] = 0.5\n'
               '        jones_matrix[:, 1, 0] = 0.5',
           '        jones_matrix[:, 0, 0] = 0.5\n        jones_matrix[:, 0, 1] = -0.5\n'
           '        jones_matrix[:, 1, 0] = 0.5')),
        M('polarizer-h-not-projector',
          (JN, '        jones_matrix[:, 0, 0] = 1\n        jones_matrix[:, 1, 1] = 0\n',
           '        jones_matrix[:, 0, 0] = 1\n        jones_matrix[:, 1, 1] = 0.5\n')),
        M('rcp-lcp-swapped',
          (JN, '        jones_matrix[:, 0, 1] = 1j * 0.5\n        '
               'jones_matrix[:, 1, 0] = -1j * 0.5',
           '        jones_matrix[:, 0, 1] = -1j * 0.5\n        '
           'jones_matrix[:, 1, 0] = 1j * 0.5')),
        M('aoi-post-direction',
          (CT, 'dot = np.abs(nx * rays.L0 + ny * rays.M0 + nz * rays.N0)',
           'dot = np.abs(nx * rays.L + ny * rays.M + nz * rays.N)')),
        M('quarter-wave-retardance',
          (JN, 'super().__init__(np.pi / 2, theta)', 'super().__init__(np.pi / 4, theta)')),
        T('fresnel-rs-regrouped',
          (JN, 's = (cos_theta_i - root) / (cos_theta_i + root)',
           's = -(root - cos_theta_i) / (root + cos_theta_i)')),
    ],
    'C18': [
        M('formula2-squared',
          (MF, 'n += c[k] * w**2 / (w**2 - c[k+1])\n        except IndexError:\n'
               "            raise ValueError('Invalid coefficients for dispersion "
               "formula 2.')",
           'n += c[k] * w**2 / (w**2 - c[k+1]**2)\n        except IndexError:\n'
           "            raise ValueError('Invalid coefficients for dispersion "
           "formula 2.')")),
        M('formula1-no-one',
          (MF, "            n = 1 + c[0]\n            for k in range(1, len(c), 2):\n"
               "                n += c[k] * w**2 / (w**2 - c[k+1]**2)",
           "            n = c[0]\n            for k in range(1, len(c), 2):\n"
           "                n += c[k] * w**2 / (w**2 - c[k+1]**2)")),
        M('formula5-sqrt',
          (MF, "                n += c[k]*w**c[k+1]\n            return n\n",
           "                n += c[k]*w**c[k+1]\n            return np.sqrt(n)\n")),
        M('map-swapped',
          (MF, "'formula 3': self._formula_3,", "'formula 3': self._formula_5,")),
        M('formula4-arity',
          (MF, 'for k in range(9, len(c), 2):', 'for k in range(9, len(c) + 2, 2):')),
        M('tabulated-nk-columns',
          (MF, "                    self._k_wavelength = arr[:, 0]\n"
               "                    self._k = arr[:, 2]",
           "                    self._k_wavelength = arr[:, 0]\n"
           "                    self._k = arr[:, 1]")),
        M('interp-args-swapped',
          (MF, 'return np.interp(w, self._n_wavelength, self._n)',
           'return np.interp(w, self._n, self._n_wavelength)')),
        M('lookup-regex',
          (MT, "df['name'].str.lower().str.contains(name, regex=False)",
           "df['name'].str.lower().str.contains(name)")),
        M('abbe-lines-swapped',
          (O + 'materials/base.py', 'return (nD - 1) / (nF - nC)',
           'return (nD - 1) / (nC - nF)')),
        M('formula-float-w',
          (MF, 'b = c[0] + c[1] * w**2 / (w**2 - c[2]) + c[3] * w**2',
           'b = c[0] + c[1] * float(w)**2 / (w**2 - c[2]) + c[3] * w**2')),
        M('sort-descending',
          (MT, "dfi = dfi.sort_values(by=sort_keys, kind='stable')",
           "dfi = dfi.sort_values(by=sort_keys, kind='stable', "
           "ascending=False)")),
        M('reference-rank-dropped',
          (MT, "            sort_keys.append('reference_inexact')\n", '')),
        T('formula8-regrouped',
          (MF, 'b = c[0] + c[1] * w**2 / (w**2 - c[2]) + c[3] * w**2',
           'w2 = w * w\n        b = c[3] * w2 + c[0] + w2 * c[1] / (w2 - c[2])')),
    ],
    'C19': [
        M('key-renamed-writer',
          (O + 'geometries/standard.py', "'conic': self.k", "'k': self.k")),
        M('reader-swapped-args',
          (O + 'physical_apertures.py', "return cls(data['r_max'], data['r_min'])",
           "return cls(data['r_min'], data['r_max'])")),
        M('required-key-unwritten',
          (O + 'wavelength.py', "'unit': self._unit", "'units': self._unit")),
        M('object-valued',
          (SS, "'geometry': self.geometry.to_dict(),\n            'material_pre': "
               "self.material_pre.to_dict(),",
           "'geometry': self.geometry.to_dict(),\n            'material_pre': "
           "self.material_pre,")),
        M('none-unguarded',
          (SS, "        coating = BaseCoating.from_dict(data['coating']) \\\n"
               "            if data['coating'] else None",
           "        coating = BaseCoating.from_dict(data['coating'])")),
        M('optic-attr-not-restored',
          (OP, "        optic.field_type = data['fields']['field_type']\n", '')),
        M('thickness-stores-array',
          (OP, 'surface.geometry.cs.z = float(positions[k][0])',
           'surface.geometry.cs.z = positions[k]')),
        M('pickup-key-renamed',
          (O + 'pickup.py', "'attr_type': self.attr_type,", "'attribute': self.attr_type,")),
        M('literal-type-tag',
          (O + 'scatter.py', "'type': 'GaussianBSDF',", "'type': 'LambertianBSDF',")),
        M('arity-new-required-param',
          (O + 'geometries/even_asphere.py',
           "return cls(cs, data['radius'],\n                   conic, tol, max_iter, "
           "coefficients)",
           "return cls(cs, data['radius'],\n                   conic, tol, max_iter, "
           "coefficients, 1, 2)")),
        T('writer-local-dict',
          (O + 'physical_apertures.py',
           "        aperture_dict = super().to_dict()\n        "
           "aperture_dict['r_max'] = self.r_max",
           "        aperture_dict = super().to_dict()\n        "
           "aperture_dict['r_max'] = self.r_max  # noqa")),
    ],
    'C20': [
        M('parm-offset', (ZH, "key = f'param_{int(data[1])-1}'",
                          "key = f'param_{int(data[1])}'")),
        M('radius-not-reciprocal',
          (ZH, "self._current_surf_data['radius'] = 1 / float(data[1])",
           "self._current_surf_data['radius'] = float(data[1])")),
        M('primary-index-1based',
          (ZH, "self.data['wavelengths']['primary_index'] = int(data[1]) - 1",
           "self.data['wavelengths']['primary_index'] = int(data[1])")),
        M('mode-swallowed',
          (ZH, 'except (IndexError, KeyError):', 'except Exception:')),
        M('nonseq-not-rejected',
          (ZH, "        if data[1] != 'SEQ':\n            raise ValueError('Only "
               "sequential mode is supported.')", '        pass')),
        M('converter-conic-as-radius',
          (CV, "conic=data['conic'],", "conic=data['radius'],")),
        M('converter-primary-flag',
          (CV, 'is_primary=(idx == primary_idx)', 'is_primary=(idx != primary_idx)')),
        M('utf8-only', (ZH, "encodings = ['utf-16', 'utf-8']", "encodings = ['utf-8']")),
        M('evenasph-unknown',
          (ZH, "'EVENASPH': 'even_asphere'", "'EVENASPH': 'evenasphere'")),
        M('glass-index-token',
          (ZH, "self._current_surf_data['index'] = float(data[4])",
           "self._current_surf_data['index'] = float(data[3])")),
        M('no-image-surface',
          (ZH, "        if self._current_surf >= 0:\n            self.data['surfaces']"
               "[self._current_surf] = self._current_surf_data\n\n        # the field",
           '        # the field')),
        M('fields-resorted',
          (ZH, "        self.data['fields']['y'] = tuple(self.data['fields']['y']"
               "[:num])\n",
           "        self.data['fields']['y'] = tuple(sorted(self.data['fields']"
           "['y'][:num]))\n")),
        M('glass-nearest-name-again',
          (ZH, "            self._current_surf_data['material'] = \\\n"
               "                self._exact_material(material)\n",
           "            self._current_surf_data['material'] = "
           "Material(material)\n")),
        M('glass-exactness-test-dropped',
          (ZH, "        if name.lower() not in names:\n"
               "            raise ValueError(f'No exact match for material "
               "{name}')\n", '')),
        M('thickness-token',
          (ZH, "self._current_surf_data['thickness'] = float(data[1])",
           "self._current_surf_data['thickness'] = float(data[2])")),
    ],
}


# Red-team round (hand-made after the seeded batches): mutants the checks
# must catch, and behaviour-preserving rewrites (twins) they must ignore.
_RT = {'C01': [('mutant',
          'rt-last-thickness-before-create',
          [('optiland/surfaces/surface_group.py',
            '        if new_surface is None:\n            if index is None:',
            '        self.surface_factory.last_thickness = thickness\n'
            '        if new_surface is None:\n'
            '            if index is None:')]),
         ('mutant',
          'rt-optic-n-pre',
          [('optiland/optic.py',
            'n.append(surface.material_post.n(wavelength))',
            'n.append(surface.material_pre.n(wavelength))')]),
         ('twin',
          'rt-material-n-caches',
          [('optiland/materials/ideal.py',
            '        return self.index\n',
            '        return self.index + 0 * wavelength\n')]),
         ('twin',
          'rt-stop-index-last',
          [('optiland/surfaces/surface_group.py',
            '            if surface.is_stop:\n                return index',
            '            if surface.is_stop:\n                idx_ = index\n        return idx_')]),
         ('mutant',
          'rt-get-thickness-abs',
          [('optiland/surfaces/surface_group.py',
            'return t[surface_number+1] - t[surface_number]',
            'return np.abs(t[surface_number+1] - t[surface_number])')]),
         ('twin',
          'rt-trace-skip',
          [('optiland/surfaces/surface_group.py',
            'for surface in self.surfaces[skip:]:',
            'for surface in self.surfaces[skip+0:][0:]:')]),
         ('twin',
          'rt-interact-scatter-before-refract',
          [('optiland/surfaces/standard_surface.py',
            '        nx, ny, nz = self.geometry.surface_normal(rays)\n',
            '        nx, ny, nz = self.geometry.surface_normal(rays)\n        nx = nx * 1.0\n')]),
         ('twin',
          'rt-hexapolar-ring-count',
          [('optiland/distribution.py', 'num_theta = 6 * (i + 1)', 'num_theta = 6 * i + 1')])],
 'C02': [('mutant',
          'rt-record-L-from-M',
          [('optiland/surfaces/standard_surface.py',
            'self.L = np.copy(np.atleast_1d(rays.L))',
            'self.L = np.copy(np.atleast_1d(rays.M))')]),
         ('mutant',
          'rt-object-trace-records-nothing',
          [('optiland/surfaces/object_surface.py',
            '        # record ray information\n        self._record(rays)\n',
            '')]),
         ('twin',
          'rt-material-n-caches',
          [('optiland/materials/ideal.py',
            '        return self.index\n',
            '        return self.index + 0 * wavelength\n')]),
         ('twin',
          'rt-trace-skip',
          [('optiland/surfaces/surface_group.py',
            'for surface in self.surfaces[skip:]:',
            'for surface in self.surfaces[skip+0:][0:]:')]),
         ('twin',
          'rt-interact-scatter-before-refract',
          [('optiland/surfaces/standard_surface.py',
            '        nx, ny, nz = self.geometry.surface_normal(rays)\n',
            '        nx, ny, nz = self.geometry.surface_normal(rays)\n        nx = nx * 1.0\n')]),
         ('twin',
          'rt-hexapolar-ring-count',
          [('optiland/distribution.py', 'num_theta = 6 * (i + 1)', 'num_theta = 6 * i + 1')])],
 'C03': [('mutant',
          'rt-max-field-y-only',
          [('optiland/fields.py',
            'return np.max(np.sqrt(self.x_fields**2 + self.y_fields**2))',
            'return np.max(np.abs(self.y_fields))')]),
         ('twin',
          'rt-material-n-caches',
          [('optiland/materials/ideal.py',
            '        return self.index\n',
            '        return self.index + 0 * wavelength\n')]),
         ('twin',
          'rt-trace-skip',
          [('optiland/surfaces/surface_group.py',
            'for surface in self.surfaces[skip:]:',
            'for surface in self.surfaces[skip+0:][0:]:')]),
         ('twin',
          'rt-interact-scatter-before-refract',
          [('optiland/surfaces/standard_surface.py',
            '        nx, ny, nz = self.geometry.surface_normal(rays)\n',
            '        nx, ny, nz = self.geometry.surface_normal(rays)\n        nx = nx * 1.0\n')]),
         ('twin',
          'rt-hexapolar-ring-count',
          [('optiland/distribution.py', 'num_theta = 6 * (i + 1)', 'num_theta = 6 * i + 1')])],
 'C04': [('mutant',
          'rt-epd-objectNA-sign',
          [('optiland/paraxial.py',
            'z = self.EPL() - obj_z\n            # a diameter: the entrance '
            'pupil may lie behind the object\n            return 2 * np.abs(z) '
            '* np.tan(u0)',
            'z = self.EPL() + obj_z\n            return 2 * np.abs(z) * '
            'np.tan(u0)')]),
         ('mutant',
          'rt-chief-ray-wrong-sign',
          [('optiland/paraxial.py',
            'return self._trace_generic(-yn[-1], un[-1], z0, wavelength)',
            'return self._trace_generic(yn[-1], un[-1], z0, wavelength)')]),
         ('mutant',
          'rt-chief-ray-scale',
          [('optiland/paraxial.py',
            'u1 = 0.1 * np.tan(np.deg2rad(max_field)) / u[-1]',
            'u1 = 0.1 * np.deg2rad(max_field) / u[-1]')]),
         ('mutant',
          'rt-surfacegroup-y-filter',
          [('optiland/surfaces/surface_group.py',
            'return np.array([surf.u for surf in self.surfaces if surf.u.size > 0])',
            'return np.array([surf.u for surf in self.surfaces[1:] if surf.u.size > 0])')]),
         ('mutant',
          'rt-object-trace-records-nothing',
          [('optiland/surfaces/object_surface.py',
            '        # record ray information\n        self._record(rays)\n',
            '')]),
         ('mutant',
          'rt-image-paraxial-globalize',
          [('optiland/surfaces/image_surface.py',
            '        t = -rays.z\n        rays.propagate(t)',
            '        t = rays.z\n        rays.propagate(t)')]),
         ('twin',
          'rt-material-n-caches',
          [('optiland/materials/ideal.py',
            '        return self.index\n',
            '        return self.index + 0 * wavelength\n')]),
         ('twin',
          'rt-trace-skip',
          [('optiland/surfaces/surface_group.py',
            'for surface in self.surfaces[skip:]:',
            'for surface in self.surfaces[skip+0:][0:]:')]),
         ('twin',
          'rt-interact-scatter-before-refract',
          [('optiland/surfaces/standard_surface.py',
            '        nx, ny, nz = self.geometry.surface_normal(rays)\n',
            '        nx, ny, nz = self.geometry.surface_normal(rays)\n        nx = nx * 1.0\n')]),
         ('mutant',
          'rt-EPL-u0',
          [('optiland/paraxial.py',
            '        y0 = 0\n'
            '        u0 = 0.1\n'
            '        # trace from center of stop on axis\n'
            '        z0 = surfaces.positions[stop_index]\n'
            '        wavelength = self.optic.primary_wavelength\n'
            '\n'
            '        y, u = self._trace_generic(y0, u0, z0, wavelength, reverse=True,',
            '        y0 = 0.1\n'
            '        u0 = 0.1\n'
            '        # trace from center of stop on axis\n'
            '        z0 = surfaces.positions[stop_index]\n'
            '        wavelength = self.optic.primary_wavelength\n'
            '\n'
            '        y, u = self._trace_generic(y0, u0, z0, wavelength, reverse=True,')]),
         ('mutant',
          'rt-f2-uses-last-y',
          [('optiland/paraxial.py', 'f2 = -y[0] / u[-2]', 'f2 = -y[1] / u[-2]')]),
         ('twin',
          'rt-hexapolar-ring-count',
          [('optiland/distribution.py', 'num_theta = 6 * (i + 1)', 'num_theta = 6 * i + 1')])],
 'C09': [('mutant',
          'rt-tilt-sign',
          [('optiland/wavefront.py',
            'return opd - tilt_correction',
            'return opd + tilt_correction')])],
 'C12': [('mutant',
          'rt-record-L-from-M',
          [('optiland/surfaces/standard_surface.py',
            'self.L = np.copy(np.atleast_1d(rays.L))',
            'self.L = np.copy(np.atleast_1d(rays.M))')])],
 'C15': [('mutant',
          'rt-sensitivity-reset-order',
          [('optiland/tolerancing/sensitivity_analysis.py',
            '                # reset system\n'
            '                self.tolerancing.reset()\n'
            '\n'
            '                # apply perturbation\n'
            '                perturbation.apply()',
            '                perturbation.apply()\n                self.tolerancing.reset()')])]}
for _p, _l in _RT.items():
    VARIANTS.setdefault(_p, []).extend(_l)


# Second red-team round (wiring, polarisation frames, tolerancing trial record)
_RT2 = {'C01': [('mutant',
          'rt2-std-geo-swap',
          [('optiland/surfaces/surface_factory.py',
            'geometry = StandardGeometry(cs, radius, conic)',
            'geometry = StandardGeometry(cs, conic, radius)')]),
         ('mutant',
          'rt2-cs-dx-dy',
          [('optiland/surfaces/surface_factory.py',
            'return CoordinateSystem(x=dx, y=dy, z=z, rx=rx, ry=ry)',
            'return CoordinateSystem(x=dy, y=dx, z=z, rx=rx, ry=ry)')])],
 'C03': [('mutant',
          'rt2-add-field-swap',
          [('optiland/optic.py',
            'new_field = Field(self.field_type, x, y, vx, vy)',
            'new_field = Field(self.field_type, y, x, vx, vy)')]),
         ('mutant',
          'rt2-field-coords-ymax',
          [('optiland/fields.py',
            'return [(float(x/max_field), float(y/max_field))',
            'return [(float(x/max_field), float(y/self.max_y_field))')]),
         ('mutant',
          'rt2-unit-mm',
          [('optiland/wavelength.py',
            "            'mm': 1000,\n"
            "            'cm': 10000,\n"
            "            'm': 1000000\n"
            '        }\n'
            '\n'
            '        if self._unit in unit_conversion:\n'
            '            conversion_factor = unit_conversion[self._unit]\n'
            '            return self._value * conversion_factor\n'
            '        else:\n'
            "            raise ValueError('Unsupported unit for conversion to microns.')\n"
            '\n'
            '    def to_dict',
            "            'mm': 100,\n"
            "            'cm': 10000,\n"
            "            'm': 1000000\n"
            '        }\n'
            '\n'
            '        if self._unit in unit_conversion:\n'
            '            conversion_factor = unit_conversion[self._unit]\n'
            '            return self._value * conversion_factor\n'
            '        else:\n'
            "            raise ValueError('Unsupported unit for conversion to microns.')\n"
            '\n'
            '    def to_dict')])],
 'C14': [('twin',
          'rt2-operand-value-args',
          [('optiland/optimization/operand/operand.py',
            'return metric_function(**self.input_data)',
            'return metric_function(**dict(self.input_data))')]),
         ('mutant',
          'rt2-add-operand-swap',
          [('optiland/optimization/optimization.py',
            'self.operands.append(Operand(operand_type, target, weight, input_data))',
            'self.operands.append(Operand(operand_type, weight, target, input_data))')]),
         ('mutant',
          'rt2-paraxial-operand-f1',
          [('optiland/optimization/operand/paraxial.py',
            'return optic.paraxial.f1()',
            'return optic.paraxial.f2()')])],
 'C15': [('mutant',
          'rt2-compensate-before-apply',
          [('optiland/tolerancing/monte_carlo.py',
            '            compensator_result = self.tolerancing.apply_compensators()\n'
            '\n'
            '            # evaluate operands\n'
            '            operand_values = self.tolerancing.evaluate()',
            '            operand_values = self.tolerancing.evaluate()\n'
            '            compensator_result = self.tolerancing.apply_compensators()')]),
         ('mutant',
          'rt2-range-sampler-skip-first',
          [('optiland/tolerancing/perturbation.py',
            '        value = self.values[self.index]\n'
            '        self.index += 1\n'
            '        return value',
            '        self.index += 1\n'
            '        value = self.values[self.index - 0]\n'
            '        return value')]),
         ('mutant',
          'rt2-compensator-other-operands',
          [('optiland/tolerancing/core.py',
            'self.compensator.operands = self.operands',
            'self.compensator.operands = list(self.compensator.operands)')]),
         ('twin',
          'rt2-T-range-sampler-rename',
          [('optiland/tolerancing/perturbation.py',
            '        value = self.values[self.index]\n'
            '        self.index += 1\n'
            '        return value',
            '        v = self.values[self.index]\n        self.index += 1\n        return v')])],
 'C17': [('mutant',
          'rt2-pol-p1-handed',
          [('optiland/rays/polarized_rays.py', 'p1 = np.cross(k1, s)', 'p1 = np.cross(s, k1)')]),
         ('mutant',
          'rt2-pol-oout-axis',
          [('optiland/rays/polarized_rays.py',
            'o_out = np.stack((s, p1, k1), axis=2)',
            'o_out = np.stack((s, p1, k1), axis=1)')]),
         ('mutant',
          'rt2-pol-k0-from-current',
          [('optiland/rays/polarized_rays.py',
            'k0 = np.array([self.L0, self.M0, self.N0]).T',
            'k0 = np.array([self._L0, self._M0, self._N0]).T')]),
         ('mutant',
          'rt2-pol-right-multiply',
          [('optiland/rays/polarized_rays.py',
            'self.p = np.matmul(p, self.p)',
            'self.p = np.matmul(self.p, p)')]),
         ('mutant',
          'rt2-pol-einsum-order',
          [('optiland/rays/polarized_rays.py',
            "np.einsum('nij,njk,nkl->nil', o_out, jones_matrix, o_in)",
            "np.einsum('nij,njk,nkl->nil', o_in, jones_matrix, o_out)")]),
         ('mutant',
          'rt2-pol-launch-s-sign',
          [('optiland/rays/polarized_rays.py',
            's = np.cross(p, k)\n',
            's = np.cross(p, k) + k\n')]),
         ('mutant',
          'rt2-pol-launch-phase',
          [('optiland/rays/polarized_rays.py',
            'state.Ey * np.exp(1j * state.phase_y) * p)',
            'state.Ey * np.exp(1j * state.phase_y) * s)')]),
         ('mutant',
          'rt2-pol-no-normalise',
          [('optiland/rays/polarized_rays.py', '        s /= mag[:, np.newaxis]\n', '')]),
         ('mutant',
          'rt2-jones-offblock',
          [('optiland/jones.py',
            '            jones_matrix[:, 2, 2] = 1\n'
            '\n'
            '        return jones_matrix\n'
            '\n'
            '\n'
            'class JonesPolarizerH',
            '            jones_matrix[:, 2, 1] = 1\n'
            '\n'
            '        return jones_matrix\n'
            '\n'
            '\n'
            'class JonesPolarizerH')]),
         ('mutant',
          'rt2-interact-no-update',
          [('optiland/surfaces/standard_surface.py',
            '            rays.update()\n',
            '            pass\n')]),
         ('twin',
          'rt2-T-pol-rename',
          [('optiland/rays/polarized_rays.py',
            'p0 = np.cross(k0, s)\n        p1 = np.cross(k1, s)',
            'p0 = -np.cross(s, k0)\n        p1 = -np.cross(s, k1)')])]}
for _p, _l in _RT2.items():
    VARIANTS.setdefault(_p, []).extend(_l)

# round 5: fixes 98e9194 (sampler state), 2937265 (Newton convergence mask)
_RT3 = {
    'C15': [
        M('rt3-sampler-global-seed',
          (TOL + 'perturbation.py',
           'self._rng = np.random.RandomState(seed)',
           'np.random.seed(seed)\n            self._rng = np.random')),
        M('rt3-sampler-global-draw',
          (TOL + 'perturbation.py',
           'return self._rng.normal(**self.params)',
           'return np.random.normal(**self.params)')),
        M('rt3-sampler-wrong-dist',
          (TOL + 'perturbation.py',
           'return self._rng.uniform(**self.params)',
           'return self._rng.normal(**self.params)')),
        M('rt3-sampler-seed-truthy',
          (TOL + 'perturbation.py',
           '        if seed is not None:\n            self._rng',
           '        if seed:\n            self._rng')),
        T('rt3-T-sampler-default-rng-name',
          (TOL + 'perturbation.py',
           'self._rng = np.random.RandomState(seed)',
           'self._rng = np.random.RandomState(seed=seed)')),
    ],
    'C02': [
        M('rt3-newton-no-mask',
          (NR, 'return np.where(converged & (t > -1e-10), t, np.nan)',
           'return t')),
        M('rt3-newton-mask-inverted',
          (NR, 'return np.where(converged & (t > -1e-10), t, np.nan)',
           'return np.where(converged & (t > -1e-10), np.nan, t)')),
        M('rt3-newton-mask-stale-residual',
          (NR, 'converged = np.abs(residual) < self.tol',
           'converged = np.abs(residual) < np.inf')),
        M('rt3-newton-behind-accepted',
          (NR, 'return np.where(converged & (t > -1e-10), t, np.nan)',
           'return np.where(converged, t, np.nan)')),
        M('rt3-newton-unsigned',
          (NR, 't = np.sum((intersections - position) * ray_directions, '
               'axis=1)',
           't = np.linalg.norm(intersections - position, axis=1)')),
        T('rt3-T-newton-mask-gt',
          (NR, 'return np.where(converged & (t > -1e-10), t, np.nan)',
           'return np.where(converged & (t >= -1e-10), t, np.nan)')),
    ],
}
for _p, _l in _RT3.items():
    VARIANTS.setdefault(_p, []).extend(_l)

_PA = AN + 'pupil_aberration.py'
_RT4 = {
    'C12': [
        M('rt4-pa-sign', (_PA, 'error_x = (parax_ref * (1 - vx) - real_x) / d * 100',
                          'error_x = (parax_ref * (1 - vx) + real_x) / d * 100')),
        M('rt4-pa-scale', (_PA, 'error_y = (parax_ref * (1 - vy) - real_y) / d * 100',
                           'error_y = (parax_ref * (1 - vy) - real_y) * d * 100')),
        M('rt4-pa-mask-dropped',
          (_PA, '                error_y[real_int_y == 0] = np.nan\n', '')),
        M('rt4-pa-mask-negated',
          (_PA, 'error_x[real_int_x == 0] = np.nan',
           'error_x[real_int_x != 0] = np.nan')),
        M('rt4-pa-mask-other-fan',
          (_PA, 'error_x[real_int_x == 0] = np.nan',
           'error_x[real_int_y == 0] = np.nan')),
        M('rt4-pa-no-parax-fan',
          (_PA, "        self.optic.paraxial.trace(0, data['Py'], "
                "self.optic.primary_wavelength)\n", '')),
        M('rt4-pa-parax-args-swapped',
          (_PA, "self.optic.paraxial.trace(0, data['Py'], ",
           "self.optic.paraxial.trace(data['Py'], 0, ")),
        M('rt4-pa-samples',
          (_PA, "'Py': np.linspace(-1, 1, self.num_points)}",
           "'Py': np.linspace(1, -1, self.num_points)}")),
        M('rt4-pa-d-index',
          (_PA, 'd = self.optic.surface_group.y[stop_idx, 0]',
           'd = self.optic.surface_group.y[-1, 0]')),
        M('rt4-pa-store-swapped',
          (_PA, "data[f'{field}'][f'{wavelength}']['x'] = error_x",
           "data[f'{field}'][f'{wavelength}']['x'] = error_y")),
        T('rt4-T-pa-commuted',
          (_PA, 'error_x = (parax_ref * (1 - vx) - real_x) / d * 100',
           'error_x = 100 * (parax_ref * (1 - vx) - real_x) / d')),
    ],
}
for _p, _l in _RT4.items():
    VARIANTS.setdefault(_p, []).extend(_l)


_RT5 = {
    'C01': [
        M('rt5-thickness-object-gap-shift',
          (OP, '            positions[0] = positions[1] - value\n',
           '            positions[1:] += value - positions[1] + positions[0]\n')),
        M('rt5-thickness-object-gap-sign',
          (OP, 'positions[0] = positions[1] - value',
           'positions[0] = positions[1] + value')),
        T('rt5-T-thickness-object-gap-ne',
          (OP, """        if surface_number == 0:
            # only the object moves (it may currently be at infinity)
            positions[0] = positions[1] - value
        else:
            delta_t = value - positions[surface_number+1] + \\
                positions[surface_number]
            positions[surface_number+1:] += delta_t
""", """        if surface_number != 0:
            delta_t = value - positions[surface_number+1] + \\
                positions[surface_number]
            positions[surface_number+1:] += delta_t
        else:
            positions[0] = positions[1] - value
""")),
    ],
}
for _p, _l in _RT5.items():
    VARIANTS.setdefault(_p, []).extend(_l)


_RT6 = {
    'C02': [
        M('rt6-flat-base-no-branch',
          (NR, '        if np.isinf(self.radius):\n', '        if False:\n')),
        M('rt6-flat-base-inverted',
          (NR, '        if np.isinf(self.radius):\n',
           '        if not np.isinf(self.radius):\n')),
        T('rt6-T-flat-base-isfinite',
          (NR, '        if np.isinf(self.radius):\n',
           '        if not np.isfinite(self.radius):\n')),
    ],
}
for _p, _l in _RT6.items():
    VARIANTS.setdefault(_p, []).extend(_l)


_FD = O + 'fields.py'
_RT7 = {
    'C03': [
        M('rt7-vig-signed-sort',
          (_FD, 'idx_sorted = np.argsort(h_fields)',
           'idx_sorted = np.argsort(self.y_fields)')),
        M('rt7-vig-signed-abscissa',
          (_FD, 'h_sorted = h_fields[idx_sorted] / self.max_field',
           'h_sorted = self.y_fields[idx_sorted] / self.max_field')),
        M('rt7-vig-signed-max',
          (_FD, 'h_sorted = h_fields[idx_sorted] / self.max_field',
           'h_sorted = h_fields[idx_sorted] / self.max_y_field')),
        T('rt7-T-vig-radius',
          (_FD, 'h_fields = np.abs(self.y_fields)',
           'h_fields = np.sqrt(self.x_fields**2 + self.y_fields**2)')),
    ],
}
_RT7['C07'] = [v for v in _RT7['C03'] if v[0] == 'mutant'][:2]
for _p, _l in _RT7.items():
    VARIANTS.setdefault(_p, []).extend(_l)


_RT8 = {
    'C14': [
        M('rt8-bounds-guard-dropped',
          (OPT, "        if has_bounds and str(method).lower() in "
                "self._UNBOUNDED_METHODS:\n"
                "            raise ValueError(f'Method \"{method}\" cannot "
                "handle variable '\n"
                "                             'bounds.')\n", '')),
        M('rt8-bounds-guard-no-lower',
          (OPT, 'if has_bounds and str(method).lower() in',
           'if has_bounds and str(method) in')),
        M('rt8-bounds-guard-short-list',
          (OPT, "_UNBOUNDED_METHODS = ('cg', 'bfgs', 'newton-cg', 'dogleg', "
                "'trust-ncg',", "_UNBOUNDED_METHODS = ('cg', 'newton-cg', "
                                "'dogleg', 'trust-ncg',")),
        T('rt8-T-bounds-guard-inline',
          (OPT, 'str(method).lower() in self._UNBOUNDED_METHODS',
           "str(method).lower() in ('cg', 'bfgs', 'newton-cg', 'dogleg', "
           "'trust-ncg', 'trust-exact', 'trust-krylov', 'custom')")),
    ],
}
for _p, _l in _RT8.items():
    VARIANTS.setdefault(_p, []).extend(_l)

_PR = O + 'rays/polarized_rays.py'
_RT9 = {
    'C16': [
        M('rt9-pol-intensity-overwrite',
          (_PR, 'self.i = np.where(self.i == 0, 0.0, self.i * transmittance)',
           'self.i = np.where(self.i == 0, 0.0, transmittance)')),
        M('rt9-unpol-intensity-from-launch',
          (_PR, 'self.i = np.where(self.i == 0, 0.0, self.i * transmittance)',
           'self.i = np.where(self.i == 0, 0.0, self._i0 * transmittance)')),
    ],
    'C17': [
        M('rt9-unpol-not-halved',
          (_PR, 'np.sum(np.abs(E1_y)**2, axis=1)) / 2',
           'np.sum(np.abs(E1_y)**2, axis=1))')),
        M('rt9-unpol-same-state-twice',
          (_PR, "state_y = PolarizationState(is_polarized=True, Ex=0.0, "
                "Ey=1.0,", "state_y = PolarizationState(is_polarized=True, "
                           "Ex=1.0, Ey=0.0,")),
        M('rt9-pol-branch-launch-intensity',
          (_PR, 'transmittance = np.sum(np.abs(E1)**2, axis=1)',
           'transmittance = self._i0 * np.sum(np.abs(E1)**2, axis=1)')),
        M('rt9-simple-coating-no-update',
          (CT, '        rays.i *= self.transmittance\n        # polarized rays '
               'follow the change of direction (identity Jones matrix)\n'
               '        rays.update()\n',
           '        rays.i *= self.transmittance\n')),
        M('rt9-simple-coating-update-twice',
          (CT, '        rays.i *= self.reflectance\n        # polarized rays '
               'follow the change of direction (identity Jones matrix)\n'
               '        rays.update()\n',
           '        rays.i *= self.reflectance\n        rays.update()\n'
           '        rays.update()\n')),
        T('rt9-T-unpol-half-first',
          (_PR, 'transmittance = (np.sum(np.abs(E1_x)**2, axis=1) +\n'
                '                             np.sum(np.abs(E1_y)**2, '
                'axis=1)) / 2',
           'transmittance = 0.5 * (np.sum(np.abs(E1_x)**2, axis=1) +\n'
           '                             np.sum(np.abs(E1_y)**2, '
           'axis=1))')),
    ],
}
for _p, _l in _RT9.items():
    VARIANTS.setdefault(_p, []).extend(_l)

_RT10 = {
    'C18': [
        M('rt10-f6-int-neg-power',
          (MF, 'n += c[k] / (c[k+1] - 1 / w**2)',
           'n += c[k] / (c[k+1] - w**-2)')),
        M('rt10-f4-term-always',
          (MF, '                if c[k] != 0:\n                    n = n + '
               'c[k]*w**c[k+1] / (w**2 - c[k+2]**c[k+3])',
           '                n = n + c[k]*w**c[k+1] / (w**2 - '
           'c[k+2]**c[k+3])')),
        M('rt10-f4-second-term-dropped',
          (MF, '            for k in (1, 5):\n', '            for k in (1,):\n')),
        M('rt10-nk-always-registers',
          (MF, '                    if self._n_formula is None:\n'
               '                        self._n_wavelength = arr[:, 0]\n'
               '                        self._n = arr[:, 1]\n'
               '                        self._set_formula_type(sub_data_type)',
           '                    self._n_wavelength = arr[:, 0]\n'
           '                    self._n = arr[:, 1]\n'
           '                    self._set_formula_type(sub_data_type)')),
        M('rt10-nk-k-guarded',
          (MF, "                    self._k_wavelength = arr[:, 0]\n"
               "                    self._k = arr[:, 2]\n"
               "                    # a file may combine",
           "                    # a file may combine")),
        T('rt10-T-f4-eq-form',
          (MF, '                if c[k] != 0:\n                    n = n + '
               'c[k]*w**c[k+1] / (w**2 - c[k+2]**c[k+3])',
           '                if c[k] == 0:\n                    continue\n'
           '                n = n + c[k]*w**c[k+1] / (w**2 - '
           'c[k+2]**c[k+3])')),
    ],
}
for _p, _l in _RT10.items():
    VARIANTS.setdefault(_p, []).extend(_l)


_RT11 = {
    'C19': [
        M('rt11-load-applies-pickups',
          (O + 'pickup.py',
           '            manager.pickups.append(Pickup.from_dict(optic, '
           'pickup_data))\n',
           '            manager.add(**pickup_data)\n')),
        M('rt11-load-updates',
          (O + 'pickup.py',
           '            manager.pickups.append(Pickup.from_dict(optic, '
           'pickup_data))\n        return manager',
           '            manager.pickups.append(Pickup.from_dict(optic, '
           'pickup_data))\n        manager.apply()\n        return manager')),
    ],
}
for _p, _l in _RT11.items():
    VARIANTS.setdefault(_p, []).extend(_l)

_RT12 = {
    'C20': [
        # repaired form of the known finding MODEL-ANCHOR: the check must be
        # silent on it (and lose its KNOWN-FINDING line)
        T('rt12-T-model-glass-anchored',
          (O + 'materials/abbe.py',
           '        return np.polyval(self._p, wavelength)\n',
           '        ld, lf, lc = 0.5875618, 0.4861327, 0.6562725\n'
           '        nd_fit = np.polyval(self._p, ld)\n'
           '        disp_fit = np.polyval(self._p, lf) - '
           'np.polyval(self._p, lc)\n'
           '        scale = ((self.index - 1) / self.abbe) / disp_fit\n'
           '        return self.index + (np.polyval(self._p, wavelength) - '
           'nd_fit) * scale\n')),
    ],
}
for _p, _l in _RT12.items():
    VARIANTS.setdefault(_p, []).extend(_l)

_RT13 = {
    'C02': [
        T('rt13-T-quadratic-stable',
          (ST, '            t1 = (-b + np.sqrt(d)) / (2 * a)\n'
               '            t2 = (-b - np.sqrt(d)) / (2 * a)\n',
           '            q = -0.5 * (b + np.where(b >= 0, 1.0, -1.0) * '
           'np.sqrt(d))\n            t1 = q / a\n            t2 = c / q\n')),
    ],
}
for _p, _l in _RT13.items():
    VARIANTS.setdefault(_p, []).extend(_l)

_RT14 = {
    'C02': [
        M('rt14-no-k-data-raises',
          (RR, "            try:\n                k = material.k(self.w)\n"
               "            except ValueError:\n"
               "                # catalogue entry without extinction data: "
               "lossless\n                k = 0.0\n",
           "            k = material.k(self.w)\n")),
        M('rt14-no-k-data-opaque',
          (RR, "                # catalogue entry without extinction data: "
               "lossless\n                k = 0.0\n",
           "                # catalogue entry without extinction data\n"
           "                k = np.inf\n")),
    ],
}
for _p, _l in _RT14.items():
    VARIANTS.setdefault(_p, []).extend(_l)


_RT15 = {
    'C17': [
        M('rt15-rotate-x-transposed',
          (_PR, 'self._rotate_p([[1, 0, 0], [0, c, -s], [0, s, c]])',
           'self._rotate_p([[1, 0, 0], [0, c, s], [0, -s, c]])')),
        M('rt15-rotate-y-missing',
          (_PR, '        self._rotate_p([[c, 0, s], [0, 1, 0], [-s, 0, c]])\n',
           '        pass\n')),
        M('rt15-rotate-right-multiply',
          (_PR, 'self.p = np.matmul(np.asarray(matrix, dtype=float), self.p)',
           'self.p = np.matmul(self.p, np.asarray(matrix, dtype=float))')),
        M('rt15-generic-no-pol',
          (OP, "        rays = self.surface_group.trace(rays)\n\n"
               "        if isinstance(rays, PolarizedRays):\n"
               "            rays.update_intensity(self.polarization_state)\n",
           "        rays = self.surface_group.trace(rays)\n")),
        M('rt15-dark-nan',
          (_PR, 'self.i = np.where(self.i == 0, 0.0, self.i * transmittance)',
           'self.i = self.i * transmittance')),
    ],
    'C15': [
        M('rt15-no-update-without-compensators',
          (TOL + 'core.py', '        self.optic.update()\n        if '
                            'self.compensator.has_variables:',
           '        if self.compensator.has_variables:')),
    ],
    'C07': [
        M('rt15-aperture-per-surface',
          (OP, "            if surface.aperture is not None and \\\n"
               "                    id(surface.aperture) not in scaled:\n",
           "            if surface.aperture is not None:\n")),
    ],
    'C13': [
        M('rt15-conversion-dropped',
          (PX, '        y = self._process_input(y)\n',
           '        self._process_input(y)\n')),
        M('rt15-numpy-scalars-rejected',
          (O + 'rays/base.py',
           'isinstance(data, (int, float, np.integer, np.floating))',
           'isinstance(data, (int, float))')),
    ],
    'C01': [
        M('rt15-append-default-dropped',
          (SG, "        elif index is None:\n            # a ready-made surface "
               "without an index is appended\n"
               "            index = len(self.surfaces)\n", '')),
        M('rt15-conic-pickup-unguarded',
          (O + 'pickup.py', "return getattr(surface.geometry, 'k', 0)",
           'return surface.geometry.k')),
    ],
}
for _p, _l in _RT15.items():
    VARIANTS.setdefault(_p, []).extend(_l)

_RT16 = {
    'C04': [
        M('rt16-asphere-curvature-dropped',
          (SS, '            curvature = np.float64(1 / radius + 2 * '
               'self.geometry.c[0])\n',
           '            curvature = np.float64(1 / radius)\n')),
        M('rt16-asphere-curvature-single',
          (SS, 'np.float64(1 / radius + 2 * self.geometry.c[0])',
           'np.float64(1 / radius + self.geometry.c[0])')),
        M('rt16-inverted-asphere-not-negated',
          (SG, '            if isinstance(surf.geometry, EvenAsphere):\n'
               '                surf.geometry.c = [-c for c in '
               'surf.geometry.c]\n', '')),
    ],
}
for _p, _l in _RT16.items():
    VARIANTS.setdefault(_p, []).extend(_l)

_RT17 = {
    'C12': [
        M('rt17-pa-unvignetted-reference',
          (_PA, 'error_y = (parax_ref * (1 - vy) - real_y) / d * 100',
           'error_y = (parax_ref - real_y) / d * 100')),
        M('rt17-pa-wrong-factor',
          (_PA, 'error_x = (parax_ref * (1 - vx) - real_x) / d * 100',
           'error_x = (parax_ref * (1 - vy) - real_x) / d * 100')),
    ],
}
for _p, _l in _RT17.items():
    VARIANTS.setdefault(_p, []).extend(_l)


_RT18 = {
    'C19': [
        M('rt18-coating-media-raw',
          (CT, "            'material_pre': self.material_pre.to_dict(),\n"
               "            'material_post': self.material_post.to_dict()\n"
               "        }\n\n    @classmethod\n    def from_dict(cls, data):\n"
               "        \"\"\"\n        Creates a coating from a dictionary.\n\n"
               "        Args:\n            data (dict): The dictionary "
               "representation of the coating.\n\n        Returns:\n"
               "            BaseCoating: The coating created from the "
               "dictionary.\n        \"\"\"\n        return cls(BaseMaterial."
               "from_dict(data['material_pre']),\n                   "
               "BaseMaterial.from_dict(data['material_post']))\n\n\nclass "
               "FresnelCoating",
           "            'material_pre': self.material_pre,\n"
           "            'material_post': self.material_post\n"
           "        }\n\n    @classmethod\n    def from_dict(cls, data):\n"
           "        return cls(data['material_pre'], data['material_post'])"
           "\n\n\nclass FresnelCoating")),
        M('rt18-polarization-raw',
          (OP, "        data['wavelengths']['polarization'] = "
               "self.polarization.to_dict() \\\n            if isinstance("
               "self.polarization, PolarizationState) \\\n            else "
               "self.polarization\n",
           "        data['wavelengths']['polarization'] = "
           "self.polarization\n")),
        M('rt18-save-inside-open',
          (O + 'fileio/optiland_handler.py',
           "    text = json.dumps(obj.to_dict(), indent=4, default=plain)\n"
           "    with open(filepath, 'w') as f:\n        f.write(text)\n",
           "    with open(filepath, 'w') as f:\n"
           "        json.dump(obj.to_dict(), f, indent=4, default=plain)\n")),
        M('rt18-media-not-relinked',
          (SG, "            if pre == prev.material_post.to_dict():\n"
               "                surf.material_pre = prev.material_post\n",
           '')),
        M('rt18-plane-conic-not-written',
          (O + 'geometries/plane.py',
           "        if hasattr(self, 'k'):\n"
           "            geometry_dict['conic'] = self.k\n", '')),
    ],
}
for _p, _l in _RT18.items():
    VARIANTS.setdefault(_p, []).extend(_l)

_RT19 = {
    'C11': [
        M('rt19-geometric-binned-again',
          (MTF, "        xi = np.asarray(xi, dtype=float)\n"
                "        phase = 2 * np.pi * np.outer(v, xi - np.mean(xi))\n"
                "        mtf = np.abs(np.mean(np.exp(1j * phase), axis=1))\n",
           "        A, edges = np.histogram(xi, bins=self.num_points+1)\n"
           "        x = (edges[1:] + edges[:-1]) / 2\n"
           "        mtf = np.abs(np.array([np.sum(A * np.exp(2j * np.pi * f_ "
           "* x)) for f_ in v])) / np.sum(A)\n")),
        M('rt19-geometric-no-2pi',
          (MTF, 'phase = 2 * np.pi * np.outer(v, xi - np.mean(xi))',
           'phase = np.pi * np.outer(v, xi - np.mean(xi))')),
        M('rt19-mtf-grid-not-enlarged',
          (MTF, 'self.grid_size = max(grid_size, 2 * num_rays)',
           'self.grid_size = grid_size')),
        M('rt19-psf-dark-samples-unmasked',
          (PSF, 'phase = np.where(lit, opd, 0)', 'phase = opd')),
        T('rt19-T-geometric-unshifted',
          (MTF, 'phase = 2 * np.pi * np.outer(v, xi - np.mean(xi))',
           'phase = 2 * np.pi * np.outer(v, xi)')),
    ],
}
for _p, _l in _RT19.items():
    VARIANTS.setdefault(_p, []).extend(_l)

_RT20 = {
    'C14': [
        M('rt20-writeback-shifted',
          (OPT, '        for idvar, var in enumerate(self.problem.variables):\n'
                '            var.update(x[idvar])\n',
           '        for idvar, var in enumerate(self.problem.variables):\n'
           '            var.update(x[idvar - 1])\n')),
        M('rt20-update-optics-noop',
          (OPT, '        for optic in unique_optics:\n            optic.update()',
           '        for optic in unique_optics:\n            pass')),
        M('rt20-ls-lower-from-upper',
          (OPT, 'lower = [var.bounds[0] if var.bounds[0] is not None',
           'lower = [var.bounds[1] if var.bounds[0] is not None')),
    ],
    'C12': [
        M('rt20-operand-centroid-wavelength',
          (O + 'optimization/operand/ray.py',
           'mean_x = np.mean(x[wave_idx])', 'mean_x = np.mean(x[wave_idx - 1])')),
        M('rt20-operand-x-y-mixed',
          (O + 'optimization/operand/ray.py',
           'r2 = [(x[i] - mean_x)**2 + (y[i] - mean_y)**2',
           'r2 = [(x[i] - mean_x)**2 + (x[i] - mean_y)**2')),
        M('rt20-pa-field-swapped',
          (_PA, '            Hy = field[1]\n', '            Hy = field[0]\n')),
    ],
    'C03': [
        M('rt20-vig-branch-inverted',
          (_FD, 'if np.all(self.x_fields == 0):',
           'if np.all(self.x_fields != 0):')),
        M('rt20-vig-guard-inverted',
          (_FD, '            if self.max_field == 0:\n',
           '            if self.max_field != 0:\n')),
    ],
    'C02': [
        M('rt20-conic-z-of-root',
          (ST, '        # find intersection points in z\n'
               '        z1 = rays.z + t1 * rays.N\n',
           '        # find intersection points in z\n'
           '        z1 = rays.z - t1 * rays.N\n')),
        M('rt20-conic-no-linear-arm',
          (ST, '        t[a == 0] = -c[a == 0] / b[a == 0]\n', '')),
    ],
    'C17': [
        M('rt20-launch-phase',
          (_PR, 'E = (state.Ex * np.exp(1j * state.phase_x) * s +',
           'E = (state.Ex * np.exp(1j / state.phase_x) * s +')),
    ],
}
for _p, _l in _RT20.items():
    VARIANTS.setdefault(_p, []).extend(_l)

# ---- round 21: added guards (rat.Fork), added state, length grades --------
_RT21 = {
    'C01': [
        T('rt21-pickup-fast-path-offset-zero',
          (O + 'pickup.py',
           '        new_value = self.scale * old_value + self.offset\n',
           '        if self.offset == 0:\n'
           '            new_value = self.scale * old_value\n'
           '        else:\n'
           '            new_value = self.scale * old_value + self.offset\n')),
        M('rt21-pickup-skipped-when-offset-zero',
          (O + 'pickup.py',
           '        new_value = self.scale * old_value + self.offset\n',
           '        if self.offset == 0:\n'
           '            return\n'
           '        new_value = self.scale * old_value + self.offset\n')),
        M('rt21-optic-update-memo',
          (O + 'optic.py', '    def update(self):\n',
           '    def update(self):\n'
           '        if getattr(self, \'_updated\', False):\n'
           '            return\n'
           '        self._updated = True\n')),
    ],
    'C04': [
        M('rt21-f2-memo',
          (PX, '    def f2(self):\n',
           '    def f2(self):\n'
           '        if getattr(self, \'_f2\', None) is not None:\n'
           '            return self._f2\n'
           '        self._f2 = self._f2_uncached()\n'
           '        return self._f2\n\n'
           '    def _f2_uncached(self):\n')),
    ],
    'C07': [
        M('rt21-launch-plane-absolute-margin',
          (RG, '        return offset - np.min(z)\n',
           '        return offset - np.min(z) + 1.0\n')),
        T('rt21-launch-plane-relative-margin',
          (RG, '        return offset - np.min(z)\n',
           '        return 1.5 * offset - np.min(z)\n')),
    ],
    'C08': [
        M('rt21-b-zeroed-below-tolerance',
          (AB, '            if denom == 0:\n',
           '            if abs(denom) < 1e-9:\n')),
    ],
    'C10': [
        M('rt21-fit-rounds-solution',
          (ZK, 'rcond=None)\n        self.zernike.coeffs = coeffs\n',
           'rcond=None)\n        coeffs[np.abs(coeffs) < 1e-12] = 0\n'
           '        self.zernike.coeffs = coeffs\n')),
        T('rt21-fit-validates-sample-count',
          (ZK, '        z = np.ravel(self.z)\n',
           '        z = np.ravel(self.z)\n'
           '        if z.size == 0:\n'
           '            raise ValueError(\'no samples\')\n')),
    ],
    'C17': [
        M('rt21-fresnel-where-zeroes-p',
          (JN, '            jones_matrix[:, 0, 0] = s\n'
               '            jones_matrix[:, 1, 1] = p\n'
               '            jones_matrix[:, 2, 2] = 1\n',
           '            grazing = aoi > 1.5\n'
           '            p = np.where(grazing, 0, p)\n'
           '            jones_matrix[:, 0, 0] = s\n'
           '            jones_matrix[:, 1, 1] = p\n'
           '            jones_matrix[:, 2, 2] = 1\n')),
    ],
    'C18': [
        M('rt21-module-level-memo',
          (O + 'materials/abbe.py', 'class AbbeMaterial(',
           '_COEFF_CACHE = {}\n\n\nclass AbbeMaterial('),
          (O + 'materials/abbe.py',
           '        coefficients = np.load(coefficients_file)\n',
           '        if \'c\' not in _COEFF_CACHE:\n'
           '            _COEFF_CACHE[\'c\'] = X_poly @ np.load(coefficients_file)\n'
           '        return _COEFF_CACHE[\'c\']\n'
           '        coefficients = np.load(coefficients_file)\n')),
    ],
}
for _p, _l in _RT21.items():
    VARIANTS.setdefault(_p, []).extend(_l)

# ---- round 22: survivors of the second mutation-score round ---------------
_SG = O + 'surfaces/surface_group.py'
_RT22 = {
    'C07': [
        M('rt22-scale-solve-height-divided',
          (O + 'optic.py', 'solve.height = solve.height * scale_factor',
           'solve.height = solve.height / scale_factor')),
        M('rt22-scale-field-x-from-y',
          (O + 'optic.py', 'field.x = field.x * scale_factor',
           'field.x = field.y * scale_factor')),
    ],
    'C01': [
        M('rt22-set-radius-inf-drops-conic',
          (O + 'optic.py', '            new_geometry.k = surface.geometry.k\n',
           '')),
        M('rt22-solves-applied-conditionally',
          (O + 'solves.py', '        for solve in self.solves:\n'
                            '            solve.apply()\n',
           '        for solve in self.solves:\n'
           '            if getattr(solve, \'enabled\', False):\n'
           '                solve.apply()\n')),
        M('rt22-pickup-add-does-not-apply',
          (O + 'pickup.py', '        pickup.apply()\n        self.pickups.append(pickup)\n',
           '        self.pickups.append(pickup)\n')),
        M('rt22-remove-surface-mirror-side',
          (_SG, '            if following.is_reflective:\n'
                '                following.material_post = following.material_pre\n',
           '')),
    ],
    'C02': [
        # made the algebra of NORMAL-GRADIENT run for hours before additions
        # were budgeted and rules got a deadline
        M('rt22-chebyshev-normal-times-norm',
          (O + 'geometries/chebyshev.py', '        nx = dzdx / norm\n',
           '        nx = dzdx * norm\n')),
    ],
    'C19': [
        M('rt22-solves-lost-on-reload',
          (O + 'solves.py', '            solve_manager.solves.append(solve)\n',
           '            pass\n')),
    ],
}
for _p, _l in _RT22.items():
    VARIANTS.setdefault(_p, []).extend(_l)

"""E2 -- effects: attribute stores, who-may-write, freshness, parameter
aliasing, lost writes, transitive write sets over the E0 call graph."""
import ast
import collections
from .pm import base_name, calls_in, stmt_exprs, unparse, AnalysisError

FRESH_CALLS = {'deepcopy', 'copy', 'array', 'zeros', 'ones', 'zeros_like',
               'ones_like', 'full', 'full_like', 'empty', 'empty_like',
               'linspace', 'arange', 'meshgrid', 'asarray_copy', 'stack',
               'column_stack', 'hstack', 'vstack', 'concatenate', 'sqrt',
               'abs', 'sin', 'cos', 'tan', 'exp', 'where', 'ravel_copy',
               'atleast_1d_copy', 'list', 'dict', 'set', 'tuple', 'sorted',
               'float', 'int', 'sum', 'max', 'min', 'len', 'range', 'tile',
               'repeat', 'radians', 'deg2rad', 'arcsin', 'arccos', 'arctan',
               'arctan2', 'hypot', 'interp', 'cross', 'dot', 'einsum', 'outer',
               'matmul', 'maximum', 'minimum', 'clip', 'sign', 'mean', 'std',
               'real', 'imag', 'conj', 'flip', 'roll', 'pad', 'fft2', 'fftshift',
               'diag', 'eye', 'identity', 'power', 'square', 'log', 'log10',
               'nanmax', 'nanmin', 'nansum', 'nanmean', 'isnan', 'isinf',
               'isfinite', 'argsort', 'argwhere', 'nonzero', 'unique', 'sort',
               'cumsum', 'diff', 'gradient', 'trapz', 'histogram', 'histogram2d',
               'polyval', 'polyfit', 'astype', 'tolist', 'format', 'str', 'repr',
               'bool', 'enumerate', 'zip', 'reversed', 'isinstance', 'DataFrame'}
# numpy calls that may return a view / the same object as their argument
ALIAS_CALLS = {'asarray', 'atleast_1d', 'atleast_2d', 'ravel', 'reshape',
               'squeeze', 'transpose', 'flatten_view', 'asanyarray',
               'broadcast_to', 'expand_dims', 'swapaxes', 'T', 'view'}
LIST_MUTATORS = {'append', 'insert', 'extend', 'pop', 'remove', 'clear',
                 'sort', 'reverse'}


class Store:
    __slots__ = ('func', 'stmt', 'target', 'base_t', 'attr', 'subscript',
                 'aug', 'fresh', 'value', 'kind')

    def __init__(self, func, stmt, target, base_t, attr, subscript, aug,
                 fresh, value, kind='assign'):
        self.func = func
        self.stmt = stmt
        self.target = target
        self.base_t = base_t
        self.attr = attr
        self.subscript = subscript
        self.aug = aug
        self.fresh = fresh
        self.value = value
        self.kind = kind

    def __repr__(self):
        return f'<Store {self.func.qual} {self.base_t}.{self.attr} ' \
               f'{"fresh" if self.fresh else ""}>'


def _root(e):
    while isinstance(e, (ast.Attribute, ast.Subscript)):
        e = e.value
    return e


def _is_fresh_expr(e, fresh_names, P, env, cn):
    """value is a newly created object (not an alias of pre-existing state)."""
    if isinstance(e, ast.Constant):
        return True
    if isinstance(e, (ast.BinOp, ast.UnaryOp, ast.Compare, ast.BoolOp,
                      ast.ListComp, ast.List, ast.Dict, ast.Tuple, ast.Set,
                      ast.DictComp, ast.SetComp, ast.GeneratorExp, ast.JoinedStr)):
        return True
    if isinstance(e, ast.Name):
        return e.id in fresh_names
    if isinstance(e, ast.Call):
        f = e.func
        name = f.attr if isinstance(f, ast.Attribute) else (
            f.id if isinstance(f, ast.Name) else None)
        if isinstance(f, ast.Name) and f.id in P.classes:
            return True
        if name in ALIAS_CALLS:
            return False
        if name in FRESH_CALLS:
            return True
        if name == 'copy':
            return True
        return False
    if isinstance(e, ast.Subscript):
        # element / slice of a fresh container is (part of) a fresh object
        r = _root(e)
        return isinstance(r, ast.Name) and r.id in fresh_names
    if isinstance(e, ast.Attribute):
        r = _root(e)
        return isinstance(r, ast.Name) and r.id in fresh_names
    if isinstance(e, ast.IfExp):
        return _is_fresh_expr(e.body, fresh_names, P, env, cn) and \
            _is_fresh_expr(e.orelse, fresh_names, P, env, cn)
    return False


class FuncEffects:
    def __init__(self, func):
        self.func = func
        self.stores = []        # Store
        self.mutcalls = []      # (call node, base expr, base_t, method, stmt, fresh)
        self.calls = []         # (call node, [Func] | None, stmt)
        self.param_mut = []     # (param name, stmt, how)
        self.fresh_names = set()
        self.alias = {}         # local name -> param name it may alias


class Effects:
    def __init__(self, P):
        self.P = P
        self.fe = {}
        for f in P.all_funcs():
            self.fe[f.qual] = self._analyse(f)
        self._closure_cache = {}
        self._succ = {}

    # ------------------------------------------------------------ per function
    def _analyse(self, func):
        P, cn = self.P, func.cls
        fe = FuncEffects(func)
        params = set(func.params)
        a = func.node.args
        if a.vararg:
            params.add(a.vararg.arg)
        if a.kwarg:
            params.add(a.kwarg.arg)
        # parameters whose default is a numeric / string literal are scalars by
        # the API: an augmented assignment rebinds the local, nothing to alias
        scalar = set()
        pos = a.posonlyargs + a.args
        for x, d in list(zip(pos[len(pos) - len(a.defaults):], a.defaults)) + \
                [(x, d) for x, d in zip(a.kwonlyargs, a.kw_defaults) if d]:
            # (a text default often stands for "name or object":
            # distribution='hexapolar' also takes a Distribution instance)
            if isinstance(d, ast.Constant) and isinstance(
                    d.value, (int, float, bool)) and d.value is not None:
                scalar.add(x.arg)
        alias = {p: p for p in params if p not in scalar}
        fresh = set()
        fe.alias = alias

        top = {id(st) for st in func.node.body}

        def note_assign(name, value, env, conditional=False):
            if _is_fresh_expr(value, fresh, P, env, cn):
                if conditional and name in params and name in alias:
                    # a parameter re-bound on one path only (`if isinstance(
                    # d, str): d = create(d)`) is still the caller's object
                    # on the other
                    return
                fresh.add(name)
                alias.pop(name, None)
            else:
                fresh.discard(name)
                r = value
                # alias propagation: x = p, x = p[...] (view), x = np.asarray(p)
                src = None
                if isinstance(r, ast.Name):
                    src = r.id
                elif isinstance(r, ast.Attribute) and isinstance(
                        _root(r), ast.Name) and _root(r).id not in (
                        'self', 'cls', 'np') and _root(r).id in alias:
                    # an array held by a caller-owned object
                    src = _root(r).id
                elif isinstance(r, ast.Subscript) and isinstance(
                        _root(r), ast.Name) and isinstance(r.slice, ast.Slice):
                    src = _root(r).id
                elif isinstance(r, ast.Call):
                    f = r.func
                    nm = f.attr if isinstance(f, ast.Attribute) else (
                        f.id if isinstance(f, ast.Name) else None)
                    if nm in ALIAS_CALLS and r.args and \
                            isinstance(r.args[0], ast.Name):
                        src = r.args[0].id
                    elif nm in ALIAS_CALLS and isinstance(f, ast.Attribute) \
                            and isinstance(f.value, ast.Name) and \
                            f.value.id not in ('np',):
                        src = f.value.id
                elif isinstance(r, ast.IfExp):
                    for b in (r.body, r.orelse):
                        if isinstance(b, ast.Name) and b.id in alias:
                            src = b.id
                if src is not None and src in alias:
                    alias[name] = alias[src]
                elif conditional and name in params and name in alias:
                    pass        # still the caller's object on the other path
                else:
                    alias.pop(name, None)

        def visit(s, env):
            # ---- stores
            tgts = []
            aug = False
            value = getattr(s, 'value', None)
            if isinstance(s, ast.Assign):
                tgts = s.targets
            elif isinstance(s, ast.AugAssign):
                tgts = [s.target]
                aug = True
            elif isinstance(s, ast.AnnAssign) and s.value is not None:
                tgts = [s.target]
            elif isinstance(s, ast.Delete):
                tgts = s.targets
            elif isinstance(s, ast.For):
                # loop variable: alias of elements of iterable
                it = s.iter
                r = _root(it) if isinstance(it, (ast.Attribute, ast.Subscript)) \
                    else it
                for t in ast.walk(s.target):
                    if isinstance(t, ast.Name):
                        if isinstance(r, ast.Name) and r.id in fresh:
                            fresh.add(t.id)
                        else:
                            fresh.discard(t.id)
                        if isinstance(it, ast.Name) and it.id in alias:
                            alias[t.id] = alias[it.id]
                        else:
                            alias.pop(t.id, None)
            flat = []
            for t in tgts:
                if isinstance(t, (ast.Tuple, ast.List)):
                    vals = value.elts if isinstance(value, (ast.Tuple, ast.List)) \
                        and len(value.elts) == len(t.elts) else [None] * len(t.elts)
                    flat += list(zip(t.elts, vals))
                else:
                    flat.append((t, value))
            for t, v in flat:
                if isinstance(t, ast.Name):
                    if aug:
                        if t.id in alias and t.id not in fresh:
                            fe.param_mut.append((alias[t.id], s,
                                                 f'in-place {unparse(s)}'))
                    elif isinstance(s, ast.Delete):
                        pass
                    elif v is not None:
                        note_assign(t.id, v, env, id(s) not in top)
                    else:
                        # tuple unpack from call etc.: unknown, not fresh
                        fresh.discard(t.id)
                        if isinstance(value, ast.Call) or value is None:
                            alias.pop(t.id, None)
                        # comprehension-built list of per-element values:
                        # fresh only if the element expression creates a new
                        # object; `[f(v) for v in (a, b)]` with an unknown f
                        # may hand the arguments back (a, b = ... keeps the
                        # targets aliased to the sources)
                        if isinstance(value, ast.ListComp):
                            gen = value.generators[0]
                            elt_fresh = len(value.generators) == 1 and \
                                _is_fresh_expr(value.elt, fresh, P, env, cn)
                            if elt_fresh:
                                fresh.add(t.id)
                            elif isinstance(gen.iter, (ast.Tuple, ast.List)) \
                                    and len(tgts) == 1 and isinstance(
                                        tgts[0], (ast.Tuple, ast.List)) and \
                                    len(gen.iter.elts) == len(tgts[0].elts):
                                i_ = [x for x in tgts[0].elts].index(t)
                                src_ = gen.iter.elts[i_]
                                if isinstance(src_, ast.Name) and \
                                        src_.id in alias:
                                    alias[t.id] = alias[src_.id]
                    continue
                tt = t
                sub = False
                while isinstance(tt, ast.Subscript):
                    tt = tt.value
                    sub = True
                if isinstance(tt, ast.Attribute):
                    bt = P.expr_t(tt.value, env, cn)
                    r = _root(tt)
                    isfresh = isinstance(r, ast.Name) and r.id in fresh
                    fe.stores.append(Store(func, s, t, bt, tt.attr, sub, aug,
                                           isfresh, v,
                                           'delete' if isinstance(s, ast.Delete)
                                           else 'assign'))
                elif isinstance(tt, ast.Name) and sub:
                    # subscript store into a local / parameter
                    if tt.id in alias and tt.id not in fresh:
                        fe.param_mut.append((alias[tt.id], s,
                                             f'subscript store {unparse(s)}'))
            # ---- calls
            for c in calls_in(s):
                r = P.resolve_call(c, env, func)
                fe.calls.append((c, r, s))
                f = c.func
                if isinstance(f, ast.Attribute) and f.attr in LIST_MUTATORS:
                    base = f.value
                    rb = _root(base)
                    isfresh = isinstance(rb, ast.Name) and rb.id in fresh
                    if isinstance(base, ast.Attribute):
                        bt = P.expr_t(base.value, env, cn)
                        fe.mutcalls.append((c, base, bt, f.attr, s, isfresh))
                    elif isinstance(base, ast.Name) and base.id in alias \
                            and base.id not in fresh:
                        fe.param_mut.append((alias[base.id], s,
                                             f'list mutator {unparse(c)}'))
                if isinstance(f, ast.Name) and f.id == 'setattr' and c.args:
                    bt = P.expr_t(c.args[0], env, cn)
                    attr = c.args[1].value if len(c.args) > 1 and isinstance(
                        c.args[1], ast.Constant) else '*'
                    fe.stores.append(Store(func, s, c, bt, attr, False, False,
                                           False, None, 'setattr'))
        P.walk_fn(func, visit)
        fe.fresh_names = fresh
        return fe

    # ------------------------------------------------------------ call graph
    def callees(self, func, name_based=True):
        out = []
        for c, r, s in self.fe[func.qual].calls:
            if r is None and name_based:
                f = c.func
                if isinstance(f, ast.Attribute):
                    out += self.P.name_based(f.attr)
            elif r:
                out += r
        # property reads are calls too
        env = None
        return out

    def prop_reads(self, func):
        """properties (repo-defined) read in func: Attribute loads whose base
        type has a property of that name."""
        P = self.P
        out = []
        env = P.local_env(func)
        for n in ast.walk(func.node):
            if isinstance(n, ast.Attribute) and isinstance(n.ctx, ast.Load):
                bt = P.expr_t(n.value, env, func.cls)
                if isinstance(bt, str):
                    for c in P.mro(bt):
                        if n.attr in P.classes[c].props:
                            out.append(P.classes[c].props[n.attr])
                            break
                    else:
                        for c in P.subclasses(bt):
                            if n.attr in P.classes[c].props:
                                out.append(P.classes[c].props[n.attr])
        return out

    def succ(self, f):
        c = self._succ.get(f.qual)
        if c is None:
            c = self.callees(f) + self.prop_reads(f)
            self._succ[f.qual] = c
        return c

    def closure(self, entry, stop=lambda f: False):
        """set of functions reachable from entry (Func) through calls and
        property reads."""
        key = entry.qual
        seen = {}
        stack = [(entry, None)]
        while stack:
            f, parent = stack.pop()
            if f.qual in seen:
                continue
            seen[f.qual] = (f, parent)
            if stop(f):
                continue
            for g in self.succ(f):
                if g.qual not in seen:
                    stack.append((g, f.qual))
        return seen

    def chain(self, seen, qual):
        out = []
        while qual is not None:
            out.append(qual)
            qual = seen[qual][1]
        return out[::-1]

    # --------------------------------------------------------- who-may-write
    def writers(self, owner_classes, attr, include_fresh=False):
        """all stores to attr whose base type is one of owner_classes (or a
        subclass / superclass of one)."""
        P = self.P
        fam = set()
        for c in owner_classes:
            fam |= set(P.mro(c)) | set(P.subclasses(c))
        out = []
        for fe in self.fe.values():
            for st in fe.stores:
                if st.attr != attr:
                    continue
                if isinstance(st.base_t, str) and st.base_t in fam:
                    if include_fresh or not st.fresh:
                        out.append(st)
                elif st.base_t is None:
                    out.append(st)  # unknown base: reported as candidate
        return out

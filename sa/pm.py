"""E0 -- program model and type resolution for /repo/optiland (ast only).

Parses every module of the package, builds the class table (names are unique
across the package), MRO, methods / properties, and a small type inference:
attribute types from constructor stores, list element types, return types by
fix-point.  Call resolution is receiver type -> class-hierarchy analysis.
Nothing is imported or executed.
"""
import ast
import os
import collections

SKIP_QUICK = ('visualization', 'samples')

# name -> class table confirmed by reading (DESIGN appendix A.1)
NAME_T = {
    'optic': 'Optic', 'lens': 'Optic', 'rays': 'RealRays', 'surface': 'Surface',
    'surf': 'Surface', 'new_surface': 'Surface', 'geometry': 'BaseGeometry',
    'cs': 'CoordinateSystem', 'coordinate_system': 'CoordinateSystem',
    'material': 'BaseMaterial', 'material_pre': 'BaseMaterial',
    'material_post': 'BaseMaterial', 'problem': 'OptimizationProblem',
    'tolerancing': 'Tolerancing', 'sampler': 'BaseSampler',
    'coating': 'BaseCoating', 'bsdf': 'BaseBSDF', 'aperture': 'BaseAperture',
    'state': 'PolarizationState', 'distribution': 'BaseDistribution',
    'surface_group': 'SurfaceGroup', 'field': 'Field',
    'perturbation': 'Perturbation', 'var': 'Variable', 'variable': 'Variable',
    'pickup': 'Pickup', 'solve': 'BaseSolve', 'wavelength_obj': 'Wavelength',
    'operand': 'Operand', 'compensator': 'CompensatorOptimizer',
    'optimizer': 'OptimizerGeneric', 'obj': 'ObjectSurface',
}

EXT_ROOTS = {'np', 'plt', 'math', 'os', 'warnings', 'pd', 'optimize', 'json',
             'yaml', 're', 'sns', 'requests', 'tempfile', 'mticker', 'R',
             'vtk', 'mpl', 'patches', 'Levenshtein', 'time', 'sys', 'scipy',
             'special', 'stats', 'copy', 'numba', 'nb', 'importlib',
             'resources', 'tabulate', 'itertools', 'functools', 'abc',
             'matplotlib', 'ndimage', 'interpolate', 'colors', 'cm', 'gridspec',
             'zoom', 'contextlib', 'io', 'codecs', 'pkg_resources'}
BUILTINS = set(dir(__builtins__)) if not isinstance(__builtins__, dict) \
    else set(__builtins__)


CONTAINER_METHODS = {'get', 'update', 'add', 'items', 'keys', 'values',
                     'append', 'extend', 'pop', 'insert', 'remove', 'sort',
                     'setdefault', 'copy', 'index', 'count', 'join', 'split',
                     'strip', 'lower', 'upper', 'startswith', 'endswith',
                     'format', 'replace', 'issubset', 'tolist', 'astype',
                     'flatten', 'ravel', 'reshape', 'squeeze', 'any', 'all',
                     'sum', 'mean', 'max', 'min', 'size', 'fill', 'dot',
                     'encode', 'decode', 'read', 'write', 'close', 'readlines'}


class AnalysisError(Exception):
    """The analysis cannot stand (anchor vanished, construct outside fragment)."""


class Missing(AnalysisError):
    """the function a rule is anchored in is there, but the statement the
    obligation is about is not (deleted, or made unrecognisable): that is a
    failed obligation, not a failed analysis.  `core.run_rule` turns it into
    a finding of the given rule."""

    def __init__(self, rule, func, construct, message):
        super().__init__(f'{rule}: {message}')
        self.rule, self.func, self.construct, self.message = \
            rule, func, construct, message



class Func:
    def __init__(self, name, cls, module, node, kind):
        self.name = name
        self.cls = cls
        self.module = module
        self.node = node
        self.kind = kind

    @property
    def qual(self):
        return f'{self.cls}.{self.name}' if self.cls else \
            f'{self.module}:{self.name}'

    @property
    def params(self):
        a = self.node.args
        names = [x.arg for x in a.posonlyargs + a.args]
        if self.kind in ('method', 'property', 'setter', 'classmethod') and names:
            names = names[1:]
        return names

    def __repr__(self):
        return f'<Func {self.qual}>'


class Cls:
    def __init__(self, name, module, node):
        self.name = name
        self.module = module
        self.node = node
        self.bases = []
        self.methods = {}
        self.props = {}
        self.setters = {}
        self.assigns = {}

    def own(self, name):
        return self.methods.get(name) or self.props.get(name)


def _deco_names(fn):
    out = []
    for d in fn.decorator_list:
        if isinstance(d, ast.Name):
            out.append(d.id)
        elif isinstance(d, ast.Attribute):
            out.append(d.attr)
        elif isinstance(d, ast.Call):
            f = d.func
            out.append(f.id if isinstance(f, ast.Name) else getattr(f, 'attr', ''))
    return out


class Program:
    def __init__(self, root='/repo', include_all=False, prune_guards=False):
        self.root = root
        self.pkg = os.path.join(root, 'optiland')
        self.modules = {}
        self.sources = {}
        self.classes = {}
        self.funcs = {}
        self.include_all = include_all
        # statements under a one-armed guard that the reference tree does not
        # have run only sometimes: the pruned model is the tree without them
        self.prune_guards = prune_guards
        self.added_guards = []
        self._load()
        self._mro_cache = {}
        self._sub_cache = {}
        self.attr_t = collections.defaultdict(dict)
        self.ret_t = {}
        self._infer()

    # ------------------------------------------------------------------ load
    def _load(self):
        if not os.path.isdir(self.pkg):
            raise AnalysisError(f'package directory {self.pkg} not found')
        for dp, dn, fn in os.walk(self.pkg):
            dn[:] = sorted(d for d in dn if d != '__pycache__')
            for f in sorted(fn):
                if not f.endswith('.py'):
                    continue
                p = os.path.join(dp, f)
                rel = os.path.relpath(p, self.root)
                if not self.include_all and any(
                        ('/' + s + '/') in '/' + rel for s in SKIP_QUICK):
                    continue
                src = open(p, encoding='utf-8').read()
                try:
                    tree = ast.parse(src, p)
                except SyntaxError as e:
                    raise AnalysisError(f'{rel}: does not parse: {e}')
                from . import canon
                self.renamed_locals = getattr(self, 'renamed_locals', 0) + \
                    canon.canonicalise(rel, tree, src=src)
                self.modules[rel] = tree
                self.sources[rel] = src
        from . import canon
        self.idioms_restored, self.idiom_note = canon.restore_package(
            self.modules, self.sources)
        self._find_added_guards()

    def _find_added_guards(self):
        from . import canon
        dig = canon.load_table().get('__digests__', {})
        import hashlib
        jumps = (ast.Return, ast.Raise, ast.Continue, ast.Break)
        ref = None
        for rel, tree in self.modules.items():
            if dig.get(rel) == hashlib.sha1(
                    self.sources[rel].encode()).hexdigest():
                continue
            if ref is None:
                ref = canon.reference_tests()
                if not ref:
                    return
            for owner in ast.walk(tree):
                for fld in ('body', 'orelse', 'finalbody'):
                    blk = getattr(owner, fld, None)
                    if not (isinstance(blk, list) and blk and
                            isinstance(blk[0], ast.stmt)):
                        continue
                    for i, st in enumerate(blk):
                        if not (isinstance(st, ast.If) and not st.orelse):
                            continue
                        txt = ' '.join(unparse(st.test, 10000).split())
                        if txt in ref:
                            continue
                        if any(isinstance(x, jumps) for b in st.body
                               for x in ast.walk(b)):
                            continue
                        self.added_guards.append((rel, st.lineno, txt))
                        if self.prune_guards:
                            blk[i] = ast.copy_location(ast.Pass(), st)
        for rel, tree in self.modules.items():
            for n in tree.body:
                if isinstance(n, ast.ClassDef):
                    self._add_class(rel, n)
                elif isinstance(n, ast.FunctionDef):
                    self.funcs[(rel, n.name)] = Func(n.name, None, rel, n,
                                                     'function')

    def _add_class(self, rel, n):
        c = Cls(n.name, rel, n)
        self.classes[n.name] = c
        for b in n.bases:
            c.bases.append(b.id if isinstance(b, ast.Name) else
                           (b.attr if isinstance(b, ast.Attribute) else None))
        for m in n.body:
            if isinstance(m, ast.FunctionDef):
                d = _deco_names(m)
                if 'property' in d:
                    c.props[m.name] = Func(m.name, n.name, rel, m, 'property')
                elif 'setter' in d:
                    c.setters[m.name] = Func(m.name, n.name, rel, m, 'setter')
                elif 'staticmethod' in d:
                    c.methods[m.name] = Func(m.name, n.name, rel, m, 'static')
                elif 'classmethod' in d:
                    c.methods[m.name] = Func(m.name, n.name, rel, m,
                                             'classmethod')
                else:
                    c.methods[m.name] = Func(m.name, n.name, rel, m, 'method')
            elif isinstance(m, ast.Assign):
                for t in m.targets:
                    if isinstance(t, ast.Name):
                        c.assigns[t.id] = m.value

    # ------------------------------------------------------------- hierarchy
    def mro(self, cn):
        if cn in self._mro_cache:
            return self._mro_cache[cn]
        out, seen = [], set()

        def rec(x):
            if x in seen or x not in self.classes:
                return
            seen.add(x)
            out.append(x)
            for b in self.classes[x].bases:
                rec(b)
        rec(cn)
        self._mro_cache[cn] = out
        return out

    def subclasses(self, cn):
        if cn not in self._sub_cache:
            self._sub_cache[cn] = [c for c in self.classes
                                   if cn in self.mro(c)]
        return self._sub_cache[cn]

    def lookup(self, cn, name):
        for c in self.mro(cn):
            f = self.classes[c].own(name)
            if f is not None:
                return f
        return None

    def func(self, qual):
        """'Class.method' -> Func (own or inherited) or AnalysisError."""
        cn, _, mn = qual.partition('.')
        if cn not in self.classes:
            raise AnalysisError(f'anchor class {cn} not found')
        f = self.lookup(cn, mn)
        if f is None:
            raise AnalysisError(f'anchor {qual} not found')
        return f

    def has(self, qual):
        cn, _, mn = qual.partition('.')
        return cn in self.classes and self.lookup(cn, mn) is not None

    def all_funcs(self):
        for c in self.classes.values():
            for f in list(c.methods.values()) + list(c.props.values()) + \
                    list(c.setters.values()):
                yield f
        for f in self.funcs.values():
            yield f

    def module_funcs(self, name):
        return [f for (rel, n), f in self.funcs.items() if n == name]

    def loc(self, func, node=None):
        return func.module, getattr(node if node is not None else func.node,
                                    'lineno', 0)

    # --------------------------------------------------------- type inference
    def ann_t(self, a):
        if a is None:
            return None
        if isinstance(a, ast.Name) and a.id in self.classes:
            return a.id
        if isinstance(a, ast.Constant) and isinstance(a.value, str) \
                and a.value in self.classes:
            return a.value
        if isinstance(a, ast.Subscript) and isinstance(a.value, ast.Name) \
                and a.value.id in ('List', 'list'):
            t = self.ann_t(a.slice)
            return ('list', t)
        return None

    def attr_type(self, bt, attr):
        if not isinstance(bt, str):
            return None
        for c in self.mro(bt):
            if attr in self.attr_t[c]:
                return self.attr_t[c][attr]
            if attr in self.classes[c].props:
                return self.ret_t.get((c, attr))
        for c in self.subclasses(bt):
            if attr in self.attr_t[c]:
                return self.attr_t[c][attr]
        return None

    def expr_t(self, e, env, cn):
        if isinstance(e, ast.Name):
            if e.id == 'self' and cn:
                return cn
            if e.id == 'cls' and cn:
                return ('cls', cn)
            if e.id in env:
                return env[e.id]
            if e.id in self.classes:
                return ('cls', e.id)
            return None
        if isinstance(e, ast.Attribute):
            bt = self.expr_t(e.value, env, cn)
            if isinstance(bt, str):
                return self.attr_type(bt, e.attr)
            if isinstance(bt, tuple) and bt[0] == 'cls' and e.attr == '_registry':
                return ('dict', None, ('cls', bt[1]))
            return None
        if isinstance(e, ast.Call):
            f = e.func
            if isinstance(f, ast.Name):
                if f.id in self.classes:
                    return f.id
                if f.id == 'deepcopy' and e.args:
                    return self.expr_t(e.args[0], env, cn)
                if f.id == 'enumerate' and e.args:
                    t = self.expr_t(e.args[0], env, cn)
                    if isinstance(t, tuple) and t[0] == 'list':
                        return ('list', ('tuple', [None, t[1]]))
                    return None
                if f.id in ('list', 'reversed', 'sorted') and e.args:
                    return self.expr_t(e.args[0], env, cn)
                if f.id == 'zip' and e.args:
                    ts = [self.expr_t(a, env, cn) for a in e.args]
                    return ('list', ('tuple', [
                        t[1] if isinstance(t, tuple) and t[0] == 'list' else None
                        for t in ts]))
                if f.id == 'cls' and cn:
                    return cn
                if f.id in env and isinstance(env[f.id], tuple) \
                        and env[f.id][0] == 'cls':
                    return env[f.id][1]
                for fn in self.module_funcs(f.id):
                    r = self.ret_t.get((None, fn.module, fn.name))
                    if r is not None:
                        return r
                return None
            if isinstance(f, ast.Attribute):
                if isinstance(f.value, ast.Name) and f.value.id == 'copy' \
                        and f.attr == 'deepcopy' and e.args:
                    return self.expr_t(e.args[0], env, cn)
                bt = self.expr_t(f.value, env, cn)
                if isinstance(bt, tuple) and bt[0] == 'dict' and f.attr == 'get':
                    return bt[2]
                if f.attr == 'get' and bt is None:
                    ct = self._dict_class_type(f.value, env, cn)
                    if ct:
                        return ct
                if isinstance(bt, tuple) and bt[0] == 'cls':
                    r = self.lookup(bt[1], f.attr)
                    if r:
                        if r.kind == 'classmethod' and f.attr in (
                                'from_dict', '_from_dict'):
                            return bt[1]
                        return self.ret_t.get((r.cls, f.attr))
                    return None
                if isinstance(bt, str):
                    r = self.lookup(bt, f.attr)
                    if r:
                        return self.ret_t.get((r.cls, f.attr))
                    for c in self.subclasses(bt):
                        if f.attr in self.classes[c].methods and \
                                (c, f.attr) in self.ret_t:
                            return self.ret_t[(c, f.attr)]
            if isinstance(f, ast.Subscript):
                bt = self.expr_t(f, env, cn)
                if isinstance(bt, tuple) and bt[0] == 'cls':
                    return bt[1]
            return None
        if isinstance(e, ast.Subscript):
            bt = self.expr_t(e.value, env, cn)
            if isinstance(bt, tuple) and bt[0] == 'list':
                if isinstance(e.slice, ast.Slice):
                    return bt
                return bt[1]
            if isinstance(bt, tuple) and bt[0] == 'dict':
                return bt[2]
            if bt is None:
                ct = self._dict_class_type(e.value, env, cn)
                if ct:
                    return ct
            if isinstance(bt, tuple) and bt[0] == 'tuple' and \
                    isinstance(e.slice, ast.Constant) and \
                    isinstance(e.slice.value, int) and \
                    -len(bt[1]) <= e.slice.value < len(bt[1]):
                return bt[1][e.slice.value]
            return None
        if isinstance(e, ast.List):
            if e.elts:
                return ('list', self.expr_t(e.elts[0], env, cn))
            return ('list', None)
        if isinstance(e, ast.ListComp):
            env2 = dict(env)
            for g in e.generators:
                self.bind_for(g.target, g.iter, env2, cn)
            return ('list', self.expr_t(e.elt, env2, cn))
        if isinstance(e, ast.Tuple):
            return ('tuple', [self.expr_t(x, env, cn) for x in e.elts])
        if isinstance(e, ast.IfExp):
            return self.expr_t(e.body, env, cn) or \
                self.expr_t(e.orelse, env, cn)
        if isinstance(e, ast.BoolOp):
            for v in e.values:
                t = self.expr_t(v, env, cn)
                if t:
                    return t
        return None

    def common_base(self, names):
        names = [n for n in names if n in self.classes]
        if not names:
            return None
        for cand in self.mro(names[0]):
            if all(cand in self.mro(n) for n in names):
                return cand
        return None

    def _dict_class_type(self, e, env, cn):
        func = env.get('__func__')
        if func is None or not isinstance(e, (ast.Name, ast.Attribute)):
            return None
        d = self._find_dict(e, func, cn)
        if d is None or not d.values:
            return None
        names = [v.id for v in d.values if isinstance(v, ast.Name)]
        if len(names) != len(d.values):
            return None
        cb = self.common_base(names)
        return ('cls', cb) if cb else None

    def join_t(self, a, b):
        if a is None:
            return b
        if b is None or a == b:
            return a
        if isinstance(a, str) and isinstance(b, str):
            return self.common_base([a, b]) or a
        if isinstance(a, tuple) and isinstance(b, tuple) and a[0] == b[0] == 'list':
            return ('list', self.join_t(a[1], b[1]))
        return a

    def bind_for(self, target, it, env, cn):
        t = self.expr_t(it, env, cn)
        if isinstance(t, tuple) and t[0] == 'list':
            el = t[1]
            if isinstance(target, ast.Name):
                if el is not None:
                    env[target.id] = el
            elif isinstance(target, ast.Tuple) and isinstance(el, tuple) \
                    and el[0] == 'tuple':
                for tt, et in zip(target.elts, el[1]):
                    if isinstance(tt, ast.Name) and et is not None:
                        env[tt.id] = et
        if isinstance(target, ast.Name) and target.id not in env \
                and target.id in NAME_T and NAME_T[target.id] in self.classes:
            env[target.id] = NAME_T[target.id]

    def fn_env(self, func):
        env = {'__func__': func}
        a = func.node.args
        for x in a.posonlyargs + a.args + a.kwonlyargs:
            t = self.ann_t(x.annotation)
            if t is None:
                nt = NAME_T.get(x.arg)
                if nt in self.classes:
                    t = nt
            if t is not None:
                env[x.arg] = t
        return env

    def bind_assign(self, s, env, cn):
        """update env for an Assign statement (flow-insensitive-ish)."""
        t = self.expr_t(s.value, env, cn)
        for tg in s.targets:
            if isinstance(tg, ast.Name):
                if t is not None:
                    env[tg.id] = t
                elif tg.id in NAME_T and tg.id not in env and \
                        NAME_T[tg.id] in self.classes:
                    env[tg.id] = NAME_T[tg.id]
            elif isinstance(tg, ast.Tuple):
                if isinstance(s.value, ast.Tuple):
                    for a, b in zip(tg.elts, s.value.elts):
                        if isinstance(a, ast.Name):
                            tt = self.expr_t(b, env, cn)
                            if tt is not None:
                                env[a.id] = tt
                elif isinstance(t, tuple) and t[0] == 'tuple':
                    for a, tt in zip(tg.elts, t[1]):
                        if isinstance(a, ast.Name) and tt is not None:
                            env[a.id] = tt

    def walk_fn(self, func, visit):
        """process statements in order, binding local types; visit(stmt, env)."""
        cn = func.cls
        env = self.fn_env(func)

        def stmts(body):
            for s in body:
                if isinstance(s, ast.Assign):
                    self.bind_assign(s, env, cn)
                elif isinstance(s, ast.For):
                    self.bind_for(s.target, s.iter, env, cn)
                elif isinstance(s, ast.With):
                    for it in s.items:
                        if isinstance(it.optional_vars, ast.Name):
                            t = self.expr_t(it.context_expr, env, cn)
                            if t is not None:
                                env[it.optional_vars.id] = t
                for ex in stmt_exprs(s):
                    for n in ast.walk(ex):
                        if isinstance(n, (ast.ListComp, ast.GeneratorExp,
                                          ast.SetComp, ast.DictComp)):
                            for g in n.generators:
                                self.bind_for(g.target, g.iter, env, cn)
                visit(s, env)
                for fld in ('body', 'orelse', 'finalbody'):
                    v = getattr(s, fld, None)
                    if isinstance(v, list) and v and isinstance(v[0], ast.stmt):
                        stmts(v)
                if isinstance(s, ast.Try):
                    for h in s.handlers:
                        stmts(h.body)
        stmts(func.node.body)
        return env

    def local_env(self, func):
        """final local type environment of a function."""
        return self.walk_fn(func, lambda s, env: None)

    def _infer(self):
        for _ in range(4):
            for f in list(self.all_funcs()):
                cn = f.cls

                def visit(s, env, cn=cn, f=f):
                    if isinstance(s, ast.Assign):
                        t = self.expr_t(s.value, env, cn)
                        for tg in s.targets:
                            if isinstance(tg, ast.Attribute) and \
                                    isinstance(tg.value, ast.Name) and \
                                    tg.value.id == 'self' and cn:
                                tt = t
                                if tt is None and isinstance(s.value, ast.Name):
                                    nt = NAME_T.get(s.value.id)
                                    tt = nt if nt in self.classes else None
                                cur = self.attr_t[cn].get(tg.attr)
                                if tt is not None and (
                                        cur is None or cur == ('list', None)):
                                    self.attr_t[cn][tg.attr] = tt
                    if isinstance(s, ast.Return) and s.value is not None:
                        t = self.expr_t(s.value, env, cn)
                        key = (cn, f.name) if cn else (None, f.module, f.name)
                        if t is not None:
                            self.ret_t[key] = self.join_t(
                                self.ret_t.get(key), t)
                    if isinstance(s, ast.Expr) and isinstance(s.value, ast.Call):
                        fx = s.value.func
                        if isinstance(fx, ast.Attribute) and \
                                fx.attr in ('append', 'insert') and \
                                isinstance(fx.value, ast.Attribute) and \
                                isinstance(fx.value.value, ast.Name) and \
                                fx.value.value.id == 'self' and cn and \
                                s.value.args:
                            t = self.expr_t(s.value.args[-1], env, cn)
                            cur = self.attr_t[cn].get(fx.value.attr)
                            if t and cur in (None, ('list', None)):
                                self.attr_t[cn][fx.value.attr] = ('list', t)
                self.walk_fn(f, visit)

    # ------------------------------------------------------- call resolution
    def _dict_callables(self, node, env, cn, depth=0):
        out = []
        if isinstance(node, ast.Dict) and depth < 3:
            for v in node.values:
                out += self._dict_callables(v, env, cn, depth + 1)
            return out
        if isinstance(node, ast.Name):
            if node.id in self.classes:
                r = self.lookup(node.id, '__init__')
                out.append(r if r else ('ctor', node.id))
            else:
                out += self.module_funcs(node.id)
        elif isinstance(node, ast.Attribute):
            bt = self.expr_t(node.value, env, cn)
            if isinstance(bt, tuple) and bt[0] == 'cls':
                bt = bt[1]
            if isinstance(bt, str):
                r = self.lookup(bt, node.attr)
                if r:
                    out.append(r)
        return out

    def _find_dict(self, e, func, cn, depth=0):
        """the Dict literal a name/attribute is bound to (same function, class
        level, or a self.attr store anywhere in the class)."""
        if depth > 3:
            return None
        if isinstance(e, ast.Name):
            tab = self._dict_tab(func)
            v = tab.get(e.id)
            if isinstance(v, ast.Dict):
                return v
            if v is not None:
                return self._find_dict(v, func, cn, depth + 1)
            return self._mod_dicts(func.module).get(e.id)
        if isinstance(e, ast.Attribute):
            owner = None
            if isinstance(e.value, ast.Name) and e.value.id in ('self', 'cls'):
                owner = cn
            elif isinstance(e.value, ast.Name) and e.value.id in self.classes:
                owner = e.value.id
            if owner:
                for c in self.mro(owner):
                    k = self.classes[c]
                    v = k.assigns.get(e.attr)
                    if isinstance(v, ast.Dict):
                        return v
                    for m in k.methods.values():
                        for n in ast.walk(m.node):
                            if isinstance(n, ast.Assign) and \
                                    isinstance(n.value, ast.Dict):
                                for t in n.targets:
                                    if isinstance(t, ast.Attribute) and \
                                            t.attr == e.attr and \
                                            isinstance(t.value, ast.Name) and \
                                            t.value.id == 'self':
                                        return n.value
        return None

    def _dict_tab(self, func):
        c = self.__dict__.setdefault('_dtab', {})
        if func.qual not in c:
            tab = {}
            for n in ast.walk(func.node):
                if isinstance(n, ast.Assign):
                    for t in n.targets:
                        if isinstance(t, ast.Name):
                            if isinstance(n.value, ast.Dict):
                                tab[t.id] = n.value
                            elif isinstance(n.value, ast.Subscript) and \
                                    t.id not in tab:
                                tab[t.id] = n.value.value
            c[func.qual] = tab
        return c[func.qual]

    def _mod_dicts(self, rel):
        c = self.__dict__.setdefault('_mdict', {})
        if rel not in c:
            tab = {}
            for n in self.modules[rel].body:
                if isinstance(n, ast.Assign) and isinstance(n.value, ast.Dict):
                    for t in n.targets:
                        if isinstance(t, ast.Name):
                            tab[t.id] = n.value
            c[rel] = tab
        return c[rel]

    def resolve_call(self, call, env, func):
        """-> list of Func (possibly empty = external/builtin), or None when the
        receiver is unknown and a repo method of that name exists."""
        cn = func.cls
        f = call.func
        if isinstance(f, ast.Name):
            if f.id in self.classes:
                r = self.lookup(f.id, '__init__')
                return [r] if r else []
            if f.id == 'cls' and cn:
                out = []
                for c in self.subclasses(cn):
                    r = self.lookup(c, '__init__')
                    if r and r not in out:
                        out.append(r)
                return out
            if f.id in env and isinstance(env[f.id], tuple) and \
                    env[f.id][0] == 'cls':
                out = []
                for c in self.subclasses(env[f.id][1]):
                    r = self.lookup(c, '__init__')
                    if r and r not in out:
                        out.append(r)
                return out
            mf = self.module_funcs(f.id)
            if mf:
                return mf
            d = self._find_dict(f, func, cn)
            if d is not None:
                return [x for x in self._dict_callables(d, env, cn)
                        if isinstance(x, Func)]
            return []
        if isinstance(f, ast.Subscript) or (
                isinstance(f, ast.Call) and isinstance(f.func, ast.Attribute)
                and f.func.attr == 'get'):
            base = f.value if isinstance(f, ast.Subscript) else f.func.value
            bt = self.expr_t(base, env, cn)
            if isinstance(bt, tuple) and bt[0] == 'dict' and \
                    isinstance(bt[2], tuple) and bt[2][0] == 'cls':
                out = []
                for c in self.subclasses(bt[2][1]):
                    r = self.lookup(c, '__init__')
                    if r and r not in out:
                        out.append(r)
                return out
            d = self._find_dict(base, func, cn)
            if d is not None:
                return [x for x in self._dict_callables(d, env, cn)
                        if isinstance(x, Func)]
            return []
        if isinstance(f, ast.Attribute):
            if base_name(f) in EXT_ROOTS:
                return []
            if isinstance(f.value, ast.Call) and \
                    isinstance(f.value.func, ast.Name) and \
                    f.value.func.id == 'super':
                for c in self.mro(cn)[1:] if cn else []:
                    r = self.classes[c].own(f.attr)
                    if r:
                        return [r]
                return []
            bt = self.expr_t(f.value, env, cn)
            iscls = False
            if isinstance(bt, tuple) and bt[0] == 'cls':
                bt = bt[1]
                iscls = True
            if isinstance(bt, tuple) and bt[0] == 'dict' and \
                    isinstance(bt[2], tuple) and bt[2][0] == 'cls':
                return []
            if isinstance(bt, str):
                out = []
                r = self.lookup(bt, f.attr)
                if r:
                    out.append(r)
                for c in self.subclasses(bt):
                    r2 = self.classes[c].methods.get(f.attr)
                    if r2 and r2 not in out:
                        out.append(r2)
                if out:
                    return out
                return []
            if isinstance(bt, tuple):
                return []
            # unknown receiver
            if f.attr in CONTAINER_METHODS:
                return []
            definers = [c for c in self.classes.values()
                        if f.attr in c.methods]
            if not definers:
                return []
            return None
        return []

    def name_based(self, attr):
        return [c.methods[attr] for c in self.classes.values()
                if attr in c.methods]


def base_name(e):
    while isinstance(e, (ast.Attribute, ast.Subscript, ast.Call)):
        e = e.func if isinstance(e, ast.Call) else e.value
    return e.id if isinstance(e, ast.Name) else None


def stmt_exprs(s):
    """expressions evaluated by statement s itself (not nested statements)."""
    out = []
    for fld, val in ast.iter_fields(s):
        if fld in ('body', 'orelse', 'finalbody', 'handlers'):
            continue
        if isinstance(val, ast.AST):
            out.append(val)
        elif isinstance(val, list):
            out += [v for v in val if isinstance(v, ast.AST)]
    if isinstance(s, ast.With):
        out = [it.context_expr for it in s.items]
    return out


def calls_in(s):
    """Call nodes of statement s (own expressions only), in evaluation order."""
    out = []

    def rec(n):
        for c in ast.iter_child_nodes(n):
            rec(c)
        if isinstance(n, ast.Call):
            out.append(n)
    for e in stmt_exprs(s):
        rec(e)
    return out


def unparse(n, limit=120):
    s = ast.unparse(n)
    s = ' '.join(s.split())
    return s if len(s) <= limit else s[:limit - 3] + '...'

"""./check <ID> [--tier quick|thorough] [--replay <file>]"""
import argparse
import importlib
import os
import sys

from . import core


def main(argv=None):
    ap = argparse.ArgumentParser()
    ap.add_argument('prop')
    ap.add_argument('--tier', default=os.environ.get('VERIF_TIER', 'quick'),
                    choices=['quick', 'thorough'])
    ap.add_argument('--replay')
    a = ap.parse_args(argv)
    try:
        seed = int(os.environ.get('VERIF_SEED', '0'))
    except ValueError:
        seed = 0
    try:
        mod = importlib.import_module(f'sa.rules.{a.prop}')
    except ModuleNotFoundError:
        print(f'ANALYSIS-ERROR property={a.prop} no rules module')
        return 2
    meta = getattr(mod, 'META', {})
    if a.replay:
        return core.replay(a.prop, mod.RULES, a.replay, meta)
    return core.run_property(a.prop, mod.RULES, a.tier, seed, meta)


if __name__ == '__main__':
    sys.exit(main())

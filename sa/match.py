"""Structural pattern matching over the AST with metavariables (semgrep style).

A pattern is Python source in which `$X` stands for any expression (bound
consistently).  Matching ignores load/store context, formatting, parentheses,
keyword order, and the operand order of `+`, `*`, `|`, `&`, `==`, `!=`.
A metavariable that matched a plain local name is what makes patterns robust
to renaming locals; `$_` matches anything without binding.
"""
import ast
import re

_MV = re.compile(r'\$([A-Za-z_][A-Za-z0-9_]*)')
COMM = (ast.Add, ast.Mult, ast.BitOr, ast.BitAnd)


def parse(src):
    s = _MV.sub(lambda m: f'__mv_{m.group(1)}__', src.strip())
    tree = ast.parse(s)
    if len(tree.body) == 1 and isinstance(tree.body[0], ast.Expr):
        return tree.body[0].value
    if len(tree.body) == 1:
        return tree.body[0]
    return tree.body


def _mv(node):
    if isinstance(node, ast.Name) and node.id.startswith('__mv_') and \
            node.id.endswith('__'):
        return node.id[5:-2]
    return None


def _mvn(node):
    """name-only metavariable (stands for a local variable, whatever its
    spelling): matches an identifier, never a compound expression"""
    if isinstance(node, ast.Name) and node.id.startswith('__mvn_') and \
            node.id.endswith('__'):
        return node.id[6:-2]
    return None


def _same(a, b):
    return ast.dump(_strip(a)) == ast.dump(_strip(b))


def _strip(n):
    class T(ast.NodeTransformer):
        def visit_Name(self, node):
            return ast.Name(id=node.id, ctx=ast.Load())

        def visit_Attribute(self, node):
            self.generic_visit(node)
            return ast.Attribute(value=node.value, attr=node.attr,
                                 ctx=ast.Load())

        def visit_Subscript(self, node):
            self.generic_visit(node)
            return ast.Subscript(value=node.value, slice=node.slice,
                                 ctx=ast.Load())
    import copy
    return T().visit(copy.deepcopy(n))


def match(p, n, b):
    """match pattern node p against node n extending bindings b (dict);
    returns new bindings dict or None."""
    mvn = _mvn(p)
    if mvn is not None:
        if not isinstance(n, ast.Name):
            return None
        key = 'n:' + mvn
        if key in b:
            return b if b[key].id == n.id else None
        nb = dict(b)
        nb[key] = n
        return nb
    mv = _mv(p)
    if mv is not None:
        if mv == '_':
            return b
        if mv in b:
            return b if _same(b[mv], n) else None
        nb = dict(b)
        nb[mv] = n
        return nb
    if isinstance(p, ast.Attribute) and isinstance(n, ast.Attribute):
        # attribute name metavariable is not supported; names must agree
        if p.attr != n.attr:
            return None
        return match(p.value, n.value, b)
    if type(p) is not type(n):
        return None
    if isinstance(p, ast.Constant):
        return b if p.value == n.value and type(p.value) is type(n.value) \
            or (isinstance(p.value, (int, float)) and
                isinstance(n.value, (int, float)) and
                not isinstance(p.value, bool) and
                not isinstance(n.value, bool) and p.value == n.value) else None
    if isinstance(p, ast.Name):
        return b if p.id == n.id else None
    if isinstance(p, ast.BinOp):
        if type(p.op) is not type(n.op):
            return None
        r = match(p.left, n.left, b)
        if r is not None:
            r = match(p.right, n.right, r)
            if r is not None:
                return r
        if isinstance(p.op, COMM):
            r = match(p.left, n.right, b)
            if r is not None:
                r = match(p.right, n.left, r)
                if r is not None:
                    return r
        return None
    if isinstance(p, ast.Compare) and len(p.ops) == 1 and len(n.ops) == 1:
        flip = {ast.Lt: ast.Gt, ast.Gt: ast.Lt, ast.LtE: ast.GtE,
                ast.GtE: ast.LtE, ast.Eq: ast.Eq, ast.NotEq: ast.NotEq}
        if type(p.ops[0]) is type(n.ops[0]):
            r = match(p.left, n.left, b)
            if r is not None:
                r = match(p.comparators[0], n.comparators[0], r)
                if r is not None:
                    return r
        if type(p.ops[0]) in flip and flip[type(p.ops[0])] is type(n.ops[0]):
            r = match(p.left, n.comparators[0], b)
            if r is not None:
                r = match(p.comparators[0], n.left, r)
                if r is not None:
                    return r
        return None
    if isinstance(p, ast.Call):
        r = match(p.func, n.func, b)
        if r is None or len(p.args) != len(n.args):
            return None
        for x, y in zip(p.args, n.args):
            r = match(x, y, r)
            if r is None:
                return None
        pk = {k.arg: k.value for k in p.keywords}
        nk = {k.arg: k.value for k in n.keywords}
        if set(pk) != set(nk):
            return None
        for k in pk:
            r = match(pk[k], nk[k], r)
            if r is None:
                return None
        return r
    for f in p._fields:
        if f in ('ctx', 'type_comment', 'lineno', 'col_offset',
                 'end_lineno', 'end_col_offset', 'kind'):
            continue
        pv, nv = getattr(p, f, None), getattr(n, f, None)
        if isinstance(pv, list):
            if not isinstance(nv, list) or len(pv) != len(nv):
                return None
            for x, y in zip(pv, nv):
                if isinstance(x, ast.AST):
                    b = match(x, y, b)
                    if b is None:
                        return None
                elif x != y:
                    return None
        elif isinstance(pv, ast.AST):
            if not isinstance(nv, ast.AST):
                return None
            b = match(pv, nv, b)
            if b is None:
                return None
        elif pv != nv:
            return None
    return b


def find(root, pattern, binds=None):
    """all (node, bindings) in root (AST node, or Func with .node) matching."""
    p = parse(pattern) if isinstance(pattern, str) else pattern
    root = getattr(root, 'node', root)
    out = []
    for n in ast.walk(root):
        if isinstance(p, ast.expr) != isinstance(n, ast.expr):
            continue
        r = match(p, n, dict(binds or {}))
        if r is not None:
            out.append((n, r))
    return out


def has(root, pattern, binds=None):
    return bool(find(root, pattern, binds))


def find_seq(root, patterns):
    """bindings that satisfy every pattern (each somewhere in root), with
    shared metavariables; returns list of binding dicts."""
    sols = [{}]
    for pat in patterns:
        nxt = []
        for b in sols:
            for n, r in find(root, pat, b):
                nxt.append(r)
        sols = nxt
        if not sols:
            return []
    return sols


def src(node):
    return ' '.join(ast.unparse(node).split())


# --------------------------------------------------------------------------
import builtins as _bi

_HEAD = ('for ', 'if ', 'while ', 'with ', 'elif ', 'def ', 'try', 'else')


class _Missing:
    """position of a fragment that is not there: every ordering comparison
    with it is False, so `a.index(x) < a.index(y)` fails the obligation
    instead of crashing the rule"""

    def __lt__(self, o):
        return False
    __gt__ = __le__ = __ge__ = __lt__

    def __eq__(self, o):
        return False

    def __hash__(self):
        return 0

    def __repr__(self):
        return 'MISSING'


MISSING = _Missing()


class Code:
    """source of a function as a searchable object.

    `snippet in Code(P, f)` is True when the snippet - parsed as Python, with
    every name that is neither a parameter of f, a module-level name, a class
    of the package nor a builtin turned into a metavariable - structurally
    matches some expression / statement of f (formatting, parentheses,
    keyword order, operand order of commutative operators and the names of
    locals are irrelevant).  Fragments that do not parse fall back to text
    search on the normalised (ast.unparse) source.
    """

    def __init__(self, P, func, limit=20000):
        self.P = P
        self.func = func
        self.node = func.node
        self.text = ' '.join(ast.unparse(func.node).split())
        a = func.node.args
        self.fixed = {x.arg for x in a.posonlyargs + a.args + a.kwonlyargs}
        if a.vararg:
            self.fixed.add(a.vararg.arg)
        if a.kwarg:
            self.fixed.add(a.kwarg.arg)
        self.fixed |= {'self', 'cls', 'np', 'math', 'os', 'ast', 'optimize',
                       'warnings', 'pd', 'plt', 'yaml', 're'}
        self.fixed |= set(P.classes)
        self.fixed |= set(dir(_bi))
        tree = P.modules.get(func.module)
        if tree is not None:
            for n in tree.body:
                if isinstance(n, (ast.Import, ast.ImportFrom)):
                    for al in n.names:
                        self.fixed.add((al.asname or al.name).split('.')[0])
                elif isinstance(n, (ast.FunctionDef, ast.ClassDef)):
                    self.fixed.add(n.name)
                elif isinstance(n, ast.Assign):
                    for t in n.targets:
                        if isinstance(t, ast.Name):
                            self.fixed.add(t.id)

    def _pattern(self, snippet):
        sn = snippet.strip()
        if not sn or sn[0] in '[.(,)]:' or sn.endswith((',', '(', '[', '.')):
            return None
        cands = [sn]
        if sn.startswith(_HEAD) and not sn.rstrip().endswith(':'):
            cands = [sn + ':\n    pass']
        elif sn.startswith(_HEAD):
            cands = [sn + '\n    pass']
        for c in cands:
            try:
                tree = ast.parse(c)
            except SyntaxError:
                continue
            if len(tree.body) != 1:
                return None
            node = tree.body[0]
            if isinstance(node, ast.Expr):
                node = node.value
            fixed = self.fixed

            class T(ast.NodeTransformer):
                def visit_Name(self, n):
                    if n.id not in fixed:
                        return ast.Name(id=f'__mvn_{n.id}__', ctx=n.ctx)
                    return n
            if isinstance(node, ast.Name):
                return None         # a bare word: text search, not a wildcard
            node = T().visit(node)
            return node
        return None

    def matches(self, snippet):
        p = self._pattern(snippet)
        if p is None:
            return None
        out = []
        header = isinstance(p, (ast.For, ast.While, ast.If, ast.With)) and \
            len(getattr(p, 'body', [])) == 1 and isinstance(p.body[0], ast.Pass)
        for n in ast.walk(self.node):
            if header:
                if type(n) is not type(p):
                    continue
                ok = None
                if isinstance(p, ast.For):
                    ok = match(p.target, n.target, {})
                    if ok is not None:
                        ok = match(p.iter, n.iter, ok)
                elif isinstance(p, (ast.If, ast.While)):
                    ok = match(p.test, n.test, {})
                elif isinstance(p, ast.With):
                    ok = {} if len(p.items) == len(n.items) else None
                if ok is not None:
                    out.append(n)
                continue
            if isinstance(p, ast.expr) != isinstance(n, ast.expr):
                continue
            if match(p, n, {}) is not None:
                out.append(n)
        return out

    def __contains__(self, snippet):
        m = self.matches(snippet)
        if m:
            return True
        # fragments (keyword arguments, prefixes of larger expressions ...)
        return ' '.join(snippet.split()) in self.text

    def index(self, snippet):
        m = self.matches(snippet)
        if not m:
            return self._text_pos(snippet)
        return min((getattr(n, 'lineno', 0), getattr(n, 'col_offset', 0))
                   for n in m)[0] * 1000 + min(
            (getattr(n, 'lineno', 0), getattr(n, 'col_offset', 0))
            for n in m)[1]

    def _text_pos(self, snippet):
        """position (line*1000+col) of a text fragment, via the statement that
        contains it in the normalised source"""
        frag = ' '.join(snippet.split())
        best = None
        for n in ast.walk(self.node):
            if isinstance(n, ast.stmt) and hasattr(n, 'lineno'):
                own = n
                if isinstance(n, (ast.For, ast.While, ast.If, ast.With,
                                  ast.Try, ast.FunctionDef)):
                    continue
                if frag in ' '.join(ast.unparse(own).split()):
                    pos = n.lineno * 1000 + n.col_offset
                    best = pos if best is None else min(best, pos)
        if best is None:
            if frag in self.text:
                return self.text.index(frag)
            return MISSING
        return best

    def count(self, snippet):
        m = self.matches(snippet)
        if not m:
            return self.text.count(' '.join(snippet.split()))
        return len(m)

    def replace(self, a, b):
        return self.text.replace(a, b)

    def __str__(self):
        return self.text

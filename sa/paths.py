"""E1 -- structured path enumeration over function bodies.

The repository's functions are small and structured (if/elif/else, for/while
with break/continue, try/except/finally, with, return, raise).  Instead of a
general CFG we enumerate every syntactic path, loops taken 0 or 1 (optionally 2)
times, as a sequence of events: calls (in evaluation order), stores, returns,
raises and branch decisions.  Ordering / pairing rules are then universally
quantified over these paths.  Calls to repo functions can be inlined on demand
(bounded depth) so that wrappers are seen through.
"""
import ast
from .pm import AnalysisError, stmt_exprs, unparse


class Ev:
    __slots__ = ('kind', 'node', 'stmt', 'func', 'depth', 'extra', 'callees',
                 'inloop')

    def __init__(self, kind, node, stmt, func, depth=0, extra=None):
        self.kind = kind
        self.node = node
        self.stmt = stmt
        self.func = func
        self.depth = depth
        self.extra = extra
        self.callees = None
        self.inloop = 0

    def __repr__(self):
        n = unparse(self.node, 60) if isinstance(self.node, ast.AST) else self.node
        return f'{self.kind}:{n}'

    @property
    def line(self):
        return getattr(self.node, 'lineno', getattr(self.stmt, 'lineno', 0))


class Path:
    __slots__ = ('events', 'exit', 'partial')

    def __init__(self, events, exit_, partial=False):
        self.events = events
        self.exit = exit_
        self.partial = partial

    def calls(self):
        return [e for e in self.events if e.kind == 'call']

    def describe(self, limit=14):
        out = []
        for e in self.events:
            if e.kind == 'branch':
                out.append(('if ' if e.extra else 'if not ') + unparse(e.node, 50))
            elif e.kind in ('call', 'return', 'raise'):
                out.append(f'{e.kind} {unparse(e.node, 50)}' if e.node is not None
                           else e.kind)
        return out[-limit:] + [f'exit:{self.exit}']


def _expr_events(e, stmt, func, depth, out):
    """calls (post-order = evaluation order) inside expression e."""
    def rec(n):
        if isinstance(n, (ast.Lambda,)):
            return
        if isinstance(n, ast.IfExp):
            rec(n.test)
            rec(n.body)
            rec(n.orelse)
            return
        for c in ast.iter_child_nodes(n):
            rec(c)
        if isinstance(n, ast.Call):
            out.append(Ev('call', n, stmt, func, depth))
    rec(e)


def _targets(t):
    if isinstance(t, (ast.Tuple, ast.List)):
        for x in t.elts:
            yield from _targets(x)
    elif isinstance(t, ast.Starred):
        yield from _targets(t.value)
    else:
        yield t


class Enumerator:
    def __init__(self, func, loop_iters=(0, 1), max_paths=20000, depth=0):
        self.func = func
        self.loop_iters = loop_iters
        self.max_paths = max_paths
        self.depth = depth

    def simple(self, s):
        evs = []
        if isinstance(s, ast.Assign):
            _expr_events(s.value, s, self.func, self.depth, evs)
            for t in s.targets:
                for x in _targets(t):
                    if isinstance(x, (ast.Subscript, ast.Attribute)):
                        _expr_events(x, s, self.func, self.depth, evs)
                    evs.append(Ev('store', x, s, self.func, self.depth, s.value))
        elif isinstance(s, ast.AugAssign):
            _expr_events(s.value, s, self.func, self.depth, evs)
            evs.append(Ev('aug', s.target, s, self.func, self.depth, s))
        elif isinstance(s, ast.AnnAssign):
            if s.value is not None:
                _expr_events(s.value, s, self.func, self.depth, evs)
                evs.append(Ev('store', s.target, s, self.func, self.depth, s.value))
        elif isinstance(s, ast.Expr):
            _expr_events(s.value, s, self.func, self.depth, evs)
        elif isinstance(s, ast.Delete):
            for t in s.targets:
                evs.append(Ev('delete', t, s, self.func, self.depth))
        elif isinstance(s, (ast.Pass, ast.Import, ast.ImportFrom, ast.Global,
                            ast.Nonlocal, ast.FunctionDef, ast.ClassDef)):
            pass
        elif isinstance(s, ast.Assert):
            _expr_events(s.test, s, self.func, self.depth, evs)
        else:
            raise AnalysisError(
                f'{self.func.qual}: statement kind {type(s).__name__} outside '
                f'the path fragment')
        return evs

    def block(self, body, prefixes):
        """prefixes: list of (events, state) with state in
        {'go','return','raise','break','continue'}; returns same."""
        cur = prefixes
        for s in body:
            live = [(e, st) for e, st in cur if st == 'go']
            done = [(e, st) for e, st in cur if st != 'go']
            if not live:
                break
            cur = done + self.stmt(s, live)
            if len(cur) > self.max_paths:
                raise AnalysisError(f'{self.func.qual}: more than '
                                    f'{self.max_paths} paths')
        return cur

    def stmt(self, s, live):
        F, D = self.func, self.depth
        if isinstance(s, ast.If):
            tev = []
            _expr_events(s.test, s, F, D, tev)
            a = [(e + tev + [Ev('branch', s.test, s, F, D, True)], 'go')
                 for e, _ in live]
            b = [(e + tev + [Ev('branch', s.test, s, F, D, False)], 'go')
                 for e, _ in live]
            return self.block(s.body, a) + self.block(s.orelse, b)
        if isinstance(s, (ast.For, ast.While)):
            hev = []
            if isinstance(s, ast.For):
                _expr_events(s.iter, s, F, D, hev)
            else:
                _expr_events(s.test, s, F, D, hev)
            out = []
            for n in self.loop_iters:
                cur = [(e + hev + [Ev('loop', s, s, F, D, n)], 'go')
                       for e, _ in live]
                broke = []
                for _ in range(n):
                    cur = self.block(s.body, cur)
                    nxt = []
                    for e, st in cur:
                        if st == 'continue':
                            nxt.append((e, 'go'))
                        elif st == 'break':
                            broke.append((e + [Ev('loopend', s, s, F, D, n)], 'go'))
                        else:
                            nxt.append((e, st))
                    cur = nxt
                fin = []
                for e, st in cur:
                    if st == 'go':
                        fin.append((e + [Ev('loopend', s, s, F, D, n)], 'go'))
                    else:
                        fin.append((e, st))
                # orelse runs only when the loop was not broken
                fin = self.block(s.orelse, fin) if s.orelse else fin
                out += fin + broke
            return out
        if isinstance(s, ast.Try):
            normal = self.block(s.body, live)
            normal = self.block(s.orelse, normal) if s.orelse else normal
            out = list(normal)
            for h in s.handlers:
                hp = [(e + [Ev('except', h, s, F, D)], 'go') for e, _ in live]
                out += self.block(h.body, hp)
            if s.finalbody:
                res = []
                for e, st in out:
                    fb = self.block(s.finalbody, [(e, 'go')])
                    for e2, st2 in fb:
                        res.append((e2, st if st2 == 'go' else st2))
                out = res
            return out
        if isinstance(s, ast.With):
            pre = []
            for it in s.items:
                _expr_events(it.context_expr, s, F, D, pre)
            return self.block(s.body, [(e + pre, 'go') for e, _ in live])
        if isinstance(s, ast.Return):
            ev = []
            if s.value is not None:
                _expr_events(s.value, s, F, D, ev)
            ev.append(Ev('return', s.value, s, F, D))
            return [(e + ev, 'return') for e, _ in live]
        if isinstance(s, ast.Raise):
            ev = []
            if s.exc is not None:
                _expr_events(s.exc, s, F, D, ev)
            ev.append(Ev('raise', s.exc, s, F, D))
            return [(e + ev, 'raise') for e, _ in live]
        if isinstance(s, ast.Break):
            return [(e, 'break') for e, _ in live]
        if isinstance(s, ast.Continue):
            return [(e, 'continue') for e, _ in live]
        ev = self.simple(s)
        return [(e + ev, 'go') for e, _ in live]

    def run(self):
        res = self.block(self.func.node.body, [([], 'go')])
        out = []
        for e, st in res:
            if st == 'go':
                st = 'fall'
            partial = any(x.kind == 'except' for x in e)
            out.append(Path(e, st, partial))
        return out


def paths(func, loop_iters=(0, 1), max_paths=20000):
    return Enumerator(func, loop_iters, max_paths).run()


def annotate(P, func, plist):
    """attach resolved callees to the call events of func's own paths."""
    env = P.local_env(func)
    for p in plist:
        for e in p.events:
            if e.kind == 'call' and e.callees is None and e.func is func:
                e.callees = P.resolve_call(e.node, env, func)
    return plist


def ipaths(P, func, inline, depth=3, loop_iters=(0, 1), max_paths=20000,
           _stack=()):
    """paths of func with calls to repo functions satisfying inline(callee)
    expanded in place (each callee path multiplies the caller path)."""
    base = annotate(P, func, Enumerator(func, loop_iters, max_paths,
                                        len(_stack)).run())
    if depth <= 0:
        return base
    out = []
    for p in base:
        variants = [([], None)]
        for e in p.events:
            targets = []
            if e.kind == 'call' and e.callees:
                targets = [c for c in e.callees if inline(c) and
                           c.qual not in _stack and c is not func]
            if not targets:
                variants = [(v + [e], x) for v, x in variants]
                continue
            nv = []
            for c in targets:
                sub = ipaths(P, c, inline, depth - 1, loop_iters, max_paths,
                             _stack + (func.qual,))
                for v, x in variants:
                    if x is not None:
                        nv.append((v, x))
                        continue
                    for sp in sub:
                        evs = v + [e] + [Ev('enter', c.qual, e.stmt, func)] + \
                            sp.events + [Ev('leave', c.qual, e.stmt, func)]
                        nv.append((evs, 'raise' if sp.exit == 'raise' else None))
                    if len(nv) > max_paths:
                        raise AnalysisError(f'{func.qual}: path explosion '
                                            f'while inlining {c.qual}')
            variants = nv
        for v, x in variants:
            out.append(Path(v, x or p.exit, p.partial))
    return out


def callee_names(e):
    """set of qualified callee names of a call event (resolved), plus the bare
    attribute/function name for unresolved ones."""
    if e.kind != 'call':
        return set()
    out = set()
    for c in e.callees or []:
        out.add(c.qual)
    f = e.node.func
    if isinstance(f, ast.Attribute):
        out.add('.' + f.attr)
    elif isinstance(f, ast.Name):
        out.add(f.id)
    return out


def call_attr(e):
    if e.kind != 'call':
        return None
    f = e.node.func
    return f.attr if isinstance(f, ast.Attribute) else (
        f.id if isinstance(f, ast.Name) else None)

"""E0c: second normal form of a function - refactoring freedoms.

`canon.normal_form` removes eight spelling freedoms of single statements.  A
maintainer cleaning up code uses larger ones: a private helper is extracted,
a temporary is introduced or removed, a common sub-expression is hoisted, a
local is renamed, repeated statements become a loop over a constant table
with getattr / setattr, an append loop becomes a comprehension.  `normal_form2`
rewrites a function into a form in which these freedoms are gone:

  1. calls to helpers *that the reference tree does not have* (a private
     method of the same class, a function of the same module, a local def)
     are replaced by the helper's body (parameters bound to the arguments);
  2. `getattr(x, 'a')` / `setattr(x, 'a', v)` with a constant name become
     attribute access; a `for` over a constant table (a literal, or a name
     bound once to a literal at class or module level) without break /
     continue is unrolled; f-strings of constants are folded;
  3. an append loop filling a fresh list becomes a comprehension; a local
     single-return def that is only passed around becomes a lambda;
  4. every local that is bound exactly once to a pure expression and whose
     uses it dominates is replaced by that expression when either it is used
     once, or the expression reads nothing but other locals and parameters
     (no attribute, subscript or call of a non-numeric function), or no
     statement with an effect lies between the binding and the use; the
     binding disappears.  Everything else (calls of unknown functions, stores,
     loops, returns) stays in place and in order;
  5. the remaining locals are renamed in order of first appearance, then
     `canon.normal_form`'s statement-level freedoms are removed.

A function of the analysed tree whose second normal form has the digest
recorded for the reference function is the reference function re-written and
is replaced by the reference spelling before any rule runs (`canon.
restore_package`); otherwise it is judged as it stands.  The rewriting is
meant to be an equivalence under these assumptions, which are the usual ones
of an optimising reader and are *not* proved: pure functions are those of the
table below (numpy / math element-wise functions and the builtins listed),
attribute reads have no side effects, no operator is overloaded by the
package (asserted by `canon.operators_plain`).  Step 4 never moves a read of
an attribute or a subscript across a statement with an effect.  Whatever is
outside this fragment (try, while, with, global, yield, starred arguments,
helpers with early returns in loops) makes the function not normalisable:
`normal_form2` returns None and nothing is restored.
"""
import ast
import copy
import hashlib

PURE_NP = {
    'sqrt', 'sin', 'cos', 'tan', 'arcsin', 'arccos', 'arctan', 'arctan2',
    'exp', 'log', 'log10', 'abs', 'absolute', 'hypot', 'radians', 'deg2rad',
    'rad2deg', 'degrees', 'sign', 'square', 'power', 'maximum', 'minimum',
    'where', 'isinf', 'isnan', 'isfinite', 'isclose', 'all', 'any', 'sum',
    'mean', 'max', 'min', 'std', 'dot', 'cross', 'conj', 'conjugate', 'real',
    'imag', 'floor', 'ceil', 'clip', 'ones_like', 'zeros_like', 'full_like',
    'isscalar', 'ndim', 'shape', 'size', 'logical_and', 'logical_or',
    'logical_not', 'sinh', 'cosh', 'tanh', 'arange', 'linspace', 'repeat',
    'tile', 'concatenate', 'stack', 'hstack', 'vstack', 'column_stack',
    'reshape', 'ravel', 'atleast_1d', 'asarray', 'array', 'copy', 'zeros',
    'ones', 'full', 'eye', 'meshgrid', 'argsort', 'sort', 'cumsum', 'diff',
    'interp', 'outer', 'einsum', 'matmul', 'transpose', 'squeeze', 'nansum',
    'nanmean', 'nanmax', 'nanmin', 'fft2', 'ifft2', 'fftshift', 'ifftshift',
    'float64', 'complex128', 'result_type', 'broadcast_to', 'empty',
    'count_nonzero', 'argmax', 'argmin', 'unique', 'pad', 'flip', 'roll',
    'take', 'polyval', 'angle', 'expand_dims', 'moveaxis', 'allclose',
}
PURE_BUILTIN = {'len', 'abs', 'float', 'int', 'bool', 'str', 'min', 'max',
                'sum', 'range', 'zip', 'enumerate', 'tuple', 'list', 'dict',
                'set', 'sorted', 'isinstance', 'round', 'divmod', 'pow',
                'reversed', 'all', 'any', 'complex', 'type', 'repr', 'id',
                'callable', 'hasattr', 'frozenset', 'slice'}
PURE_MOD = {'np', 'numpy', 'math', 'np.fft', 'np.linalg'}
# creators of fresh mutable objects: pure, but a value that is used more than
# once must keep its identity (two evaluations are two objects)
FRESH = {'zeros', 'ones', 'full', 'empty', 'array', 'copy', 'zeros_like',
         'ones_like', 'full_like', 'list', 'dict', 'set', 'arange',
         'linspace', 'eye', 'meshgrid', 'concatenate', 'stack', 'hstack',
         'vstack', 'column_stack', 'tile', 'repeat', 'sorted'}


class NotNormalisable(Exception):
    pass


def _call_name(c):
    f = c.func
    if isinstance(f, ast.Name):
        return None, f.id
    if isinstance(f, ast.Attribute):
        try:
            return ast.unparse(f.value), f.attr
        except Exception:
            return '?', f.attr
    return '?', None


# methods of dicts, strings and arrays that only read their receiver
PURE_METHODS = {'get', 'keys', 'values', 'items', 'copy', 'ravel', 'reshape',
                'flatten', 'astype', 'tolist', 'item', 'mean', 'sum', 'max',
                'min', 'any', 'all', 'conj', 'conjugate', 'startswith',
                'endswith', 'split', 'strip', 'lower', 'upper', 'format',
                'join', 'index', 'count', 'dot', 'transpose', 'squeeze',
                'real', 'imag', 'argsort', 'cumsum', 'std', 'tobytes',
                'isdigit', 'replace', 'find', 'rstrip', 'lstrip', 'title',
                'nonzero', 'round', 'clip', 'argmax', 'argmin', 'prod'}


def _pure_call(c):
    base, nm = _call_name(c)
    if any(isinstance(a, ast.Starred) for a in c.args) or any(
            k.arg is None for k in c.keywords):
        return False
    if base is None:
        return nm in PURE_BUILTIN
    if base in PURE_MOD:
        return nm in PURE_NP or base == 'math'
    if nm in PURE_METHODS:
        return True
    return False


def is_pure(e, lambdas_ok=True):
    for x in ast.walk(e):
        if isinstance(x, ast.Call) and not _pure_call(x):
            return False
        if isinstance(x, (ast.Await, ast.Yield, ast.YieldFrom, ast.NamedExpr)):
            return False
    return True


def has_load(e):
    """reads anything but locals / parameters / constants / pure functions"""
    for x in ast.walk(e):
        if isinstance(x, ast.Attribute):
            try:
                txt = ast.unparse(x)
            except Exception:
                return True
            # np.pi, math.pi, np.sqrt (function objects) are constants
            root = txt.split('.')[0]
            if root in ('np', 'numpy', 'math'):
                continue
            return True
        if isinstance(x, ast.Subscript):
            return True
    return False


def makes_fresh(e):
    for x in ast.walk(e):
        if isinstance(x, ast.Call):
            base, nm = _call_name(x)
            if nm in FRESH:
                return True
        if isinstance(x, (ast.List, ast.Dict, ast.Set, ast.ListComp,
                          ast.DictComp, ast.SetComp)):
            return True
    return False


# ---------------------------------------------------------------- utilities
class _Subst(ast.NodeTransformer):
    def __init__(self, mapping):
        self.m = mapping

    def visit_Name(self, n):
        if isinstance(n.ctx, ast.Load) and n.id in self.m:
            return copy.deepcopy(self.m[n.id])
        return n

    def visit_Lambda(self, n):
        shadow = {a.arg for a in n.args.args}
        if shadow & set(self.m):
            sub = _Subst({k: v for k, v in self.m.items() if k not in shadow})
            n.body = sub.visit(n.body)
            return n
        return self.generic_visit(n)

    def _comp(self, n):
        shadow = set()
        for g in n.generators:
            for x in ast.walk(g.target):
                if isinstance(x, ast.Name):
                    shadow.add(x.id)
        if shadow & set(self.m):
            sub = _Subst({k: v for k, v in self.m.items() if k not in shadow})
            # the first iterable is evaluated in the enclosing scope
            n.generators[0].iter = self.visit(n.generators[0].iter)
            for fld in ('elt', 'key', 'value'):
                if hasattr(n, fld):
                    setattr(n, fld, sub.visit(getattr(n, fld)))
            for i, g in enumerate(n.generators):
                if i:
                    g.iter = sub.visit(g.iter)
                g.ifs = [sub.visit(c) for c in g.ifs]
            return n
        return self.generic_visit(n)
    visit_ListComp = visit_SetComp = visit_GeneratorExp = visit_DictComp = _comp


def subst(node, mapping):
    if not mapping:
        return node
    return _Subst(mapping).visit(node)


def _names_stored(node):
    out = set()
    for x in ast.walk(node):
        if isinstance(x, ast.Name) and isinstance(x.ctx, (ast.Store, ast.Del)):
            out.add(x.id)
        elif isinstance(x, ast.arg):
            out.add(x.arg)
    return out


def _names_loaded(node):
    return {x.id for x in ast.walk(node)
            if isinstance(x, ast.Name) and isinstance(x.ctx, ast.Load)}


_UNSUPPORTED = (ast.While, ast.Global, ast.Nonlocal,
                ast.AsyncFunctionDef, ast.ClassDef, ast.Delete, ast.Match
                if hasattr(ast, 'Match') else ast.Delete)


def _check_supported(fn):
    for x in ast.walk(fn):
        if isinstance(x, _UNSUPPORTED) or isinstance(
                x, (ast.Yield, ast.YieldFrom, ast.Await)):
            raise NotNormalisable(type(x).__name__)


def _strip_doc_and_annotations(fn):
    for x in ast.walk(fn):
        if isinstance(x, (ast.FunctionDef, ast.Lambda)):
            a = x.args
            for arg in a.args + a.kwonlyargs + getattr(a, 'posonlyargs', []):
                arg.annotation = None
            if a.vararg:
                a.vararg.annotation = None
            if a.kwarg:
                a.kwarg.annotation = None
        if isinstance(x, ast.FunctionDef):
            x.returns = None
            if x.body and isinstance(x.body[0], ast.Expr) and isinstance(
                    x.body[0].value, ast.Constant) and isinstance(
                    x.body[0].value.value, str):
                x.body = x.body[1:] or [ast.Pass()]
    # annotated assignment `x: T = e` -> `x = e`
    class A(ast.NodeTransformer):
        def visit_AnnAssign(self, n):
            if n.value is None:
                return None
            return ast.copy_location(ast.Assign([n.target], n.value), n)
    A().visit(fn)
    return fn


# ------------------------------------------------------------- step 1: inline
class Scope:
    """where helpers are looked up: the class body and the module"""

    def __init__(self, module, cls=None, is_new=None, ref_idents=None):
        self.module = module
        self.cls = cls
        self.is_new = is_new or (lambda cls_name, fn_name: False)
        # identifiers the reference version of the file mentions (None: this
        # is the reference)
        self.ref_idents = ref_idents

    def new_constant(self, expr):
        """literal value of a class / module constant that the reference
        tree does not mention"""
        if self.ref_idents is None:
            return None
        nm = expr.id if isinstance(expr, ast.Name) else (
            expr.attr if isinstance(expr, ast.Attribute) else None)
        if nm is None or nm in self.ref_idents:
            return None
        return self.constant(expr)

    def class_node(self, name=None):
        name = name or self.cls
        for n in self.module.body:
            if isinstance(n, ast.ClassDef) and n.name == name:
                return n
        return None

    def method(self, name):
        seen = set()
        todo = [self.cls] if self.cls else []
        while todo:
            cn = todo.pop(0)
            if cn in seen:
                continue
            seen.add(cn)
            c = self.class_node(cn)
            if c is None:
                continue
            for m in c.body:
                if isinstance(m, ast.FunctionDef) and m.name == name:
                    return cn, m
            todo += [b.id for b in c.bases if isinstance(b, ast.Name)]
        return None, None

    def function(self, name):
        for n in self.module.body:
            if isinstance(n, ast.FunctionDef) and n.name == name:
                return n
        return None

    def constant(self, expr):
        """literal bound once at class / module level to the given name"""
        target = None
        if isinstance(expr, ast.Name):
            target = (None, expr.id)
        elif isinstance(expr, ast.Attribute) and isinstance(
                expr.value, ast.Name) and expr.value.id in ('self', 'cls'):
            target = (self.cls, expr.attr)
        elif isinstance(expr, ast.Attribute) and isinstance(
                expr.value, ast.Name) and self.class_node(expr.value.id):
            target = (expr.value.id, expr.attr)
        if target is None:
            return None
        cn, nm = target
        body = self.module.body if cn is None else (
            self.class_node(cn).body if self.class_node(cn) else [])
        found = [s for s in body if isinstance(s, ast.Assign) and
                 len(s.targets) == 1 and isinstance(s.targets[0], ast.Name)
                 and s.targets[0].id == nm]
        if len(found) != 1:
            if cn is not None:
                # inherited class constant
                c = self.class_node(cn)
                for b in (c.bases if c else []):
                    if isinstance(b, ast.Name):
                        sub = Scope(self.module, b.id).constant(
                            ast.Attribute(ast.Name('self', ast.Load()), nm,
                                          ast.Load()))
                        if sub is not None:
                            return sub
            return None
        v = found[0].value
        return v if _is_literal(v) else None


def _is_literal(v):
    if isinstance(v, ast.Constant):
        return True
    if isinstance(v, ast.Name) and v.id[:1].isupper():
        return True           # a class named in a table
    if isinstance(v, ast.Attribute) and isinstance(v.value, ast.Name) and \
            v.value.id in ('np', 'numpy', 'math'):
        return True
    if isinstance(v, (ast.Tuple, ast.List)):
        return all(_is_literal(x) for x in v.elts)
    if isinstance(v, ast.Dict):
        return all(k is not None and _is_literal(k) and _is_literal(x)
                   for k, x in zip(v.keys, v.values))
    if isinstance(v, ast.UnaryOp) and isinstance(v.op, ast.USub):
        return _is_literal(v.operand)
    return False


class _Counter:
    n = 0


def _fresh_prefix(cnt):
    cnt.n += 1
    return f'h{cnt.n}_'


def _tail_returns_only(body):
    """every return of the statement list is in tail position of an if-tree"""
    for i, s in enumerate(body):
        last = i == len(body) - 1
        if isinstance(s, ast.Try):
            has_ret = any(isinstance(x, ast.Return) for x in ast.walk(s))
            if has_ret:
                if not last or s.finalbody:
                    return False
                for blk in [s.body, s.orelse] + [h.body for h in s.handlers]:
                    if blk and not _tail_returns_only(blk):
                        return False
            continue
        if isinstance(s, ast.Return):
            if not last:
                return False
        elif isinstance(s, ast.If):
            has_ret = any(isinstance(x, ast.Return) for x in ast.walk(s))
            if has_ret:
                if not last:
                    return False
                if not _tail_returns_only(s.body):
                    return False
                if s.orelse and not _tail_returns_only(s.orelse):
                    return False
        else:
            if any(isinstance(x, ast.Return) for x in ast.walk(s)):
                return False
    return True


def _replace_returns(body, make):
    out = []
    for s in body:
        if isinstance(s, ast.Return):
            out += make(s.value if s.value is not None
                        else ast.Constant(None))
        elif isinstance(s, ast.If):
            s.body = _replace_returns(s.body, make)
            s.orelse = _replace_returns(s.orelse, make)
            out.append(s)
        elif isinstance(s, ast.Try):
            s.body = _replace_returns(s.body, make) or [ast.Pass()]
            s.orelse = _replace_returns(s.orelse, make)
            for h in s.handlers:
                h.body = _replace_returns(h.body, make) or [ast.Pass()]
            out.append(s)
        else:
            out.append(s)
    return out


def _ends_with_return(body):
    if not body:
        return False
    s = body[-1]
    if isinstance(s, (ast.Return, ast.Raise)):
        return True
    if isinstance(s, ast.If) and s.orelse:
        return _ends_with_return(s.body) and _ends_with_return(s.orelse)
    if isinstance(s, ast.Try) and not s.finalbody:
        return _ends_with_return(s.body + s.orelse) and all(
            _ends_with_return(h.body) for h in s.handlers)
    return False


def _bind_params(callee, call, bound_self, prefix):
    """statements binding the callee's parameters, and the rename map"""
    a = callee.args
    if a.vararg or a.kwarg or a.kwonlyargs or getattr(a, 'posonlyargs', []):
        raise NotNormalisable('helper signature')
    if any(isinstance(x, ast.Starred) for x in call.args) or any(
            k.arg is None for k in call.keywords):
        raise NotNormalisable('starred call')
    params = [p.arg for p in a.args]
    deco = {ast.unparse(d) for d in callee.decorator_list}
    if deco - {'staticmethod', 'classmethod'}:
        raise NotNormalisable('decorated helper')
    mapping = {}
    if bound_self is not None and 'staticmethod' not in deco:
        if not params:
            raise NotNormalisable('method without self')
        # self / cls keeps its meaning
        mapping[params[0]] = bound_self
        params = params[1:]
    defaults = dict(zip(reversed(params), reversed(a.defaults)))
    vals = {}
    for p, v in zip(params, call.args):
        vals[p] = v
    if len(call.args) > len(params):
        raise NotNormalisable('too many arguments')
    for k in call.keywords:
        if k.arg not in params or k.arg in vals:
            raise NotNormalisable('keyword argument')
        vals[k.arg] = k.value
    binds = []
    rename = {}
    for p in params:
        if p in vals:
            v = vals[p]
        elif p in defaults:
            v = copy.deepcopy(defaults[p])
        else:
            raise NotNormalisable('missing argument')
        rename[p] = prefix + p
        binds.append(ast.Assign([ast.Name(prefix + p, ast.Store())],
                                copy.deepcopy(v)))
    return binds, rename, mapping


class _Rename(ast.NodeTransformer):
    def __init__(self, rename, mapping):
        self.r, self.m = rename, mapping

    def visit_Name(self, n):
        if n.id in self.m and isinstance(n.ctx, ast.Load):
            return copy.deepcopy(self.m[n.id])
        if n.id in self.r:
            n.id = self.r[n.id]
        return n

    def visit_arg(self, n):
        if n.arg in self.r:
            n.arg = self.r[n.arg]
        return n


def _inline_body(callee, call, bound_self, cnt):
    prefix = _fresh_prefix(cnt)
    callee = copy.deepcopy(callee)
    _strip_doc_and_annotations(callee)
    _check_supported(callee)
    for x in ast.walk(callee):
        if isinstance(x, ast.FunctionDef) and x is not callee:
            raise NotNormalisable('nested def in helper')
    binds, rename, mapping = _bind_params(callee, call, bound_self, prefix)
    for nm in _names_stored(ast.Module(callee.body, [])):
        if nm not in rename and nm not in mapping:
            rename[nm] = prefix + nm
    body = [_Rename(rename, mapping).visit(s) for s in callee.body]
    body = [s for s in body if not isinstance(s, ast.Pass)]
    return binds + body


def _conditional_nodes(e):
    """ids of nodes of the expression that are not evaluated exactly once
    when the expression is (short-circuit operands, arms of a conditional
    expression, comprehension bodies, lambda bodies)"""
    out = set()

    def mark(n):
        for x in ast.walk(n):
            out.add(id(x))
    for x in ast.walk(e):
        if isinstance(x, ast.BoolOp):
            for v in x.values[1:]:
                mark(v)
        elif isinstance(x, ast.IfExp):
            mark(x.body)
            mark(x.orelse)
        elif isinstance(x, (ast.ListComp, ast.SetComp, ast.GeneratorExp,
                            ast.DictComp)):
            for fld in ('elt', 'key', 'value'):
                if hasattr(x, fld):
                    mark(getattr(x, fld))
            for i, g in enumerate(x.generators):
                if i:
                    mark(g.iter)
                for c in g.ifs:
                    mark(c)
        elif isinstance(x, ast.Lambda):
            mark(x.body)
    return out


def _as_expression(callee):
    """(params, expression) when the helper is `[pure temps;] return expr`"""
    g = copy.deepcopy(callee)
    _strip_doc_and_annotations(g)
    body = [st for st in g.body if not isinstance(st, ast.Pass)]
    if not body or not isinstance(body[-1], ast.Return) or \
            body[-1].value is None:
        return None
    m = {}
    for st in body[:-1]:
        if isinstance(st, ast.Assign) and len(st.targets) == 1 and \
                isinstance(st.targets[0], ast.Name) and \
                st.targets[0].id not in m and is_pure(st.value):
            m[st.targets[0].id] = subst(copy.deepcopy(st.value), m)
        else:
            return None
    return subst(copy.deepcopy(body[-1].value), m)


def _find_helper_call(stmt_value, scope, local_defs, conditional=False):
    """the first helper call inside an expression: (call node, callee,
    bound self expression or None)"""
    cond = _conditional_nodes(stmt_value)
    for c in ast.walk(stmt_value):
        if not isinstance(c, ast.Call):
            continue
        if (id(c) in cond) != conditional:
            continue
        f = c.func
        if isinstance(f, ast.Name):
            if f.id in local_defs:
                return c, local_defs[f.id], None
            g = scope.function(f.id)
            if g is not None and scope.is_new(None, f.id):
                return c, g, None
        elif isinstance(f, ast.Attribute) and isinstance(f.value, ast.Name):
            base = f.value.id
            if base in ('self', 'cls') and scope.cls:
                cn, m = scope.method(f.attr)
                if m is not None and scope.is_new(cn, f.attr):
                    return c, m, ast.Name(base, ast.Load())
            elif scope.class_node(base) is not None:
                sub = Scope(scope.module, base, scope.is_new,
                            scope.ref_idents)
                cn, m = sub.method(f.attr)
                if m is not None and scope.is_new(cn, f.attr):
                    deco = {ast.unparse(d) for d in m.decorator_list}
                    if 'staticmethod' in deco:
                        return c, m, ast.Name(base, ast.Load())
                    if 'classmethod' in deco:
                        return c, m, ast.Name(base, ast.Load())
    return None


def _inline_expressions(fn, scope, rounds=4):
    """helper calls in conditional positions (comprehension bodies, short-
    circuit operands ...) are replaced by the helper's expression when the
    helper is a single expression of its parameters"""
    for _ in range(rounds):
        changed = False
        for st in ast.walk(fn):
            holders = []
            if isinstance(st, (ast.Assign, ast.AugAssign, ast.Return,
                               ast.Expr)) and st.value is not None:
                holders.append(('value', st.value))
            elif isinstance(st, ast.If):
                holders.append(('test', st.test))
            elif isinstance(st, ast.For):
                holders.append(('iter', st.iter))
            for fld, e in holders:
                hit = _find_helper_call(e, scope, {}, conditional=True)
                if hit is None:
                    continue
                call, callee, bound = hit
                expr = _as_expression(callee)
                if expr is None:
                    raise NotNormalisable('helper call in a conditional '
                                          'position')
                cnt = _Counter()
                binds, rename, mapping = _bind_params(callee, call, bound,
                                                      'e_')
                m = {}
                params = [p.arg for p in callee.args.args]
                for b in binds:
                    m[b.targets[0].id[2:]] = b.value
                for k, v in mapping.items():
                    m[k] = v
                # an argument used several times is evaluated several times:
                # only pure arguments
                if not all(is_pure(v) for v in m.values()):
                    raise NotNormalisable('impure argument of an expression '
                                          'helper')
                new = subst(expr, m)

                class R(ast.NodeTransformer):
                    def visit_Call(self, n):
                        if n is call:
                            return new
                        return self.generic_visit(n)
                setattr(st, fld, R().visit(e))
                changed = True
        if not changed:
            break
    return fn


def _comprehensions_to_loops(fn, scope):
    """`x = [e for t in it]` (also nested, also `return [...]`) whose element
    calls a helper that is not a single expression becomes an append loop, so
    that the helper can be inlined as statements"""
    k = [0]

    def needs(e):
        hit = _find_helper_call(e, scope, {}, conditional=True)
        return hit is not None and _as_expression(hit[1]) is None

    def expand(comp, target_name):
        """statements filling target_name from the list comprehension"""
        out = [ast.Assign([ast.Name(target_name, ast.Store())],
                          ast.List([], ast.Load()))]
        body_holder = out
        cur = None
        for g in comp.generators:
            loop = ast.For(g.target, g.iter, [], [])
            (cur.body if cur is not None else out).append(loop)
            cur = loop
            for c in g.ifs:
                iff = ast.If(c, [], [])
                cur.body.append(iff)
                cur = iff
        elt = comp.elt
        pre = []
        if isinstance(elt, ast.ListComp) and needs(elt):
            k[0] += 1
            inner = f'c{k[0]}_'
            pre = expand(elt, inner)
            elt = ast.Name(inner, ast.Load())
        cur.body += pre + [ast.Expr(ast.Call(
            ast.Attribute(ast.Name(target_name, ast.Load()), 'append',
                          ast.Load()), [elt], []))]
        return out
    for owner, fld, body in list(_blocks_of(fn)):
        i = 0
        while i < len(body):
            st = body[i]
            comp = None
            if isinstance(st, ast.Assign) and len(st.targets) == 1 and \
                    isinstance(st.targets[0], ast.Name) and \
                    isinstance(st.value, ast.ListComp):
                comp, name = st.value, st.targets[0].id
            elif isinstance(st, ast.Return) and isinstance(
                    st.value, ast.ListComp):
                k[0] += 1
                comp, name = st.value, f'c{k[0]}_'
            if comp is not None and needs(comp):
                new = expand(comp, name)
                if isinstance(st, ast.Return):
                    new.append(ast.Return(ast.Name(name, ast.Load())))
                body[i:i + 1] = new
                i += len(new)
                continue
            i += 1
    return fn


def _blocks_of(node):
    for fld in ('body', 'orelse', 'finalbody'):
        b = getattr(node, fld, None)
        if isinstance(b, list) and b and isinstance(b[0], ast.stmt):
            yield node, fld, b
            for st in list(b):
                yield from _blocks_of(st)
    for h in getattr(node, 'handlers', []) or []:
        yield from _blocks_of(h)


def inline_helpers(fn, scope, depth=4):
    """replace calls of new helpers by their bodies (in place)"""
    cnt = _Counter()
    _comprehensions_to_loops(fn, scope)
    _inline_expressions(fn, scope)

    def block(body, local_defs):
        local_defs = dict(local_defs)
        out = []
        for s in body:
            if isinstance(s, ast.FunctionDef):
                # a local def: inlined at its call sites when possible
                local_defs[s.name] = s
                out.append(s)
                continue
            out += stmt(s, local_defs, depth)
        return out

    def stmt(s, local_defs, d):
        for fld in ('body', 'orelse', 'finalbody'):
            b = getattr(s, fld, None)
            if isinstance(b, list) and b and isinstance(b[0], ast.stmt):
                setattr(s, fld, block(b, local_defs))
        for h in getattr(s, 'handlers', []) or []:
            h.body = block(h.body, local_defs)
        if d <= 0:
            return [s]
        # expression part of the statement that may contain a helper call
        holder = None
        if isinstance(s, (ast.Assign, ast.AugAssign, ast.Return, ast.Expr)):
            holder = s.value
        elif isinstance(s, (ast.If,)):
            holder = s.test
        elif isinstance(s, ast.For):
            holder = s.iter
        if holder is None:
            return [s]
        hit = _find_helper_call(holder, scope, local_defs)
        if hit is None:
            return [s]
        call, callee, bound = hit
        body = _inline_body(callee, call, bound, cnt)
        from . import canon
        tmp = ast.Module(body, [])
        canon.absorb_else(tmp)
        body = tmp.body
        has_value_return = any(isinstance(x, ast.Return) and x.value is not
                               None for x in ast.walk(ast.Module(body, [])))
        if isinstance(s, ast.Return) and s.value is call:
            if not _tail_returns_only(body):
                raise NotNormalisable('helper returns inside a loop')
            new = body
            if not _ends_with_return(body):
                new = body + [ast.Return(ast.Constant(None))]
            return sum((stmt(x, local_defs, d - 1) for x in new), [])
        if isinstance(s, ast.Expr) and s.value is call and \
                not has_value_return:
            if not _tail_returns_only(body):
                raise NotNormalisable('helper returns inside a loop')
            new = _replace_returns(body, lambda v: [])
            new = _drop_empty_ifs(new)
            return sum((stmt(x, local_defs, d - 1) for x in new), [])
        # value needed: t = helper(...), then the statement with t
        if not _tail_returns_only(body):
            raise NotNormalisable('helper returns inside a loop')
        if isinstance(s, (ast.If, ast.For)) and isinstance(s, ast.For):
            pass
        tname = f'r{cnt.n}_'
        new = _replace_returns(
            body, lambda v: [ast.Assign([ast.Name(tname, ast.Store())], v)])
        if not _ends_with_return_assign(new, tname):
            new = new + [ast.Assign([ast.Name(tname, ast.Store())],
                                    ast.Constant(None))] \
                if not _assigns_on_all_paths(new, tname) else new

        class R(ast.NodeTransformer):
            def visit_Call(self, n):
                if n is call:
                    return ast.Name(tname, ast.Load())
                return self.generic_visit(n)
        if isinstance(s, ast.If):
            s.test = R().visit(s.test)
        elif isinstance(s, ast.For):
            s.iter = R().visit(s.iter)
        else:
            s.value = R().visit(s.value)
        pre = sum((stmt(x, local_defs, d - 1) for x in new), [])
        return pre + stmt(s, local_defs, d - 1)

    fn.body = block(fn.body, {})
    # local defs that are not referenced any more disappear; single-return
    # ones that are still referenced (passed as a value) become lambdas
    used = _names_loaded(fn)
    out = []
    for s in fn.body:
        if isinstance(s, ast.FunctionDef):
            if s.name not in used:
                continue
            g = copy.deepcopy(s)
            _strip_doc_and_annotations(g)
            if len(g.body) == 1 and isinstance(g.body[0], ast.Return) and \
                    not g.decorator_list and g.body[0].value is not None:
                out.append(ast.Assign([ast.Name(s.name, ast.Store())],
                                      ast.Lambda(g.args, g.body[0].value)))
                continue
            raise NotNormalisable('local def')
        out.append(s)
    fn.body = out
    for x in ast.walk(fn):
        if isinstance(x, ast.FunctionDef) and x is not fn:
            raise NotNormalisable('nested def')
    return fn


def _drop_empty_ifs(body):
    out = []
    for s in body:
        if isinstance(s, ast.If):
            s.body = _drop_empty_ifs(s.body)
            s.orelse = _drop_empty_ifs(s.orelse)
            if not s.body and not s.orelse:
                # the test is kept when it can have an effect
                if not is_pure(s.test):
                    out.append(ast.Expr(s.test))
                continue
            if not s.body:
                s.test = ast.UnaryOp(ast.Not(), s.test)
                s.body, s.orelse = s.orelse, []
        out.append(s)
    return out


def _assigns_on_all_paths(body, name):
    if not body:
        return False
    s = body[-1]
    if isinstance(s, ast.Assign) and isinstance(s.targets[0], ast.Name) and \
            s.targets[0].id == name:
        return True
    if isinstance(s, ast.Raise):
        return True
    if isinstance(s, ast.If) and s.orelse:
        return _assigns_on_all_paths(s.body, name) and \
            _assigns_on_all_paths(s.orelse, name)
    if isinstance(s, ast.Try) and not s.finalbody:
        return _assigns_on_all_paths(s.body + s.orelse, name) and all(
            _assigns_on_all_paths(h.body, name) for h in s.handlers)
    return False


_ends_with_return_assign = _assigns_on_all_paths


# ------------------------------------------- step 2: tables, getattr, f-strings
class _ConstFold(ast.NodeTransformer):
    def visit_IfExp(self, n):
        self.generic_visit(n)
        if isinstance(n.test, ast.Constant):
            return n.body if n.test.value else n.orelse
        return n

    def visit_BinOp(self, n):
        self.generic_visit(n)
        if isinstance(n.op, ast.Add) and isinstance(
                n.left, ast.Constant) and isinstance(
                n.right, ast.Constant) and isinstance(
                n.left.value, str) and isinstance(n.right.value, str):
            return ast.copy_location(
                ast.Constant(n.left.value + n.right.value), n)
        return n

    def visit_UnaryOp(self, n):
        self.generic_visit(n)
        if isinstance(n.op, ast.Not) and isinstance(n.operand, ast.Constant) \
                and isinstance(n.operand.value, (bool, type(None))):
            return ast.copy_location(ast.Constant(not n.operand.value), n)
        return n

    def visit_If(self, n):
        self.generic_visit(n)
        if isinstance(n.test, ast.Constant):
            arm = n.body if n.test.value else n.orelse
            return arm or ast.Pass()
        return n

    def visit_ListComp(self, n):
        self.generic_visit(n)
        if len(n.generators) == 1 and not n.generators[0].ifs and \
                isinstance(n.generators[0].iter, (ast.Tuple, ast.List)) and \
                isinstance(n.generators[0].target, ast.Name) and \
                len(n.generators[0].iter.elts) <= 16 and all(
                    is_pure(x) and not isinstance(x, ast.Starred)
                    for x in n.generators[0].iter.elts) and is_pure(n.elt):
            nm = n.generators[0].target.id
            return ast.copy_location(ast.List(
                [subst(copy.deepcopy(n.elt), {nm: x})
                 for x in n.generators[0].iter.elts], ast.Load()), n)
        return n

    def visit_JoinedStr(self, n):
        self.generic_visit(n)
        parts = []
        for v in n.values:
            if isinstance(v, ast.Constant):
                parts.append(str(v.value))
            elif isinstance(v, ast.FormattedValue) and isinstance(
                    v.value, ast.Constant) and v.conversion == -1 and \
                    v.format_spec is None and isinstance(
                        v.value.value, (str, int)):
                parts.append(str(v.value.value))
            else:
                return n
        return ast.copy_location(ast.Constant(''.join(parts)), n)

    def visit_Call(self, n):
        self.generic_visit(n)
        if isinstance(n.func, ast.Name) and n.func.id == 'getattr' and \
                len(n.args) == 2 and not n.keywords and isinstance(
                    n.args[1], ast.Constant) and isinstance(
                    n.args[1].value, str) and n.args[1].value.isidentifier():
            return ast.copy_location(
                ast.Attribute(n.args[0], n.args[1].value, ast.Load()), n)
        return n

    def visit_Expr(self, n):
        self.generic_visit(n)
        c = n.value
        if isinstance(c, ast.Call) and isinstance(c.func, ast.Name) and \
                c.func.id == 'setattr' and len(c.args) == 3 and \
                not c.keywords and isinstance(c.args[1], ast.Constant) and \
                isinstance(c.args[1].value, str) and \
                c.args[1].value.isidentifier():
            return ast.copy_location(ast.Assign(
                [ast.Attribute(c.args[0], c.args[1].value, ast.Store())],
                c.args[2]), n)
        return n

    def visit_Subscript(self, n):
        self.generic_visit(n)
        if isinstance(n.value, (ast.Tuple, ast.List)) and isinstance(
                n.slice, ast.Slice) and isinstance(n.ctx, ast.Load) and all(
                    is_pure(x) and not isinstance(x, ast.Starred)
                    for x in n.value.elts):
            def c(x):
                if x is None:
                    return None
                if isinstance(x, ast.Constant) and isinstance(x.value, int):
                    return x.value
                if isinstance(x, ast.UnaryOp) and isinstance(
                        x.op, ast.USub) and isinstance(
                        x.operand, ast.Constant) and isinstance(
                        x.operand.value, int):
                    return -x.operand.value
                raise ValueError
            try:
                sl = slice(c(n.slice.lower), c(n.slice.upper),
                           c(n.slice.step))
                return ast.copy_location(
                    type(n.value)(list(n.value.elts)[sl], ast.Load()), n)
            except ValueError:
                pass
        # ('a', 'b')[0] of a literal
        if isinstance(n.value, (ast.Tuple, ast.List)) and isinstance(
                n.slice, ast.Constant) and isinstance(n.slice.value, int) \
                and not isinstance(n.slice.value, bool) \
                and isinstance(n.ctx, ast.Load) and \
                -len(n.value.elts) <= n.slice.value < len(n.value.elts) and \
                all(is_pure(x) and not isinstance(x, ast.Starred)
                    for x in n.value.elts):
            return n.value.elts[n.slice.value]
        return n


def _table_items(it, scope):
    """items of a constant table the loop runs over, or None"""
    e = it
    meth = None
    if isinstance(e, ast.Call) and isinstance(e.func, ast.Attribute) and \
            e.func.attr in ('items', 'keys', 'values') and not e.args:
        meth = e.func.attr
        e = e.func.value
    lit = e if _is_literal(e) else scope.constant(e)
    if lit is None:
        return None
    if isinstance(lit, ast.Dict):
        if meth == 'items':
            return [ast.Tuple([k, v], ast.Load())
                    for k, v in zip(lit.keys, lit.values)]
        if meth == 'values':
            return list(lit.values)
        return list(lit.keys)
    if meth is not None:
        return None
    if isinstance(lit, (ast.Tuple, ast.List)):
        return list(lit.elts)
    if isinstance(lit, ast.Constant) and isinstance(lit.value, str):
        return [ast.Constant(ch) for ch in lit.value]
    return None


def unroll_tables(fn, scope, limit=24):
    def block(body):
        out = []
        for s in body:
            for fld in ('body', 'orelse', 'finalbody'):
                b = getattr(s, fld, None)
                if isinstance(b, list) and b and isinstance(b[0], ast.stmt):
                    setattr(s, fld, block(b))
            for h in getattr(s, 'handlers', []) or []:
                h.body = block(h.body)
            if isinstance(s, ast.For) and len(s.body) == 1 and isinstance(
                    s.body[0], ast.If) and not s.body[0].orelse and \
                    isinstance(s.body[0].body[-1], ast.Break) and not any(
                        isinstance(x, (ast.Break, ast.Continue))
                        for st in s.body[0].body[:-1]
                        for x in ast.walk(st)):
                # for item in TABLE: if cond(item): A(item); break
                # else: E          ->   if cond(i1): A(i1) elif ... else: E
                items = _table_items(s.iter, scope)
                tg = s.target
                if items is not None and len(items) <= limit and is_pure(
                        s.body[0].test):
                    chain = list(s.orelse)
                    ok = True
                    for it in reversed(items):
                        m = {}
                        if isinstance(tg, ast.Name):
                            m[tg.id] = it
                        elif isinstance(tg, (ast.Tuple, ast.List)) and \
                                isinstance(it, (ast.Tuple, ast.List)) and \
                                len(tg.elts) == len(it.elts) and all(
                                    isinstance(x, ast.Name) for x in tg.elts):
                            for x, y in zip(tg.elts, it.elts):
                                m[x.id] = y
                        else:
                            ok = False
                            break
                        if set(m) & _names_stored(
                                ast.Module(s.body[0].body, [])):
                            ok = False
                            break
                        test = subst(copy.deepcopy(s.body[0].test), m)
                        arm = [subst(copy.deepcopy(x), m)
                               for x in s.body[0].body[:-1]] or [ast.Pass()]
                        chain = [ast.If(test, arm, chain)]
                    # the loop variable keeps the matching item afterwards:
                    # only when nothing reads it after the loop
                    after = body[body.index(s) + 1:]
                    if ok and not any(_loads_of(n_, after)
                                      for n_ in _names_stored(tg)):
                        out += block(chain)
                        continue
            if isinstance(s, ast.For) and not s.orelse and not any(
                    isinstance(x, (ast.Break, ast.Continue))
                    for x in ast.walk(s)):
                items = _table_items(s.iter, scope)
                if items is not None and len(items) <= limit:
                    tg = s.target
                    ok = True
                    copies = []
                    for it in items:
                        m = {}
                        if isinstance(tg, ast.Name):
                            m[tg.id] = it
                        elif isinstance(tg, (ast.Tuple, ast.List)) and \
                                isinstance(it, (ast.Tuple, ast.List)) and \
                                len(tg.elts) == len(it.elts) and all(
                                    isinstance(x, ast.Name) for x in tg.elts):
                            for x, y in zip(tg.elts, it.elts):
                                m[x.id] = y
                        else:
                            ok = False
                            break
                        # the loop variable must not be re-bound in the body
                        if set(m) & _names_stored(ast.Module(s.body, [])):
                            ok = False
                            break
                        b2 = [subst(copy.deepcopy(x), m) for x in s.body]
                        copies += b2
                    if ok:
                        loaded_after = True
                        out += block(copies)
                        continue
            out.append(s)
        return out
    fn.body = block(fn.body)

    class K(ast.NodeTransformer):
        def visit_Name(self, n):
            if isinstance(n.ctx, ast.Load):
                v = scope.new_constant(n)
                if v is not None and n.id not in stored:
                    return copy.deepcopy(v)
            return n

        def visit_Attribute(self, n):
            if isinstance(n.ctx, ast.Load):
                v = scope.new_constant(n)
                if v is not None:
                    return copy.deepcopy(v)
            return self.generic_visit(n)
    stored = _names_stored(fn)
    K().visit(fn)
    _ConstFold().visit(fn)
    return fn


# ----------------------------------------------- step 3: append loops, lambdas
def append_loops(fn):
    """xs = []; for t in it: xs.append(e)  ->  xs = [e for t in it]"""
    def block(body):
        out = []
        i = 0
        while i < len(body):
            s = body[i]
            for fld in ('body', 'orelse', 'finalbody'):
                b = getattr(s, fld, None)
                if isinstance(b, list) and b and isinstance(b[0], ast.stmt):
                    setattr(s, fld, block(b))
            for h in getattr(s, 'handlers', []) or []:
                h.body = block(h.body)
            nxt = body[i + 1] if i + 1 < len(body) else None
            if isinstance(s, ast.Assign) and len(s.targets) == 1 and \
                    isinstance(s.targets[0], ast.Name) and \
                    isinstance(s.value, ast.List) and not s.value.elts and \
                    isinstance(nxt, ast.For) and not nxt.orelse:
                name = s.targets[0].id
                for fld in ('body',):
                    nxt.body = block(nxt.body)
                comp = _as_comprehension(nxt, name)
                if comp is not None:
                    out.append(ast.Assign([ast.Name(name, ast.Store())], comp))
                    i += 2
                    continue
            out.append(s)
            i += 1
        return out
    fn.body = block(fn.body)
    return fn


def _as_comprehension(loop, name):
    body = loop.body
    # pure single-assignment temporaries in front of the append are folded in
    m = {}
    for s in body[:-1]:
        if isinstance(s, ast.Assign) and len(s.targets) == 1 and \
                isinstance(s.targets[0], ast.Name) and is_pure(s.value) and \
                s.targets[0].id not in m:
            m[s.targets[0].id] = subst(copy.deepcopy(s.value), m)
        else:
            return None
    last = body[-1]
    cond = None
    if isinstance(last, ast.If) and not last.orelse and len(last.body) == 1:
        cond = subst(copy.deepcopy(last.test), m)
        last = last.body[0]
    if not (isinstance(last, ast.Expr) and isinstance(last.value, ast.Call)
            and isinstance(last.value.func, ast.Attribute) and
            last.value.func.attr == 'append' and
            isinstance(last.value.func.value, ast.Name) and
            last.value.func.value.id == name and len(last.value.args) == 1
            and not last.value.keywords):
        return None
    elt = subst(copy.deepcopy(last.value.args[0]), m)
    if name in _names_loaded(elt) or name in _names_loaded(loop.iter) or (
            cond is not None and name in _names_loaded(cond)):
        return None
    # temporaries used several times in the element would be evaluated
    # several times: only when pure (they are)
    return ast.ListComp(elt, [ast.comprehension(
        loop.target, loop.iter, [cond] if cond is not None else [], 0)])


# --------------------------------------------------- step 4: paths, substitution
def sink_tails(fn, cap=600):
    """`if c: A else: B` followed by R  ->  `if c: A; R else: B; R` (also for
    a missing else arm), recursively: afterwards nothing follows an `if` in
    its block, every path through the function (a loop body) is a straight
    line.  Arms that end in return / raise / continue / break get no tail."""
    count = [0]

    def split(s):
        """`if a and b` / `if a or b` as nested ifs (same evaluation order)"""
        t = s.test
        if isinstance(t, ast.BoolOp) and len(t.values) >= 2:
            first = t.values[0]
            restv = t.values[1:]
            rest_test = restv[0] if len(restv) == 1 else ast.BoolOp(t.op,
                                                                   restv)
            count[0] += len(s.body) + len(s.orelse)
            if count[0] > cap:
                raise NotNormalisable('too many paths')
            if isinstance(t.op, ast.And):
                inner = ast.If(rest_test, s.body, copy.deepcopy(s.orelse))
                s.test, s.body = first, [inner]
            else:
                inner = ast.If(rest_test, copy.deepcopy(s.body), s.orelse)
                s.test, s.orelse = first, [inner]
        return s

    def block(body):
        out = []
        for i, s in enumerate(body):
            if isinstance(s, ast.For):
                s.body = block(s.body)
                s.orelse = block(s.orelse)
                out.append(s)
                continue
            if isinstance(s, ast.With):
                s.body = block(s.body)
                out.append(s)
                continue
            if isinstance(s, ast.Try):
                s.body = block(s.body)
                s.orelse = block(s.orelse)
                s.finalbody = block(s.finalbody)
                for h in s.handlers:
                    h.body = block(h.body)
                out.append(s)
                continue
            if isinstance(s, ast.If):
                while isinstance(s.test, ast.BoolOp):
                    split(s)
                tail = body[i + 1:]
                arms = []
                for arm in (s.body, s.orelse):
                    arm = list(arm)
                    if not (arm and isinstance(
                            arm[-1], (ast.Return, ast.Raise, ast.Continue,
                                      ast.Break))):
                        arm = arm + [copy.deepcopy(x) for x in tail]
                    count[0] += len(arm)
                    if count[0] > cap:
                        raise NotNormalisable('too many paths')
                    arms.append(block(arm))
                s.body = arms[0] or [ast.Pass()]
                s.orelse = arms[1]
                out.append(s)
                return out
            out.append(s)
        return out
    # every path ends in an explicit return
    for x in ast.walk(fn):
        if isinstance(x, ast.Return) and x.value is None:
            x.value = ast.Constant(None)
    if not (fn.body and isinstance(fn.body[-1], (ast.Return, ast.Raise))):
        fn.body = list(fn.body) + [ast.Return(ast.Constant(None))]
    fn.body = block(fn.body)
    return fn


def _root(e):
    while isinstance(e, (ast.Attribute, ast.Subscript, ast.Call)):
        e = e.func if isinstance(e, ast.Call) else e.value
    return e.id if isinstance(e, ast.Name) else None


def _path(e):
    """access path of an expression: ['self', 'geometry', 'radius'],
    subscripts as '[]'; None when it goes through a call"""
    out = []
    while True:
        if isinstance(e, ast.Attribute):
            out.append(e.attr)
            e = e.value
        elif isinstance(e, ast.Subscript):
            out.append('[]')
            e = e.value
        elif isinstance(e, ast.Name):
            out.append(e.id)
            return out[::-1]
        else:
            return None


def _state_roots(e):
    """access paths through which the expression reads state, as tuples;
    ('?',) for reads through the result of a call"""
    out = set()
    skip = set()
    for x in ast.walk(e):
        if id(x) in skip:
            continue
        if isinstance(x, (ast.Attribute, ast.Subscript)):
            p = _path(x)
            if p is None:
                out.add(('?',))
            elif p[0] not in ('np', 'numpy', 'math'):
                out.add(tuple(p))
            # sub-chains of this chain are covered by it
            y = x
            while isinstance(y, (ast.Attribute, ast.Subscript)):
                y = y.value
                skip.add(id(y))
    return out


_MUTATORS = ('append', 'extend', 'insert', 'sort', 'update', 'add', 'pop',
             'remove', 'clear', 'setdefault', 'fill', 'reverse', 'put',
             'resize')


def _prefix(a, b):
    return len(a) <= len(b) and tuple(b[:len(a)]) == tuple(a)


def _touches(s, roots):
    """the statement may change state read through one of the access paths:
    a store to a path that is a prefix / an extension of a read path; a call
    that is not pure whose receiver (or an argument) is a proper prefix of a
    read path - the callee can change the fields of the objects it is given -
    and a method of `self` anything below self"""
    if ('?',) in roots:
        return _is_effect(s)
    for x in ast.walk(s):
        if isinstance(x, (ast.Attribute, ast.Subscript)) and isinstance(
                x.ctx, (ast.Store, ast.Del)):
            p = _path(x)
            if p is None:
                return True
            if any(_prefix(p, q) or _prefix(q, p) for q in roots):
                return True
        if isinstance(x, ast.AugAssign) and isinstance(
                x.target, ast.Name) and any(q[0] == x.target.id
                                            for q in roots):
            return True
        if isinstance(x, ast.Call) and not _pure_call(x):
            given = []
            if isinstance(x.func, ast.Attribute):
                given.append(x.func.value)
            given += list(x.args) + [k.value for k in x.keywords]
            for g in given:
                # what the callee is handed: the object the expression
                # denotes (an expression that computes a new value hands
                # over nothing the caller can still see)
                tops = [g]
                if isinstance(g, (ast.Tuple, ast.List)):
                    tops = list(g.elts)
                for y in tops:
                    if isinstance(y, ast.Starred):
                        y = y.value
                    if not isinstance(y, (ast.Name, ast.Attribute,
                                          ast.Subscript)):
                        continue
                    p = _path(y)
                    if p is None:
                        return True
                    for q in roots:
                        if _prefix(p, q):
                            return True
    return False


def forward_substitute(fn):
    """path-wise substitution of pure bindings (after sink_tails)"""
    params = {a.arg for a in fn.args.args + fn.args.kwonlyargs}
    if fn.args.vararg:
        params.add(fn.args.vararg.arg)
    if fn.args.kwarg:
        params.add(fn.args.kwarg.arg)
    comp_names = set()
    for x in ast.walk(fn):
        if isinstance(x, (ast.ListComp, ast.SetComp, ast.DictComp,
                          ast.GeneratorExp)):
            for g in x.generators:
                comp_names |= _names_stored(g.target)
        if isinstance(x, ast.Lambda):
            comp_names |= {a.arg for a in x.args.args}
    ssa = [0]
    real_now = [set()]
    for x in ast.walk(fn):
        if getattr(x, '_applied', False):
            x._applied = False

    def mutated_in(name, stmts):
        """the object bound to the name is changed in place / may escape"""
        for s in stmts:
            for x in ast.walk(s):
                if isinstance(x, ast.AugAssign) and isinstance(
                        x.target, ast.Name) and x.target.id == name:
                    return True
                if isinstance(x, (ast.Subscript, ast.Attribute)) and \
                        isinstance(x.ctx, ast.Store) and _root(x) == name:
                    return True
                if isinstance(x, ast.Call) and isinstance(
                        x.func, ast.Attribute) and x.func.attr in _MUTATORS \
                        and _root(x.func.value) == name:
                    return True
        return False

    def consumed_only(name, stmts):
        for st in stmts:
            parent = {}
            for x in ast.walk(st):
                for ch in ast.iter_child_nodes(x):
                    parent[id(ch)] = x
            for x in ast.walk(st):
                if not (isinstance(x, ast.Name) and x.id == name and
                        isinstance(x.ctx, ast.Load)):
                    continue
                p_ = parent.get(id(x))
                if isinstance(p_, (ast.Tuple, ast.List)) and isinstance(
                        p_.ctx, ast.Load):
                    # an element of a display handed to a pure function that
                    # builds something new from it (np.concatenate((a, b)))
                    gp = parent.get(id(p_))
                    if isinstance(gp, ast.Call) and _pure_call(gp) and \
                            _call_name(gp)[1] in (
                                'concatenate', 'stack', 'hstack', 'vstack',
                                'column_stack', 'array', 'sum', 'max', 'min',
                                'meshgrid', 'dot', 'cross'):
                        continue
                    return False
                if isinstance(p_, (ast.BinOp, ast.UnaryOp, ast.Compare,
                                   ast.BoolOp, ast.FormattedValue)):
                    continue
                if isinstance(p_, ast.Subscript) and (isinstance(
                        p_.ctx, ast.Load) or p_.slice is x):
                    continue
                if isinstance(p_, ast.Attribute) and isinstance(
                        p_.ctx, ast.Load):
                    gp = parent.get(id(p_))
                    if isinstance(gp, ast.Call) and gp.func is p_ and \
                            not _pure_call(gp):
                        return False
                    continue
                if isinstance(p_, ast.Call) and _pure_call(p_) and \
                        x is not p_.func:
                    base, nm_ = _call_name(p_)
                    if nm_ in ('asarray', 'atleast_1d', 'ravel', 'reshape',
                               'squeeze', 'real', 'transpose', 'list',
                               'tuple', 'zip', 'enumerate', 'reversed') and \
                            p_.args and p_.args[0] is x:
                        return False      # may hand back the same object
                    continue
                if isinstance(p_, (ast.If, ast.IfExp)) and p_.test is x:
                    continue
                if isinstance(p_, ast.keyword):
                    gp = parent.get(id(p_))
                    if isinstance(gp, ast.Call) and _pure_call(gp):
                        continue
                return False
        return True

    def aug_assigned(name, stmts):
        return any(isinstance(x, ast.AugAssign) and isinstance(
            x.target, ast.Name) and x.target.id == name
            for st in stmts for x in ast.walk(st))

    def first_evaluated(holder, nm, val):
        """the one load of nm is the first thing the expression evaluates
        that is not a constant or a plain local (evaluation order is left to
        right, operands before the operation), in an unconditional position"""
        if id_of_load(holder, nm) in _conditional_nodes(holder):
            return False
        order = []

        def walk(e):
            # post-order = evaluation order for the node kinds below
            if isinstance(e, ast.Compare):
                walk(e.left)
                for c in e.comparators:
                    walk(c)
            elif isinstance(e, ast.BinOp):
                walk(e.left)
                walk(e.right)
            elif isinstance(e, ast.Call):
                walk(e.func)
                for a in e.args:
                    walk(a)
                for k in e.keywords:
                    walk(k.value)
            else:
                for ch in ast.iter_child_nodes(e):
                    if isinstance(ch, ast.expr):
                        walk(ch)
            order.append(e)
        walk(holder)
        earlier = set()
        for e in order:
            if isinstance(e, ast.Name) and e.id == nm and \
                    isinstance(e.ctx, ast.Load):
                # what was read before the call must be out of its reach
                return not earlier or not _touches(ast.Expr(val), earlier)
            if isinstance(e, (ast.Constant, ast.Name, ast.Slice, ast.Tuple)):
                continue
            if isinstance(e, (ast.Attribute, ast.Subscript)):
                p_ = _path(e)
                if p_ is None:
                    return False
                if p_[0] not in ('np', 'numpy', 'math'):
                    earlier.add(tuple(p_))
                continue
            return False
        return False

    def id_of_load(holder, nm):
        for x in ast.walk(holder):
            if isinstance(x, ast.Name) and x.id == nm and \
                    isinstance(x.ctx, ast.Load):
                return id(x)
        return None

    def may_raise(val):
        for x in ast.walk(val):
            if isinstance(x, ast.Subscript) and isinstance(
                    x.slice, ast.Constant):
                return True
            if isinstance(x, ast.Call):
                base, nm_ = _call_name(x)
                if base is None and nm_ in ('float', 'int', 'complex',
                                            'next', 'iter'):
                    return True
                if nm_ in ('index', 'item', 'loadtxt', 'load'):
                    return True
        return False

    def can_substitute(nm, val, rest):
        if nm in comp_names:
            return False
        if not is_pure(val):
            # the result of a call with effects, used once, by the very next
            # statement, as the first thing that statement evaluates: the
            # call happens at the same point either way
            if _loads_of(nm, rest) != 1 or not rest or \
                    _loads_of(nm, rest[:1]) != 1:
                return False
            st = rest[0]
            holder = None
            if isinstance(st, (ast.Return, ast.Expr)) or (
                    isinstance(st, ast.Assign) and not any(
                        _loads_of(nm, [ast.Expr(t)]) for t in st.targets
                        if not isinstance(t, ast.Name))):
                holder = st.value
            elif isinstance(st, ast.If):
                holder = st.test
            elif isinstance(st, ast.For):
                holder = st.iter
            if holder is None or _loads_of(nm, [ast.Expr(holder)]) != 1:
                return False
            return first_evaluated(holder, nm, val)
        n_use = _path_uses(nm, rest)
        if _loads_of(nm, rest) == 0:
            return True           # never read on this path: nothing to keep
        if aug_assigned(nm, rest):
            return False
        denotes = isinstance(val, (ast.Name, ast.Constant)) or (
            _path(val) is not None) or _index_arithmetic(val)
        if not denotes:
            # the expression makes a new object on every evaluation: it may
            # be evaluated several times only where the object is consumed
            # (an operand, an argument of a pure function, an index), and
            # never where it is changed in place
            if mutated_in(nm, rest):
                return False
            if n_use > 1 and not consumed_only(nm, rest):
                return False
        if may_raise(val):
            # an evaluation that fails for some inputs (a missing index, a
            # text that is not a number) stays on its side of every effect:
            # what is stored before the failure is behaviour
            if not _uses_before_effects(nm, rest)[0]:
                return False
        roots = _state_roots(val)
        if roots:
            last = max(i for i, st in enumerate(rest) if _loads_of(nm, [st]))
            if any(_touches(st, roots) for st in rest[:last]):
                return False
            st = rest[last]
            if isinstance(st, (ast.If, ast.For)):
                hdr = st.test if isinstance(st, ast.If) else st.iter
                if _loads_of(nm, st.body + st.orelse) and _touches(st, roots):
                    return False
        # names the value is written in must keep their meaning up to the
        # last use: a real variable re-bound in between breaks that
        free = {n_ for n_ in _names_loaded(val)
                if n_ in real_now[0] or aug_assigned(n_, rest)}
        if free:
            last = max(i for i, st in enumerate(rest) if _loads_of(nm, [st]))
            for st in rest[:last + 1]:
                if _names_stored(st) & free:
                    return False
        return True

    def loop_vars(loop, after):
        """names that carry a value from one pass to the next or out of the
        loop; a name that every pass binds at the top of the body before it
        reads it, and that nothing reads after the loop, is local to a pass"""
        stored = _names_stored(ast.Module(loop.body, []))
        carried = set(_names_stored(loop.target))
        seen_store = set()
        local = set()
        for st in loop.body:
            if isinstance(st, (ast.If, ast.For)):
                break
            loaded = _names_loaded(st)
            if isinstance(st, ast.AugAssign) and isinstance(
                    st.target, ast.Name):
                loaded = loaded | {st.target.id}
            for nm in loaded & stored:
                if nm not in seen_store:
                    carried.add(nm)
            if isinstance(st, ast.Assign):
                for t in st.targets:
                    seen_store |= _names_stored(t)
        for nm in stored - carried:
            if nm in seen_store and not _loads_of(nm, after):
                # first touched by a top-level binding; reads in nested
                # statements come later in the pass
                local.add(nm)
        # names local to a pass of a nested loop are local here as well
        for j, st in enumerate(loop.body):
            if isinstance(st, ast.For):
                after_f = loop.body[j + 1:] + list(after)
                inner = _names_stored(ast.Module(st.body, [])) - \
                    loop_vars(st, after_f)
                outside = loop.body[:j] + loop.body[j + 1:]
                for nm in inner:
                    if not _loads_of(nm, outside) and \
                            nm not in _names_stored(ast.Module(outside, [])) \
                            and not _loads_of(nm, after):
                        local.add(nm)
        return (stored - local) | carried

    def block(body, env, real):
        """env: name -> expression it stands for on this path; real: names
        that are kept as variables (loop-carried)"""
        out = []
        body = list(body)
        i = -1
        while i + 1 < len(body):
            i += 1
            s = body[i]
            rest = body[i + 1:]
            real_now[0] = real
            if isinstance(s, ast.Assign) and len(s.targets) == 1 and \
                    isinstance(s.targets[0], (ast.Tuple, ast.List)) and \
                    not getattr(s, '_applied', False):
                s.value = apply(s.value, env)
                s._applied = True
            if isinstance(s, ast.Assign) and len(s.targets) == 1 and \
                    isinstance(s.targets[0], (ast.Tuple, ast.List)) and \
                    isinstance(s.value, (ast.Tuple, ast.List)) and \
                    len(s.value.elts) == len(s.targets[0].elts) and \
                    not any(isinstance(t, ast.Starred)
                            for t in s.targets[0].elts):
                # T1, T2 = (e1, e2)  ->  T1 = e1; T2 = e2 when no later
                # element reads what an earlier target writes
                tg, vs = s.targets[0].elts, s.value.elts
                ok = all(is_pure(v) for v in vs)
                for a in range(len(tg)):
                    pa = _path(tg[a])
                    for b in range(a + 1, len(tg)):
                        if pa is None:
                            ok = False
                        elif isinstance(tg[a], ast.Name):
                            if tg[a].id in _names_loaded(vs[b]):
                                ok = False
                        elif any(_prefix(pa, q) or _prefix(q, pa)
                                 for q in _state_roots(vs[b])):
                            ok = False
                if ok:
                    new = [ast.Assign([t], v) for t, v in zip(tg, vs)]
                    for a_ in new:
                        a_._applied = True
                    body[i:i + 1] = new
                    i -= 1
                    continue
            if isinstance(s, ast.Assign) and len(s.targets) == 1 and \
                    isinstance(s.targets[0], ast.Name):
                nm = s.targets[0].id
                val = s.value if getattr(s, '_applied', False) \
                    else apply(s.value, env)
                if nm not in real and can_substitute(nm, val, rest):
                    env[nm] = val
                    continue
                s.value = val
                rebind(s.targets[0], env, real, rest)
                out.append(s)
                continue
            if isinstance(s, ast.Assign) and len(s.targets) == 1 and \
                    isinstance(s.targets[0], (ast.Tuple, ast.List)) and \
                    isinstance(s.value, (ast.Tuple, ast.List)) and \
                    len(s.value.elts) == len(s.targets[0].elts) and all(
                        isinstance(t, ast.Name)
                        for t in s.targets[0].elts):
                vals = list(s.value.elts) if getattr(s, '_applied', False) \
                    else [apply(v, env) for v in s.value.elts]
                names = [t.id for t in s.targets[0].elts]
                if len(set(names)) == len(names) and all(
                        n_ not in real and can_substitute(n_, v, rest) and
                        not (_names_loaded(v) & set(names))
                        for n_, v in zip(names, vals)):
                    for n_, v in zip(names, vals):
                        env[n_] = v
                    continue
                s.value = ast.Tuple(vals, ast.Load())
                for t in s.targets[0].elts:
                    rebind(t, env, real, rest)
                out.append(s)
                continue
            if isinstance(s, (ast.Assign, ast.AugAssign)):
                if not getattr(s, '_applied', False):
                    s.value = apply(s.value, env)
                if isinstance(s, ast.Assign):
                    s.targets = [apply_target(t, env) for t in s.targets]
                    for t in s.targets:
                        for x in ast.walk(t):
                            if isinstance(x, ast.Name) and isinstance(
                                    x.ctx, ast.Store):
                                rebind(x, env, real, rest)
                else:
                    if isinstance(s.target, ast.Name):
                        nm = s.target.id
                        if nm in env:
                            # x += e on a substituted name: x = x op e
                            cur = env.pop(nm)
                            out.append(ast.Assign(
                                [ast.Name(nm, ast.Store())],
                                ast.BinOp(cur, s.op, s.value)))
                            continue
                    else:
                        s.target = apply_target(s.target, env)
                out.append(s)
                continue
            if isinstance(s, (ast.Return, ast.Expr)):
                if s.value is not None:
                    s.value = apply(s.value, env)
                out.append(s)
                continue
            if isinstance(s, ast.Raise):
                if s.exc is not None:
                    s.exc = apply(s.exc, env)
                if s.cause is not None:
                    s.cause = apply(s.cause, env)
                out.append(s)
                continue
            if isinstance(s, ast.If):
                s.test = apply(s.test, env)
                s.body = block(s.body, dict(env), real) or [ast.Pass()]
                s.orelse = block(s.orelse, dict(env), real)
                out.append(s)
                continue
            if isinstance(s, ast.For):
                s.iter = apply(s.iter, env)
                lv = loop_vars(s, rest)
                # loop-carried names become real variables from here on
                for nm in sorted(lv):
                    if nm in env:
                        out.append(ast.Assign([ast.Name(nm, ast.Store())],
                                              env.pop(nm)))
                inner_real = real | lv
                s.body = block(s.body, dict(env), inner_real)
                real = inner_real
                if s.orelse:
                    s.orelse = block(s.orelse, dict(env), real)
                out.append(s)
                continue
            if isinstance(s, (ast.Pass,)):
                continue
            if isinstance(s, (ast.Continue, ast.Break)):
                out.append(s)
                continue
            if isinstance(s, ast.With):
                for it in s.items:
                    it.context_expr = apply(it.context_expr, env)
                    if it.optional_vars is not None:
                        for n_ in _names_stored(it.optional_vars):
                            env.pop(n_, None)
                            real = real | {n_}
                straight = not any(isinstance(x, (ast.If, ast.For, ast.Try,
                                                  ast.With))
                                   for st in s.body for x in ast.walk(st))
                if straight:
                    # bindings flow out of the block
                    s.body = block(s.body, env, real) or [ast.Pass()]
                else:
                    keep = {n_ for n_ in _names_stored(
                        ast.Module(s.body, [])) if _loads_of(n_, rest)}
                    for nm in sorted(keep):
                        if nm in env:
                            out.append(ast.Assign(
                                [ast.Name(nm, ast.Store())], env.pop(nm)))
                    s.body = block(s.body, dict(env), real | keep) or \
                        [ast.Pass()]
                    real = real | keep
                    for n_ in _names_stored(ast.Module(s.body, [])):
                        env.pop(n_, None)
                out.append(s)
                continue
            if isinstance(s, ast.Try):
                others = s.orelse + s.finalbody + \
                    [x for h in s.handlers for x in h.body]
                keep = _names_stored(ast.Module(others, [])) | {
                    n_ for n_ in _names_stored(ast.Module(s.body, []))
                    if _loads_of(n_, others + rest)}
                for nm in sorted(keep):
                    if nm in env:
                        out.append(ast.Assign([ast.Name(nm, ast.Store())],
                                              env.pop(nm)))
                inner = real | keep
                s.body = block(s.body, dict(env), inner) or [ast.Pass()]
                s.orelse = block(s.orelse, dict(env), inner)
                s.finalbody = block(s.finalbody, dict(env), inner)
                for h in s.handlers:
                    if h.type is not None:
                        h.type = apply(h.type, env)
                    h.body = block(h.body, dict(env), inner) or [ast.Pass()]
                real = inner
                out.append(s)
                continue
            raise NotNormalisable(type(s).__name__)
        return out

    def rebind(target, env, real, rest):
        """a binding that stays: outside loops it gets a name of its own (so
        that a parameter that is re-bound and a fresh local look alike)"""
        nm = target.id
        env.pop(nm, None)
        if nm in real or nm in comp_names or mutated_in(nm, rest) and False:
            return
        ssa[0] += 1
        new = f'{nm}__{ssa[0]}'
        target.id = new
        env[nm] = ast.Name(new, ast.Load())

    def apply(e, env):
        m = {nm: env[nm] for nm in _names_loaded(e) if nm in env}
        return subst(e, m)

    def apply_target(t, env):
        if isinstance(t, ast.Name):
            return t
        if isinstance(t, (ast.Tuple, ast.List)):
            t.elts = [apply_target(x, env) for x in t.elts]
            return t
        if isinstance(t, ast.Attribute):
            t.value = apply(t.value, env)
            return t
        if isinstance(t, ast.Subscript):
            t.value = apply(t.value, env)
            t.slice = apply(t.slice, env)
            return t
        raise NotNormalisable('assignment target')
    fn.body = block(fn.body, {}, set()) or [ast.Pass()]
    return fn


def _is_effect(s):
    """the statement (with everything nested in it) does something besides
    binding local names: a call that is not pure, a store through an
    attribute or a subscript, an in-place operation, a raise"""
    for x in ast.walk(s):
        if isinstance(x, ast.Call) and not _pure_call(x):
            return True
        if isinstance(x, (ast.Attribute, ast.Subscript)) and isinstance(
                x.ctx, (ast.Store, ast.Del)):
            return True
        if isinstance(x, (ast.AugAssign, ast.Raise, ast.Await, ast.Yield,
                          ast.YieldFrom)):
            return True
    return False


def _loads_of(name, stmts):
    return sum(1 for s in stmts for x in ast.walk(s)
               if isinstance(x, ast.Name) and isinstance(x.ctx, ast.Load)
               and x.id == name)


def _path_uses(name, stmts):
    """largest number of evaluations of the name on one path through the
    statements (a loop body counts as many)"""
    n = 0
    for s in stmts:
        if isinstance(s, ast.If):
            n += _loads_of(name, [ast.Expr(s.test)]) + max(
                _path_uses(name, s.body), _path_uses(name, s.orelse))
        elif isinstance(s, ast.For):
            n += _loads_of(name, [ast.Expr(s.iter)])
            if _loads_of(name, s.body):
                n += 99
        elif isinstance(s, ast.Try):
            n += _loads_of(name, [s])
        elif isinstance(s, ast.With):
            n += sum(_loads_of(name, [ast.Expr(i.context_expr)])
                     for i in s.items) + _path_uses(name, s.body)
        else:
            n += _loads_of(name, [s])
    return n


def _uses_before_effects(name, stmts, done=False, seen=False):
    """on every path the *first* evaluation of the name happens before any
    statement with an effect has been executed (the statement performing the
    effect may itself evaluate the name: operands come first); later
    evaluations repeat one that already succeeded.
    Returns (ok, effect happened on some path, evaluated on every path)"""
    for s in stmts:
        if seen:
            return True, done, True
        if isinstance(s, ast.If):
            if _loads_of(name, [ast.Expr(s.test)]):
                if done:
                    return False, True, True
                seen = True
                continue
            if _is_effect(ast.Expr(s.test)):
                done = True
            a, da, sa = _uses_before_effects(name, s.body, done, seen)
            b, db, sb = _uses_before_effects(name, s.orelse, done, seen)
            if not (a and b):
                return False, True, True
            done = done or da or db
            seen = sa and sb
            if not seen and (sa or sb) and (da or db or done):
                # evaluated on one arm only: the other arm may reach a later
                # use after an effect
                pass
        elif isinstance(s, (ast.For, ast.Try, ast.With)):
            if _loads_of(name, [s]):
                hdr = s.iter if isinstance(s, ast.For) else None
                in_hdr = hdr is not None and _loads_of(name, [ast.Expr(hdr)])
                if done:
                    return False, True, True
                if in_hdr:
                    seen = True
                    continue
                if _is_effect(s):
                    return False, True, True
                seen = True
            done = done or _is_effect(s)
        else:
            if _loads_of(name, [s]):
                if done:
                    return False, True, True
                seen = True
                continue
            done = done or _is_effect(s)
    return True, done, seen


def _index_arithmetic(e):
    """k + 1, n - 2, 2 * k with integer literals: an integer (immutable)"""
    if isinstance(e, ast.BinOp) and isinstance(
            e.op, (ast.Add, ast.Sub, ast.Mult, ast.FloorDiv)):
        sides = (e.left, e.right)
        if any(isinstance(x, ast.Constant) and isinstance(x.value, int) and
               not isinstance(x.value, bool) for x in sides) and all(
                isinstance(x, ast.Constant) or _path(x) is not None or
                _index_arithmetic(x) for x in sides):
            return True
    return False


def unique_loop_vars(fn):
    """loop and comprehension variables that nothing reads outside their
    loop get a name of their own (the same spelling used by several loops
    is not a connection between them)"""
    k = [0]

    def ren(node, names):
        m = {}
        for nm in names:
            k[0] += 1
            m[nm] = f'lv{k[0]}_'

        class R(ast.NodeTransformer):
            def visit_Name(self, n):
                if n.id in m:
                    n.id = m[n.id]
                return n
        R().visit(node)

    def comp(n):
        names = set()
        for g in n.generators:
            names |= _names_stored(g.target)
        # the first iterable belongs to the enclosing scope
        first = n.generators[0].iter
        n.generators[0].iter = ast.Constant(None)
        ren(n, names)
        n.generators[0].iter = first
    for x in ast.walk(fn):
        if isinstance(x, (ast.ListComp, ast.SetComp, ast.DictComp,
                          ast.GeneratorExp)):
            comp(x)
    for owner, fld, body in list(_all_blocks(fn)):
        for i, s in enumerate(body):
            if isinstance(s, ast.For):
                names = _names_stored(s.target)
                outside = 0
                for nm in list(names):
                    total = sum(1 for z in ast.walk(fn) if isinstance(
                        z, ast.Name) and z.id == nm)
                    inside = sum(1 for z in ast.walk(s) if isinstance(
                        z, ast.Name) and z.id == nm)
                    if total != inside:
                        names.discard(nm)
                if names:
                    it = s.iter
                    s.iter = ast.Constant(None)
                    ren(s, names)
                    s.iter = it
    return fn


def coalesce_copies(fn):
    """`x = y` (both plain names) where y is not read afterwards: x is y"""
    changed = True
    guard = 0
    while changed and guard < 50:
        changed = False
        guard += 1
        for owner, fld, body in _all_blocks(fn):
            for i, s in enumerate(body):
                if isinstance(s, ast.Assign) and len(s.targets) == 1 and \
                        isinstance(s.targets[0], ast.Name) and \
                        isinstance(s.value, ast.Name):
                    x, y = s.targets[0].id, s.value.id
                    if x == y:
                        del body[i]
                        changed = True
                        break
                    rest = body[i + 1:]
                    # y dead after the copy (in this block and, because
                    # tails are sunk, on the whole path); x bound only here
                    if _loads_of(y, rest) or y in _names_stored(
                            ast.Module(rest, [])):
                        continue
                    nx = sum(1 for z in ast.walk(fn) if isinstance(
                        z, ast.Name) and z.id == x and isinstance(
                        z.ctx, ast.Store))
                    if nx != 1 and not _only_rebound_in(x, rest, fn):
                        continue
                    if _inside_loop(fn, s):
                        continue
                    for st in rest:
                        for z in ast.walk(st):
                            if isinstance(z, ast.Name) and z.id == x:
                                z.id = y
                    del body[i]
                    changed = True
                    break
            if changed:
                break
    return fn


def _only_rebound_in(x, rest, fn):
    total = sum(1 for z in ast.walk(fn) if isinstance(z, ast.Name) and
                z.id == x and isinstance(z.ctx, ast.Store))
    inrest = sum(1 for st in rest for z in ast.walk(st)
                 if isinstance(z, ast.Name) and z.id == x and
                 isinstance(z.ctx, ast.Store))
    return total == inrest + 1


def _inside_loop(fn, stmt):
    for x in ast.walk(fn):
        if isinstance(x, ast.For) and any(y is stmt for y in ast.walk(x)):
            return True
    return False


def _all_blocks(node):
    for fld in ('body', 'orelse', 'finalbody'):
        b = getattr(node, fld, None)
        if isinstance(b, list) and b and isinstance(b[0], ast.stmt):
            yield node, fld, b
            for st in list(b):
                yield from _all_blocks(st)
    for h in getattr(node, 'handlers', []) or []:
        yield from _all_blocks(h)


# --------------------------------------------------------- step 5: local names
def rename_locals(fn):
    params = {a.arg for a in fn.args.args + fn.args.kwonlyargs}
    if fn.args.vararg:
        params.add(fn.args.vararg.arg)
    if fn.args.kwarg:
        params.add(fn.args.kwarg.arg)
    stored = _names_stored(ast.Module(fn.body, []))
    order = {}

    class V(ast.NodeVisitor):
        def visit_Name(self, n):
            if n.id in stored and n.id not in params and n.id not in order:
                order[n.id] = f'v{len(order)}'

        def visit_arg(self, n):
            if n.arg in stored and n.arg not in params and \
                    n.arg not in order:
                order[n.arg] = f'v{len(order)}'

        def visit_Assign(self, n):
            # value first (evaluation order), then targets
            self.visit(n.value)
            for t in n.targets:
                self.visit(t)

        def visit_For(self, n):
            self.visit(n.iter)
            self.visit(n.target)
            for s in n.body + n.orelse:
                self.visit(s)

        def _comp(self, n):
            for g in n.generators:
                self.visit(g.iter)
                self.visit(g.target)
                for c in g.ifs:
                    self.visit(c)
            for fld in ('key', 'value', 'elt'):
                if hasattr(n, fld):
                    self.visit(getattr(n, fld))
        visit_ListComp = visit_SetComp = visit_DictComp = \
            visit_GeneratorExp = _comp
    for s in fn.body:
        V().visit(s)

    class R(ast.NodeTransformer):
        def visit_Name(self, n):
            if n.id in order:
                n.id = order[n.id]
            return n

        def visit_arg(self, n):
            if n.arg in order:
                n.arg = order[n.arg]
            return n
    for s in fn.body:
        R().visit(s)
    return fn


# -------------------------------------------------------------------- driver
def normal_form2(fn, scope):
    """digest of the second normal form, or None when the function is outside
    the fragment"""
    from . import canon
    try:
        g = copy.deepcopy(fn)
        _strip_doc_and_annotations(g)
        g.decorator_list = [d for d in g.decorator_list]
        _check_supported(g)
        inline_helpers(g, scope)
        _check_supported(g)
        unique_loop_vars(g)
        prev = None
        for _round in range(4):
            canon.expand_ifexp(g)
            unroll_tables(g, scope)
            append_loops(g)
            sink_tails(g)
            forward_substitute(g)
            _ConstFold().visit(g)
            for x in ast.walk(g):
                for fld in ('body', 'orelse', 'finalbody'):
                    b = getattr(x, fld, None)
                    if isinstance(b, list) and any(
                            isinstance(y, list) for y in b):
                        flat = []
                        for y in b:
                            flat += y if isinstance(y, list) else [y]
                        setattr(x, fld, flat)
            cur = ast.dump(g)
            if cur == prev:
                break
            prev = cur
        coalesce_copies(g)
        g = canon._NormalIf().visit(g)
        rename_locals(g)
        g = canon._Normal().visit(g)
        ast.fix_missing_locations(g)
        return hashlib.sha1(ast.dump(g).encode()).hexdigest(), g
    except NotNormalisable:
        return None, None
    except RecursionError:
        return None, None

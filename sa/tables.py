"""Frozen tables confirmed by reading the repository (DESIGN appendix A)."""

# A.4 prescription state: (class, attribute)
PRESC = set()
for _c, _attrs in {
    'CoordinateSystem': 'x y z rx ry rz reference_cs',
    'BaseGeometry': 'cs',
    'StandardGeometry': 'radius k',
    'Plane': 'radius',
    'NewtonRaphsonGeometry': 'tol max_iter',
    'EvenAsphere': 'c',
    'PolynomialGeometry': 'c',
    'ChebyshevPolynomialGeometry': 'c norm_x norm_y',
    'Surface': 'geometry material_pre material_post is_stop aperture coating '
               'bsdf is_reflective',
    'SurfaceGroup': 'surfaces',
    'Aperture': 'ap_type value object_space_telecentric',
    'RadialAperture': 'r_max r_min',
    'Field': 'x y vx vy field_type',
    'FieldGroup': 'fields telecentric',
    'Wavelength': '_value _unit _value_in_um is_primary',
    'WavelengthGroup': 'wavelengths',
    'IdealMaterial': 'index absorp',
    'Optic': 'aperture field_type surface_group fields wavelengths '
             'polarization obj_space_telecentric pickups solves',
    'PickupManager': 'pickups',
    'SolveManager': 'solves',
    'SimpleCoating': 'transmittance reflectance absorptance',
}.items():
    for _a in _attrs.split():
        PRESC.add((_c, _a))

# list-valued prescription attributes (list mutators count as writes)
PRESC_LISTS = {('SurfaceGroup', 'surfaces'), ('FieldGroup', 'fields'),
               ('WavelengthGroup', 'wavelengths'), ('PickupManager', 'pickups'),
               ('SolveManager', 'solves'), ('EvenAsphere', 'c')}


def presc_key(P, base_t, attr):
    """the PRESC entry a store (base type, attr) hits, if any."""
    if not isinstance(base_t, str) or base_t not in P.classes:
        return None
    for c in P.mro(base_t):
        if (c, attr) in PRESC:
            return (c, attr)
    for c in P.subclasses(base_t):
        if (c, attr) in PRESC:
            return (c, attr)
    return None

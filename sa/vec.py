"""E6v: symbolic evaluation of the small numpy vector / matrix fragment used by
the polarisation code (one ray: the leading batch axis is dropped).

Values: Rat scalar, V (3-tuple of Rat), Mx (3x3 tuple of rows of Rat).
Statements: Name = expr, `v /= norm[:, np.newaxis]`, masked store
`s[mask] = expr` and `if np.any(mask):` (both decided by the scenario hook).
Expressions: np.array([a, b, c]).T, np.array([1.0, 0.0, 0.0]), np.cross,
np.linalg.norm(v, axis=1), np.stack((u, v, w), axis=1 | 2), np.matmul,
np.einsum('nij,njk,nkl->nil', A, J, B), + - * / on scalars and vectors,
np.exp(1j * phi), np.sum(np.abs(E) ** 2, axis=1), x[:, np.newaxis], x[mask].
Anything else raises Inconclusive: the caller reports an analysis error, never
a silent pass.
"""
import ast
from .pm import unparse
from .rat import Rat, Sym, Inconclusive, const_of

ZERO = Rat.const(0)
ONE = Rat.const(1)


class V(tuple):
    pass


class Mx(tuple):
    pass


def dot(u, v):
    r = ZERO
    for a, b in zip(u, v):
        r = r + a * b
    return r


def cross(u, v):
    return V((u[1] * v[2] - u[2] * v[1],
              u[2] * v[0] - u[0] * v[2],
              u[0] * v[1] - u[1] * v[0]))


def matmul(A, B):
    if isinstance(B, V):
        return V(tuple(dot(row, B) for row in A))
    cols = list(zip(*B))
    return Mx(tuple(tuple(dot(row, c) for c in cols) for row in A))


def transpose(A):
    return Mx(tuple(tuple(r) for r in zip(*A)))


class VecEv:
    def __init__(self, sym=None, attr=None, scenario=None):
        self.sym = sym or Sym()
        self.env = {}
        self.attr = attr or {}        # 'self.L0' -> Rat / V / Mx
        self.scenario = scenario or (lambda test: None)
        self.returned = None
        self.opaque_calls = {}

    # ---------------------------------------------------------------- values
    def ev(self, e):
        c = const_of(e)
        if c is not None:
            return Rat.const(c)
        if isinstance(e, ast.Constant) and isinstance(e.value, complex):
            if e.value.real == 0:
                from fractions import Fraction
                return Rat.atom('I') * Rat.const(Fraction(str(e.value.imag)))
        if isinstance(e, ast.Name):
            if e.id in self.env:
                return self.env[e.id]
            raise Inconclusive(f'unbound name {e.id}')
        if isinstance(e, ast.Attribute):
            k = unparse(e)
            if k in self.attr:
                return self.attr[k]
            if isinstance(e.value, ast.Call) and e.attr == 'T':
                return self.ev(e.value)        # (3, n).T: one ray -> vector
            return Rat.atom(k)
        if isinstance(e, ast.UnaryOp) and isinstance(e.op, ast.USub):
            return self.neg(self.ev(e.operand))
        if isinstance(e, ast.BinOp):
            a, b = self.ev(e.left), self.ev(e.right)
            return self.arith(e.op, a, b, e)
        if isinstance(e, ast.Compare):
            # a boolean mask: only usable as a mask / np.any() argument,
            # decided by the scenario hook
            return Rat.atom('mask:' + ' '.join(unparse(e).split()))
        if isinstance(e, ast.Subscript):
            s = unparse(e.slice)
            base = self.ev(e.value)
            if 'np.newaxis' in s or self.scenario(('mask', s)) is not None:
                return base
            raise Inconclusive(f'subscript {unparse(e)}')
        if isinstance(e, ast.Call):
            return self.call(e)
        if isinstance(e, (ast.Tuple, ast.List)):
            return tuple(self.ev(x) for x in e.elts)
        raise Inconclusive(f'expression {unparse(e)[:60]}')

    def neg(self, a):
        if isinstance(a, V):
            return V(tuple(-x for x in a))
        return -a

    def arith(self, op, a, b, node=None):
        if isinstance(a, V) and isinstance(b, V):
            if isinstance(op, ast.Add):
                return V(tuple(x + y for x, y in zip(a, b)))
            if isinstance(op, ast.Sub):
                return V(tuple(x - y for x, y in zip(a, b)))
            raise Inconclusive('vector * vector')
        if isinstance(a, V) and isinstance(b, Rat):
            if isinstance(op, ast.Mult):
                return V(tuple(x * b for x in a))
            if isinstance(op, ast.Div):
                return V(tuple(x / b for x in a))
            if isinstance(op, ast.Pow) and b.is_const():
                k = int(b.n.constant() / b.d.constant())
                return V(tuple(x ** k for x in a))
        if isinstance(a, Rat) and isinstance(b, V) and \
                isinstance(op, ast.Mult):
            return V(tuple(a * x for x in b))
        if isinstance(a, Rat) and isinstance(b, Rat):
            if isinstance(op, ast.Add):
                return a + b
            if isinstance(op, ast.Sub):
                return a - b
            if isinstance(op, ast.Mult):
                return a * b
            if isinstance(op, ast.Div):
                return a / b
            if isinstance(op, ast.Pow) and b.is_const():
                return a ** int(b.n.constant() / b.d.constant())
        raise Inconclusive(f'arithmetic {unparse(node)[:60] if node else ""}')

    def call(self, e):
        fn = unparse(e.func)
        kw = {k.arg: k.value for k in e.keywords}
        if fn == 'np.array' and len(e.args) == 1 and \
                isinstance(e.args[0], (ast.List, ast.Tuple)) and \
                len(e.args[0].elts) == 3:
            return V(tuple(self.ev(x) for x in e.args[0].elts))
        if fn == 'np.dot' and len(e.args) == 2:
            a, b = self.ev(e.args[0]), self.ev(e.args[1])
            if isinstance(a, V) and isinstance(b, V):
                return dot(a, b)
        if fn == 'np.sqrt' and len(e.args) == 1:
            a = self.ev(e.args[0])
            if isinstance(a, Rat):
                return self.sym.sqrt(a, label=unparse(e.args[0]))
        if fn == 'np.linalg.norm' and len(e.args) == 1 and not kw:
            v = self.ev(e.args[0])
            if isinstance(v, V):
                return self.sym.sqrt(dot(v, v), label=unparse(e.args[0]))
        if fn in self.opaque_calls:
            return self.opaque_calls[fn](e, self)
        if fn == 'np.cross' and len(e.args) == 2:
            a, b = self.ev(e.args[0]), self.ev(e.args[1])
            if isinstance(a, V) and isinstance(b, V):
                return cross(a, b)
        if fn == 'np.linalg.norm' and e.args and \
                unparse(kw.get('axis', ast.Constant(1))) == '1':
            v = self.ev(e.args[0])
            if isinstance(v, V):
                return self.sym.sqrt(dot(v, v), label=unparse(e.args[0]))
        if fn == 'np.stack' and e.args and 'axis' in kw:
            vs = self.ev(e.args[0])
            ax = unparse(kw['axis'])
            if len(vs) == 3 and all(isinstance(v, V) for v in vs):
                if ax == '1':
                    return Mx(tuple(tuple(v) for v in vs))
                if ax == '2':
                    return transpose(Mx(tuple(tuple(v) for v in vs)))
        if fn == 'np.matmul' and len(e.args) == 2:
            a, b = self.ev(e.args[0]), self.ev(e.args[1])
            if isinstance(a, Mx) and isinstance(b, (Mx, V)):
                return matmul(a, b)
        if fn == 'np.einsum' and len(e.args) == 4 and \
                isinstance(e.args[0], ast.Constant) and \
                e.args[0].value.replace(' ', '') == 'nij,njk,nkl->nil':
            a, j, b = (self.ev(x) for x in e.args[1:])
            if all(isinstance(x, Mx) for x in (a, j, b)):
                return matmul(matmul(a, j), b)
        if fn == 'np.squeeze' and e.args:
            return self.ev(e.args[0])
        if fn == 'np.exp' and len(e.args) == 1:
            a = self.ev(e.args[0])
            x = self.sym.imag_part(a)
            if x is not None:
                return self.sym.cos(x) + Rat.atom('I') * self.sym.sin(x)
        if fn == 'np.abs' and len(e.args) == 1:
            v = self.ev(e.args[0])
            # only |z|**2 is supported: mark and resolve in Pow
            return ('abs', v)
        if fn == 'np.sum' and e.args and \
                unparse(kw.get('axis', ast.Constant(1))) == '1':
            v = self.ev(e.args[0])
            if isinstance(v, V):
                return v[0] + v[1] + v[2]
        raise Inconclusive(f'call {unparse(e)[:70]}')

    def abs2(self, v):
        """|z|^2 component-wise for complex components"""
        out = []
        for z in v:
            out.append(z * self.sym.conj(z))
        return V(tuple(out))

    # ------------------------------------------------------------ statements
    def run(self, body):
        for s in body:
            if self.returned is not None:
                return
            self.stmt(s)

    def stmt(self, s):
        if isinstance(s, ast.Expr) and isinstance(s.value, ast.Constant):
            return
        if isinstance(s, ast.Assign) and len(s.targets) == 1:
            t = s.targets[0]
            v = self.evx(s.value)
            if isinstance(t, ast.Name):
                self.env[t.id] = v
                return
            if isinstance(t, ast.Tuple) and isinstance(v, tuple) and \
                    len(v) == len(t.elts) and all(
                        isinstance(x, ast.Name) for x in t.elts):
                for x, y in zip(t.elts, v):
                    self.env[x.id] = y
                return
            if isinstance(t, ast.Attribute):
                self.attr[unparse(t)] = v
                return
            if isinstance(t, ast.Subscript) and isinstance(t.value, ast.Name) \
                    and self.scenario(('mask', unparse(t.slice))) is not None:
                self.env[t.value.id] = v
                return
        if isinstance(s, ast.AugAssign) and isinstance(s.target, ast.Name):
            cur = self.env.get(s.target.id)
            if cur is None:
                raise Inconclusive('augmented assignment to unbound name')
            self.env[s.target.id] = self.arith(s.op, cur, self.ev(s.value), s)
            return
        if isinstance(s, ast.If):
            d = self.scenario(('if', unparse(s.test)))
            if d is None:
                from .rat import FORK
                d = FORK.ask(s.test)
            if d is None:
                raise Inconclusive(f'undecided branch {unparse(s.test)[:50]}')
            self.run(s.body if d else s.orelse)
            return
        if isinstance(s, ast.While) and unparse(s.test) == 'True':
            self.run(s.body)         # one pass: the body ends in return
            return
        if isinstance(s, ast.Continue):
            self.returned = ('continue',)
            return
        if isinstance(s, ast.Return):
            self.returned = self.evx(s.value)
            return
        if isinstance(s, ast.Raise):
            self.returned = ('raise',)
            return
        raise Inconclusive(f'statement {unparse(s)[:60]}')

    def evx(self, e):
        """ev with support for np.abs(E) ** 2"""
        if isinstance(e, ast.BinOp) and isinstance(e.op, ast.Pow) and \
                isinstance(e.left, ast.Call) and \
                unparse(e.left.func) == 'np.abs' and \
                const_of(e.right) == 2:
            v = self.ev(e.left.args[0])
            if isinstance(v, V):
                return self.abs2(v)
            return v * self.sym.conj(v)
        if isinstance(e, ast.Call) and unparse(e.func) == 'np.sum' and e.args:
            v = self.evx(e.args[0])
            if isinstance(v, V):
                return v[0] + v[1] + v[2]
        if isinstance(e, ast.BinOp):
            try:
                a, b = self.evx(e.left), self.evx(e.right)
                return self.arith(e.op, a, b, e)
            except Inconclusive:
                pass
        return self.ev(e)

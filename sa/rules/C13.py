"""C13 -- tracing and analysis are repeatable and free of side effects."""
import ast
from ..core import Result
from ..pm import AnalysisError, unparse, base_name
from ..paths import paths, annotate, callee_names, call_attr
from ..effects import _is_fresh_expr, LIST_MUTATORS
from ..tables import PRESC, PRESC_LISTS, presc_key

META = {
    'explanation': (
        'PURE: from every public query entry point (enumerated from the class '
        'table) the transitive closure over the resolved call graph and '
        'property reads contains no store to a prescription attribute except '
        'through fresh objects (deepcopy / constructors). NO-PARAM-MUTATION: '
        'no in-place operator, subscript store or mutating callee on a value '
        'aliasing a caller argument. RESET-FIRST: records are reset before any '
        'surface is traced and before each record; _record stores copies. '
        'RNG-SITES: random number generation only in the documented sites.'),
    'declined': ['bit-identity of floating-point results',
                 'batch independence of the Newton iteration (property allows '
                 'the intersection tolerance)'],
    'trusted': ['prescription attribute table (DESIGN A.4)',
                'freshness of numpy constructors / arithmetic / deepcopy',
                'call resolution (E0); unresolved receivers are name-based '
                'over-approximated'],
}

ANALYSIS_MODULES = ('optiland/analysis/', 'optiland/wavefront.py',
                    'optiland/psf.py', 'optiland/mtf.py')
VIEW_NAMES = ('view', 'draw', 'info', '_plot')


def entry_points(P):
    out = []
    for q in ('Optic.trace', 'Optic.trace_generic', 'Optic.n'):
        out.append(P.func(q))
    for cn in ('Paraxial', 'Aberrations'):
        if cn not in P.classes:
            raise AnalysisError(f'class {cn} not found')
        for m in P.classes[cn].methods.values():
            if not m.name.startswith('_'):
                out.append(m)
    for c in P.classes.values():
        if not c.module.startswith(ANALYSIS_MODULES):
            continue
        init = P.lookup(c.name, '__init__')
        if init is None or 'optic' not in init.params:
            continue
        out.append(init)
        for m in list(c.methods.values()) + list(c.props.values()):
            if m.name.startswith('__') or m.name.startswith(VIEW_NAMES) or \
                    m.name.startswith('_plot'):
                continue
            out.append(m)
    for cn in ('ParaxialOperand', 'AberrationOperand', 'RayOperand'):
        if cn not in P.classes:
            raise AnalysisError(f'class {cn} not found')
        out += list(P.classes[cn].methods.values())
    seen, uniq = set(), []
    for f in out:
        if f.qual not in seen:
            seen.add(f.qual)
            uniq.append(f)
    return uniq


def _stop(f):
    return f.name.startswith(VIEW_NAMES) or f.name.startswith('_plot') or \
        f.module.startswith('optiland/visualization')


def pure(ctx):
    P, eff = ctx.P, ctx.effects
    res = Result('PURE', 'no query entry point reaches a write to the lens '
                 'prescription, fields, wavelengths or aperture except through '
                 'fresh copies')
    eps = entry_points(P)
    reported = set()
    total_fns = set()
    for ep in eps:
        seen = eff.closure(ep, stop=_stop)
        total_fns |= set(seen)
        hit = False
        for q, (f, parent) in seen.items():
            if _stop(f):
                continue
            fe = eff.fe[q]
            for st in fe.stores:
                if st.fresh:
                    continue
                # constructor initialising its own new object
                if f.name == '__init__' and isinstance(st.target, ast.Attribute) \
                        and isinstance(st.target.value, ast.Name) and \
                        st.target.value.id == 'self':
                    continue
                pk = presc_key(P, st.base_t, st.attr)
                if pk is None:
                    continue
                hit = True
                key = (q, unparse(st.stmt))
                if key in reported:
                    continue
                reported.add(key)
                res.fail(ctx.finding(
                    'PURE', f, st.stmt,
                    f'query entry point {ep.qual} reaches a write to '
                    f'prescription state {pk[0]}.{pk[1]} via '
                    f'{" -> ".join(eff.chain(seen, q))}',
                    path=eff.chain(seen, q)))
            for c, base, bt, meth, stmt, fresh in fe.mutcalls:
                if fresh:
                    continue
                pk = presc_key(P, bt, base.attr)
                if pk is None or pk not in PRESC_LISTS:
                    continue
                hit = True
                key = (q, unparse(stmt))
                if key in reported:
                    continue
                reported.add(key)
                res.fail(ctx.finding(
                    'PURE', f, stmt,
                    f'query entry point {ep.qual} reaches list mutation '
                    f'{pk[0]}.{pk[1]}.{meth}() via '
                    f'{" -> ".join(eff.chain(seen, q))}',
                    path=eff.chain(seen, q)))
        if not hit:
            res.ok(f'{ep.qual}: closure of {len(seen)} functions, no '
                   f'prescription write')
        res.saw(ep)
    res.notes.append(f'{len(eps)} entry points, {len(total_fns)} functions in '
                     f'the union of closures')
    res.min_instances = 100
    if len(eps) < 100:
        raise AnalysisError(f'PURE: only {len(eps)} query entry points found, '
                            f'100 confirmed by reading')
    return res


def inverted_fresh(ctx):
    P, eff = ctx.P, ctx.effects
    res = Result('INVERTED-FRESH', 'the reverse-trace surface list is a deep '
                 'copy: every store in SurfaceGroup.inverted goes through it')
    f = P.func('SurfaceGroup.inverted')
    res.saw(f)
    fe = eff.fe[f.qual]
    n = 0
    for st in fe.stores:
        if presc_key(P, st.base_t, st.attr) is None:
            continue
        n += 1
        if st.fresh:
            res.ok(f'{unparse(st.stmt)} through deepcopy result')
        else:
            res.fail(ctx.finding('INVERTED-FRESH', f, st.stmt,
                                 'reverse trace modifies the live lens (store '
                                 'not through a deep copy)'))
    has_dc = any(isinstance(n_, ast.Call) and (
        (isinstance(n_.func, ast.Name) and n_.func.id == 'deepcopy') or
        (isinstance(n_.func, ast.Attribute) and n_.func.attr == 'deepcopy'))
        for n_ in ast.walk(f.node))
    if n and not has_dc:
        pass
    res.require(4, 'prescription stores in inverted()')
    return res


def _mutated_params(P, eff):
    """fix-point: func qual -> set of its parameters that it may mutate in
    place (directly or by passing them to a mutating callee)."""
    mut = {q: {p for p, s, how in fe.param_mut} for q, fe in eff.fe.items()}
    why = {q: {p: (s, how) for p, s, how in fe.param_mut}
           for q, fe in eff.fe.items()}
    changed = True
    rounds = 0
    while changed and rounds < 8:
        changed = False
        rounds += 1
        for q, fe in eff.fe.items():
            f = fe.func
            for c, r, s in fe.calls:
                if not r:
                    continue
                for callee in r:
                    cm = mut.get(callee.qual)
                    if not cm:
                        continue
                    params = callee.params
                    for i, a in enumerate(c.args):
                        # an array held by a caller-owned object
                        # (distribution.x) is the caller's as well
                        while isinstance(a, ast.Attribute) and isinstance(
                                a.value, (ast.Name, ast.Attribute)) and not (
                                isinstance(a.value, ast.Name) and
                                a.value.id in ('self', 'cls', 'np')):
                            a = a.value
                        if isinstance(a, ast.Name) and a.id in fe.alias and \
                                a.id not in fe.fresh_names and i < len(params) \
                                and params[i] in cm:
                            p = fe.alias[a.id]
                            if p not in mut[q]:
                                mut[q].add(p)
                                why[q][p] = (s, f'passed to {callee.qual} '
                                             f'which mutates {params[i]}')
                                changed = True
                    for k in c.keywords:
                        if isinstance(k.value, ast.Name) and \
                                k.value.id in fe.alias and \
                                k.value.id not in fe.fresh_names and \
                                k.arg in cm:
                            p = fe.alias[k.value.id]
                            if p not in mut[q]:
                                mut[q].add(p)
                                why[q][p] = (s, f'passed to {callee.qual} '
                                             f'which mutates {k.arg}')
                                changed = True
    return mut, why


def no_param_mutation(ctx):
    P, eff = ctx.P, ctx.effects
    res = Result('NO-PARAM-MUTATION', 'no query entry point (nor anything it '
                 'passes its arguments to) modifies a caller-owned array')
    mut, why = _mutated_params(P, eff)
    for ep in entry_points(P):
        res.saw(ep)
        m = {p for p in mut.get(ep.qual, set()) if p not in ('self', 'cls')}
        if m:
            for p in sorted(m):
                s, how = why[ep.qual][p]
                res.fail(ctx.finding(
                    'NO-PARAM-MUTATION', ep, s,
                    f'argument {p} of {ep.qual} is modified in place ({how}): '
                    f'the caller\'s array changes'))
        else:
            res.ok(f'{ep.qual}: no argument mutated')
    # ray constructors copy their inputs
    f = P.func('BaseRays._process_input')
    res.saw(f)
    env = P.local_env(f)
    rets = [n for n in ast.walk(f.node) if isinstance(n, ast.Return)
            and n.value is not None]
    if not rets:
        raise AnalysisError('_process_input has no return')
    for r in rets:
        if _is_fresh_expr(r.value, set(), P, env, f.cls):
            res.ok(f'_process_input returns fresh {unparse(r.value)}')
        else:
            res.fail(ctx.finding(
                'NO-PARAM-MUTATION', f, r,
                'ray constructor input is not copied: the rays alias the '
                'caller\'s array and later in-place updates modify it'))
    for cn in ('RealRays', 'ParaxialRays'):
        init = P.func(cn + '.__init__')
        res.saw(init)
        for n in ast.walk(init.node):
            if isinstance(n, ast.Assign) and isinstance(n.value, ast.Name) and \
                    n.value.id in init.params:
                res.fail(ctx.finding(
                    'NO-PARAM-MUTATION', init, n,
                    f'{cn} stores its argument {n.value.id} without copying'))
    res.min_instances = 100
    return res


def reset_first(ctx):
    P = ctx.P
    res = Result('RESET-FIRST', 'records are reset before any surface is traced '
                 '(also with skip>0), each surface trace resets its own record '
                 'before recording, and records are copies')
    f = P.func('SurfaceGroup.trace')
    res.saw(f)
    bad = None
    for p in annotate(P, f, paths(f)):
        first_trace = None
        reset_before = False
        for e in p.events:
            if e.kind != 'call':
                continue
            names = callee_names(e)
            if 'SurfaceGroup.reset' in names and first_trace is None:
                reset_before = True
            if any(n.endswith('.trace') and n != 'SurfaceGroup.trace'
                   for n in names) and first_trace is None:
                first_trace = e
        if first_trace is not None and not reset_before:
            bad = (p, first_trace)
    if bad:
        res.fail(ctx.finding('RESET-FIRST', f, bad[1].node,
                             'surfaces are traced without first resetting all '
                             'records: results of an earlier trace leak',
                             construct='trace loop without prior self.reset()',
                             path=bad[0].describe()))
    else:
        res.ok('SurfaceGroup.trace: self.reset() precedes the surface loop')
    # SurfaceGroup.reset covers all surfaces
    g = P.func('SurfaceGroup.reset')
    res.saw(g)
    loops = [n for n in ast.walk(g.node) if isinstance(n, ast.For)]
    okl = any(unparse(l.iter) == 'self.surfaces' and any(
        isinstance(c, ast.Call) and isinstance(c.func, ast.Attribute) and
        c.func.attr == 'reset' for c in ast.walk(l)) for l in loops)
    if okl:
        res.ok('SurfaceGroup.reset: for surface in self.surfaces: reset()')
    else:
        res.fail(ctx.finding('RESET-FIRST', g, g.node,
                             'SurfaceGroup.reset does not reset every surface',
                             construct='reset loop over self.surfaces'))
    # the loop of trace covers self.surfaces[skip:]
    # every function that records: reset precedes _record
    recs = []
    for fn in P.all_funcs():
        if fn.cls and 'Surface' in P.mro(fn.cls) and fn.name != '_record':
            for n in ast.walk(fn.node):
                if isinstance(n, ast.Call) and isinstance(n.func, ast.Attribute)\
                        and n.func.attr == '_record':
                    recs.append(fn)
                    break
    for fn in recs:
        res.saw(fn)
        badp = None
        for p in annotate(P, fn, paths(fn)):
            seen_reset = False
            for e in p.events:
                if e.kind == 'call' and call_attr(e) == 'reset':
                    seen_reset = True
                if e.kind == 'call' and call_attr(e) == '_record' and \
                        not seen_reset:
                    badp = (p, e)
        if badp:
            res.fail(ctx.finding('RESET-FIRST', fn, badp[1].node,
                                 'record written without resetting the '
                                 'previous record first',
                                 path=badp[0].describe()))
        else:
            res.ok(f'{fn.qual}: reset precedes _record')
    # _record stores copies
    r = P.func('Surface._record')
    res.saw(r)
    env = P.local_env(r)
    for n in ast.walk(r.node):
        if isinstance(n, ast.Assign) and isinstance(n.targets[0], ast.Attribute):
            if _is_fresh_expr(n.value, set(), P, env, r.cls) and \
                    not (isinstance(n.value, ast.Call) and
                         call_name(n.value) in ('atleast_1d', 'asarray', 'ravel')):
                res.ok(f'_record: {unparse(n)} copies')
            else:
                res.fail(ctx.finding(
                    'RESET-FIRST', r, n,
                    'the surface record aliases the live ray array: later '
                    'surfaces overwrite the recorded values'))
    # Surface.reset re-initialises every record attribute that _record writes
    rs = P.func('Surface.reset')
    written = {t.attr for n in ast.walk(r.node) if isinstance(n, ast.Assign)
               for t in n.targets if isinstance(t, ast.Attribute)}
    cleared = {t.attr for n in ast.walk(rs.node) if isinstance(n, ast.Assign)
               for t in n.targets if isinstance(t, ast.Attribute)}
    for a in sorted(written):
        if a in cleared:
            res.ok(f'Surface.reset clears record {a}')
        else:
            res.fail(ctx.finding('RESET-FIRST', rs, rs.node,
                                 f'record attribute {a} written by _record is '
                                 f'not cleared by reset()',
                                 construct=f'reset misses {a}'))
    res.require(12)
    return res


def call_name(c):
    f = c.func
    return f.attr if isinstance(f, ast.Attribute) else (
        f.id if isinstance(f, ast.Name) else None)


RNG_ALLOWED = {
    'RandomDistribution': 'the documented unseeded random pupil sampling',
    'DistributionSampler': 'tolerancing sampler (seedable)',
    'optiland/scatter.py': 'scatter kernels (BSDF sampling)',
}


def rng_sites(ctx):
    P = ctx.P
    res = Result('RNG-SITES', 'random number generation only in the documented '
                 'sites; no module-level mutable state written by query paths')
    n = 0
    for f in P.all_funcs():
        for c in ast.walk(f.node):
            if isinstance(c, ast.Call) and 'random' in unparse(c.func) and \
                    base_name(c.func) in ('np', 'random', 'numpy'):
                n += 1
                if f.cls in RNG_ALLOWED or f.module in RNG_ALLOWED:
                    res.ok(f'{f.qual}: {unparse(c.func)} (allowed)')
                else:
                    res.fail(ctx.finding(
                        'RNG-SITES', f, c,
                        'random numbers drawn outside the documented sites: '
                        'repeated identical calls are no longer bit-identical'))
    # global statements / module-level state writes in functions
    for f in P.all_funcs():
        for s in ast.walk(f.node):
            if isinstance(s, ast.Global):
                res.fail(ctx.finding('RNG-SITES', f, s,
                                     'function writes module-level state'))
    res.require(4, 'RNG call sites')
    return res


def no_stale(ctx):
    from .common import stale_cache
    return stale_cache(ctx, 'NO-STALE-STATE',
                       ['Paraxial', 'Aberrations', 'RayGenerator', 'Plane',
                        'StandardGeometry', 'NewtonRaphsonGeometry',
                        'EvenAsphere', 'PolynomialGeometry',
                        'ChebyshevPolynomialGeometry', 'CoordinateSystem',
                        'MaterialFile', 'Material', 'AbbeMaterial',
                        'IdealMaterial', 'SimpleCoating', 'FresnelCoating',
                        'JonesFresnel', 'FFTPSF', 'FFTMTF', 'GeometricMTF',
                        'Wavefront', 'SpotDiagram', 'ZernikeStandard',
                        'SurfaceFactory'],
                       'a repeated query depends on what was computed before')


def newton_batch(ctx):
    # batch independence of the iterative intersection: the convergence test
    # is the maximum of |dz| over all rays of the call
    from .C02 import on_surface
    r = on_surface(ctx)
    keep = [f for f in r.findings if 'Newton' in f.construct]
    out = Result('NEWTON-BATCH', 'the iterative intersection stops only when '
                 'every ray of the batch has |dz| < tol, steps stay on each '
                 'ray: one ray\'s result does not depend on its companions '
                 'beyond the tolerance')
    out.analysed = r.analysed
    for f in keep:
        f.rule = 'NEWTON-BATCH'
        out.fail(f)
    if not keep:
        out.ok('NewtonRaphsonGeometry.distance: batch-wide max |dz| < tol')
    return out


def derived_sync_rule(ctx):
    from .common import derived_sync
    return derived_sync(ctx, 'DERIVED-SYNC')

def c01_init_stores(ctx):
    """shared with C01: constructors keep private, float-typed copies of the
    coefficient containers they are given (no aliasing of caller lists or of
    the shared default, no integer tables)"""
    from .C01 import init_stores as _r
    return _r(ctx)

def c01_setters(ctx):
    """shared with C01: setters change exactly their quantity and leave a
    geometry that can be traced (reset of perturbations goes through them)"""
    from .C01 import setter_writes as _r
    return _r(ctx)

def inputs_converted(ctx):
    """quantifier 'with scalar, list and array arguments': the input
    converters return a new float array and have no effect on their argument,
    so a call whose result is dropped converts nothing; and a scalar is a
    scalar whatever its numeric type (np.float32 / np.int64 values come out
    of every numpy computation)."""
    P = ctx.P
    res = Result('INPUTS-CONVERTED', 'results of the pure input converters '
                 'are used; numpy scalar types are scalars')
    n = 0
    for f in P.all_funcs():
        for st in ast.walk(f.node):
            if isinstance(st, ast.Expr) and isinstance(st.value, ast.Call) \
                    and isinstance(st.value.func, ast.Attribute) and \
                    st.value.func.attr == '_process_input':
                res.fail(ctx.finding(
                    'INPUTS-CONVERTED', f, st,
                    f'{f.qual} calls {unparse(st.value)} and drops the '
                    f'result: the argument reaches the ray container '
                    f'unconverted (np.float32 EPD or np.int64 object '
                    f'distance: ValueError "Unsupported input type" from '
                    f'every paraxial query)',
                    construct=f'dropped conversion {unparse(st.value)}'))
            if isinstance(st, ast.Call) and isinstance(st.func, ast.Attribute) \
                    and st.func.attr == '_process_input':
                n += 1
    res.ok(f'{n} converter calls examined')
    tg = P.func('Optic.trace_generic')
    res.saw(tg)
    # trace_generic maps every argument that is neither a Python number nor
    # an ndarray to None unless it has been converted first
    to_none = any(isinstance(n_, ast.IfExp) and
                  isinstance(n_.orelse, ast.IfExp) and
                  unparse(n_.orelse.orelse) == 'None'
                  for n_ in ast.walk(tg.node))
    conv = any(isinstance(c_, ast.Call) and unparse(c_.func) == 'np.asarray'
               and any(k_.arg == 'dtype' for k_ in c_.keywords)
               for c_ in ast.walk(tg.node))
    names = {unparse(e_) for n_ in ast.walk(tg.node)
             if isinstance(n_, ast.Assign) and
             isinstance(n_.targets[0], ast.Tuple)
             for e_ in n_.targets[0].elts}
    if not to_none or (conv and {'Hx', 'Hy', 'Px', 'Py'} <= names):
        res.ok('trace_generic converts Hx, Hy, Px, Py (numpy scalars, lists) '
               'before use')
    else:
        res.fail(ctx.finding(
            'INPUTS-CONVERTED', tg, tg.node,
            'Optic.trace_generic replaces every field / pupil argument that '
            'is not a Python float / int or an ndarray by None: np.int64 '
            '(np.arange loop variables), np.float32 and list Hx / Hy raise '
            'TypeError', construct='trace_generic argument types'))
    b = P.func('BaseRays._process_input')
    res.saw(b)
    scal = [c for c in ast.walk(b.node) if isinstance(c, ast.Call) and
            unparse(c.func) == 'isinstance' and len(c.args) == 2 and
            'int' in unparse(c.args[1]) and 'float' in unparse(c.args[1])]
    uses_isscalar = 'np.isscalar' in unparse(b.node, 100000)
    ok = uses_isscalar or any(
        ('np.integer' in unparse(c.args[1]) and
         'np.floating' in unparse(c.args[1])) or
        'np.number' in unparse(c.args[1]) or
        'numbers.Real' in unparse(c.args[1]) or
        'numbers.Number' in unparse(c.args[1]) for c in scal)
    if ok:
        res.ok('BaseRays._process_input: numpy scalar types are scalars')
    else:
        res.fail(ctx.finding(
            'INPUTS-CONVERTED', b, scal[0] if scal else b.node,
            'BaseRays._process_input recognises only Python int and float '
            'as scalars: a numpy scalar that is not float64 (np.float32, '
            'np.int64) is rejected with "Unsupported input type"',
            construct='numpy scalars rejected'))
    return res


def c03_launch_guards(ctx):
    """shared with C03: the result for a ray does not depend on the dtype of
    the pupil array it was requested with"""
    from .C03 import launch_guards as _r
    return _r(ctx)


def view_pure(ctx):
    """'the same analysis call repeated returns bit-identical results ... no
    call changes' the results: plotting is a read.  A view / plot method must
    not store into an array that is (a view of) the stored results: a local
    bound to self.data[...] without a copy and then assigned through a mask
    writes the stored array."""
    P = ctx.P
    res = Result('VIEW-PURE', 'view / plot methods do not write into the '
                 'stored results (masked stores go to copies)')
    n = 0
    for f in P.all_funcs():
        if not (f.name.startswith('view') or f.name.startswith('_plot')):
            continue
        n += 1
        alias = {}
        stmts = sorted((x for x in ast.walk(f.node)
                        if isinstance(x, ast.Assign)),
                       key=lambda x: (x.lineno, x.col_offset))
        for st in stmts:
            t = st.targets[0]
            if isinstance(t, ast.Name):
                v = st.value
                root = v
                while isinstance(root, (ast.Subscript, ast.Attribute)):
                    root = root.value
                rooted = isinstance(v, (ast.Subscript, ast.Attribute)) and (
                    (isinstance(root, ast.Name) and root.id == 'self') or
                    (isinstance(root, ast.Name) and root.id in alias))
                if rooted:
                    alias[t.id] = unparse(v)
                else:
                    alias.pop(t.id, None)
            elif isinstance(t, ast.Subscript) and isinstance(t.value, ast.Name) \
                    and t.value.id in alias:
                res.saw(f)
                res.fail(ctx.finding(
                    'VIEW-PURE', f, st,
                    f'{f.qual} assigns through {unparse(t)[:40]} where '
                    f'{t.value.id} is {alias[t.value.id][:60]} (no copy): '
                    f'plotting writes into the stored results, so .data '
                    f'differs before and after view() and a derived RMS '
                    f'becomes nan on a lens with a clipping aperture',
                    construct=f'{f.qual} writes stored data'))
    res.ok(f'{n} view / plot methods examined')
    if n < 10:
        raise AnalysisError(f'VIEW-PURE: only {n} view methods found')
    return res



def c07_w_flow(ctx):
    """shared with C07: the wavelength of a ray is used per ray (the result
    for one ray does not depend on which other rays share the call)"""
    from .C07 import w_flow as _r
    return _r(ctx)

RULES = [c07_w_flow, view_pure, c03_launch_guards, inputs_converted, c01_setters, c01_init_stores, derived_sync_rule, no_stale, newton_batch, pure, inverted_fresh, no_param_mutation, reset_first, rng_sites]

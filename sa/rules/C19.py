"""C19 -- saving and reloading a lens preserves its behaviour (structural)."""
import ast
from ..core import Result
from ..pm import AnalysisError, unparse
from ..match import Code
from ..rank import Rank

META = {
    'explanation': (
        'ROUND-TRIP over every class with a to_dict / from_dict pair: S1 keys '
        'read (required) are written along the super().to_dict() chain; S2 '
        'constructor parameter -> attribute -> key -> constructor argument '
        'closes on the same parameter; S3 written values are JSON-plain '
        '(objects only through to_dict / tolist); S4 the construction call in '
        'an inherited from_dict fits the __init__ of every registered class '
        'that can reach it; S5 readers guard values the writer may emit as '
        'None; S6 every Optic attribute is serialised or re-derived; S7 **dict '
        'bindings fit the callee parameters. PLAIN-STORE (rank typing): the '
        'editing API stores scalars, not arrays, into serialised attributes. '
        'FILE-WRAPPER: save/load go through to_dict/from_dict and json.'),
    'declined': ['identical traced rays and paraxial values after reload'],
    'trusted': ['json can encode exactly python scalars, str, bool, None, '
                'lists and dicts thereof (numpy float64 is a float)',
                'attribute type inference (E0)', 'rank typing (E7)'],
}


def _written(P, cn):
    """key -> value expr for to_dict of class cn, following super() chain."""
    out = {}
    order = [c for c in reversed(P.mro(cn)) if 'to_dict' in P.classes[c].methods]
    if not order:
        return None, None
    # only follow the chain if the most-derived calls super().to_dict()
    top = P.lookup(cn, 'to_dict')
    chain = [top]
    cur = top
    while cur is not None and 'super().to_dict()' in unparse(cur.node, 5000):
        nxt = None
        for c in P.mro(cur.cls)[1:]:
            if 'to_dict' in P.classes[c].methods:
                nxt = P.classes[c].methods['to_dict']
                break
        if nxt is None:
            break
        chain.append(nxt)
        cur = nxt
    for f in reversed(chain):
        for n in ast.walk(f.node):
            if isinstance(n, ast.Dict):
                for k, v in zip(n.keys, n.values):
                    if isinstance(k, ast.Constant) and isinstance(k.value, str):
                        out[k.value] = (v, f)
            if isinstance(n, ast.Assign):
                for t in n.targets:
                    if isinstance(t, ast.Subscript) and \
                            isinstance(t.slice, ast.Constant) and \
                            isinstance(t.slice.value, str) and \
                            isinstance(t.value, ast.Name):
                        out[t.slice.value] = (n.value, f)
            if isinstance(n, ast.Call) and isinstance(n.func, ast.Name) and \
                    n.func.id == 'dict':
                for k in n.keywords:
                    out[k.arg] = (k.value, f)
    return out, top


def _reads(f, param='data'):
    req, opt = {}, {}
    names = {p for p in f.params}
    for n in ast.walk(f.node):
        if isinstance(n, ast.Subscript) and isinstance(n.value, ast.Name) and \
                n.value.id in names and isinstance(n.slice, ast.Constant) and \
                isinstance(n.slice.value, str) and \
                isinstance(n.ctx, ast.Load):
            req[n.slice.value] = n
        if isinstance(n, ast.Call) and isinstance(n.func, ast.Attribute) and \
                n.func.attr == 'get' and isinstance(n.func.value, ast.Name) and \
                n.func.value.id in names and n.args and \
                isinstance(n.args[0], ast.Constant):
            opt[n.args[0].value] = n
    return req, opt


def _pairs(P):
    out = []
    for cn in sorted(P.classes):
        td = P.lookup(cn, 'to_dict')
        fd = P.lookup(cn, 'from_dict')
        if td is None or fd is None:
            continue
        out.append(cn)
    return out


def _is_dispatch(f):
    """base-class from_dict that only delegates through the registry"""
    src = unparse(f.node, 4000)
    return '_registry' in src and 'from_dict(' in src.replace(
        'def from_dict', '')


def s1_keys(ctx):
    P = ctx.P
    res = Result('S1-KEYS', 'every key a reader requires is written by the '
                 'matching to_dict (along the super chain)')
    for cn in _pairs(P):
        written, td = _written(P, cn)
        fd = P.lookup(cn, 'from_dict')
        readers = [fd]
        r2 = P.lookup(cn, '_from_dict')
        if r2 is not None:
            readers.append(r2)
        if _is_dispatch(fd) and fd.cls != cn:
            continue
        res.saw(fd)
        for f in readers:
            if _is_dispatch(f) and f.name == 'from_dict' and r2 is None and \
                    fd.cls == cn:
                # pure dispatcher (abstract base): reads only the tag
                pass
            req, opt = _reads(f)
            for k, node in req.items():
                if k in written or k == 'type' and 'type' in written:
                    res.ok(f'{cn}: key {k!r} read and written')
                elif k == 'type':
                    res.ok(f'{cn}: type tag')
                else:
                    res.fail(ctx.finding(
                        'S1-KEYS', f, node,
                        f'{cn}.{f.name} requires key {k!r}, which '
                        f'{cn}.to_dict never writes: reloading a saved lens '
                        f'raises KeyError', construct=f'{cn} key {k!r}'))
            for k, node in opt.items():
                if k in written:
                    res.ok(f'{cn}: optional key {k!r} written')
                elif k != 'type':
                    res.fail(ctx.finding(
                        'S1-KEYS', f, node,
                        f'{cn}.{f.name} reads optional key {k!r}, which '
                        f'{cn}.to_dict never writes: the value is silently '
                        f'replaced by the default on reload',
                        construct=f'{cn} optional key {k!r}'))
    res.require(60, 'key reads')
    return res


def _init_attr_map(P, cn):
    """attr -> param for direct stores self.attr = param in __init__ chain"""
    out = {}
    init = P.lookup(cn, '__init__')
    if init is None:
        return out, None
    seen = set()
    cur = init
    argmap = {p: p for p in cur.params}
    depth = 0
    while cur is not None and depth < 4:
        depth += 1
        for n in ast.walk(cur.node):
            if isinstance(n, ast.Assign):
                for t in n.targets:
                    if isinstance(t, ast.Attribute) and \
                            isinstance(t.value, ast.Name) and t.value.id == 'self':
                        v = n.value
                        # self.c = np.atleast_2d(coefficients) style wrappers
                        while isinstance(v, ast.Call) and v.args and \
                                isinstance(v.func, ast.Attribute) and \
                                v.func.attr in ('atleast_2d', 'array', 'asarray',
                                                'lower'):
                            v = v.args[0] if v.func.attr != 'lower' else \
                                v.func.value
                        if isinstance(v, ast.Call) and \
                                isinstance(v.func, ast.Attribute) and \
                                v.func.attr == 'lower':
                            v = v.func.value
                        if isinstance(v, ast.Name) and v.id in argmap and \
                                t.attr not in out:
                            out[t.attr] = argmap[v.id]
        # follow super().__init__(...)
        nxt = None
        for n in ast.walk(cur.node):
            if isinstance(n, ast.Call) and isinstance(n.func, ast.Attribute) \
                    and n.func.attr == '__init__' and \
                    'super()' in unparse(n.func.value):
                for c in P.mro(cur.cls)[1:]:
                    if '__init__' in P.classes[c].methods:
                        nxt = P.classes[c].methods['__init__']
                        break
                if nxt is not None:
                    newmap = {}
                    for i, a in enumerate(n.args):
                        if isinstance(a, ast.Name) and a.id in argmap and \
                                i < len(nxt.params):
                            newmap[nxt.params[i]] = argmap[a.id]
                    for k in n.keywords:
                        if isinstance(k.value, ast.Name) and \
                                k.value.id in argmap and k.arg:
                            newmap[k.arg] = argmap[k.value.id]
                    argmap = newmap
        cur = nxt
    return out, init


def s2_roundtrip(ctx):
    P = ctx.P
    res = Result('S2-ROUNDTRIP', 'constructor parameter -> attribute -> key -> '
                 'constructor argument closes on the same parameter')
    for cn in _pairs(P):
        fd = P.lookup(cn, 'from_dict')
        if _is_dispatch(fd) and fd.cls != cn:
            continue
        written, td = _written(P, cn)
        amap, init = _init_attr_map(P, cn)
        if init is None:
            continue
        # the construction call: cls(...) in from_dict / _from_dict
        for f in (P.lookup(cn, '_from_dict'), fd):
            if f is None:
                continue
            # names bound to the class looked up in the registry
            # (surface_class = cls._registry.get(surface_type, cls))
            ctor_names = {'cls', cn}
            for n in ast.walk(f.node):
                if isinstance(n, ast.Assign) and isinstance(
                        n.targets[0], ast.Name) and \
                        '_registry' in unparse(n.value):
                    ctor_names.add(n.targets[0].id)
            calls = [c for c in ast.walk(f.node) if isinstance(c, ast.Call) and
                     isinstance(c.func, ast.Name) and c.func.id in ctor_names]
            if not calls:
                continue
            call = calls[-1]
            res.saw(f)
            params = init.params
            # local name -> key it was read from
            local = {}
            for n in ast.walk(f.node):
                if isinstance(n, ast.Assign) and \
                        isinstance(n.targets[0], ast.Name):
                    ks = _key_of(n.value)
                    if ks:
                        local[n.targets[0].id] = ks
            binds = []
            for i, a in enumerate(call.args):
                if i < len(params):
                    binds.append((params[i], a))
            for k in call.keywords:
                if k.arg:
                    binds.append((k.arg, k.value))
            for param, a in binds:
                key = _key_of(a) or (local.get(a.id) if isinstance(a, ast.Name)
                                     else None)
                if key is None:
                    continue
                if key not in written:
                    continue
                v, wf = written[key]
                attr = None
                if isinstance(v, ast.Attribute) and isinstance(v.value, ast.Name)\
                        and v.value.id == 'self':
                    attr = v.attr
                elif isinstance(v, ast.Call) and isinstance(v.func, ast.Attribute)\
                        and v.func.attr in ('to_dict', 'tolist') and \
                        isinstance(v.func.value, ast.Attribute):
                    attr = v.func.value.attr
                elif isinstance(v, ast.IfExp):
                    src = unparse(v.body)
                    if src.startswith('self.'):
                        attr = src.split('.')[1].split('(')[0]
                if attr is None:
                    continue
                src_param = amap.get(attr)
                if src_param is None:
                    continue
                if src_param == param:
                    res.ok(f'{cn}: {param} -> self.{attr} -> {key!r} -> {param}')
                else:
                    res.fail(ctx.finding(
                        'S2-ROUNDTRIP', f, call,
                        f'{cn}: key {key!r} holds self.{attr} (constructor '
                        f'parameter {src_param}) but is passed back as '
                        f'parameter {param}: the reloaded object differs',
                        construct=f'{cn} {key!r} -> {param}'))
    res.require(40, 'round-trip bindings')
    return res


def _key_of(e):
    if isinstance(e, ast.Subscript) and isinstance(e.value, ast.Name) and \
            isinstance(e.slice, ast.Constant) and isinstance(e.slice.value, str):
        return e.slice.value
    if isinstance(e, ast.Call) and isinstance(e.func, ast.Attribute) and \
            e.func.attr == 'get' and e.args and \
            isinstance(e.args[0], ast.Constant):
        return e.args[0].value
    if isinstance(e, ast.Call) and e.args and isinstance(
            e.func, ast.Attribute) and e.func.attr == 'from_dict':
        return _key_of(e.args[-1])
    if isinstance(e, ast.IfExp):
        return _key_of(e.body) or _key_of(e.orelse)
    return None


def _ann_classes(P, ann):
    out = []
    if ann is None:
        return out
    for n in ast.walk(ann):
        if isinstance(n, ast.Name) and n.id in P.classes:
            out.append(n.id)
        if isinstance(n, ast.Constant) and isinstance(n.value, str) and \
                n.value in P.classes:
            out.append(n.value)
    return out


def _attr_object_types(P, cn, attr):
    """repo classes that may be stored in cn.attr (constructor stores typed by
    E0, plus parameter annotations of any method of the class storing it)."""
    out = set()
    for c in P.mro(cn) + P.subclasses(cn):
        k = P.classes[c]
        t = P.attr_t[c].get(attr)
        if isinstance(t, str):
            out.add(t)
        for m in k.methods.values():
            for n in ast.walk(m.node):
                if isinstance(n, ast.Assign):
                    for tg in n.targets:
                        if isinstance(tg, ast.Attribute) and tg.attr == attr \
                                and isinstance(tg.value, ast.Name) and \
                                tg.value.id == 'self' and \
                                isinstance(n.value, ast.Name):
                            for a in m.node.args.args + m.node.args.kwonlyargs:
                                if a.arg == n.value.id:
                                    out |= set(_ann_classes(P, a.annotation))
    return out


def _is_container_attr(P, cn, attr):
    """the attribute is stored (somewhere in the class hierarchy) from a list
    display, list(...), a comprehension, or a parameter whose default is a
    list: a mutable sequence owned by the object"""
    if cn not in P.classes:
        return False
    for k in P.mro(cn):
        for m in P.classes[k].methods.values():
            defaults = {}
            a = m.node.args
            for arg, d in zip(a.args[len(a.args) - len(a.defaults):],
                              a.defaults):
                defaults[arg.arg] = d
            for st in ast.walk(m.node):
                if isinstance(st, ast.Assign) and isinstance(
                        st.targets[0], ast.Attribute) and \
                        unparse(st.targets[0].value) == 'self' and \
                        st.targets[0].attr == attr:
                    v = st.value
                    if isinstance(v, (ast.List, ast.ListComp)):
                        return True
                    if isinstance(v, ast.Call) and unparse(v.func) == 'list':
                        return True
                    if isinstance(v, ast.Name) and isinstance(
                            defaults.get(v.id), ast.List):
                        return True
    return False


def s3_plain(ctx):
    P = ctx.P
    res = Result('S3-PLAIN', 'values written by to_dict are JSON-plain: '
                 'literals, plain attributes, .to_dict() / .tolist() results '
                 'and lists of those')
    for cn in _pairs(P):
        written, td = _written(P, cn)
        if not written:
            continue
        for key, (v, f) in written.items():
            res.saw(f)
            bad = None
            vv = v
            if isinstance(vv, ast.IfExp):
                vv = vv.body
            if isinstance(vv, ast.Attribute) and isinstance(vv.value, ast.Name) \
                    and vv.value.id == 'self':
                types = _attr_object_types(P, f.cls, vv.attr) | \
                    _attr_object_types(P, cn, vv.attr)
                types = {t for t in types if t in P.classes}
                if types:
                    bad = (f'self.{vv.attr} may hold a {sorted(types)} object, '
                           f'written without .to_dict()')
                elif _is_container_attr(P, f.cls, vv.attr) or \
                        _is_container_attr(P, cn, vv.attr):
                    res.fail(ctx.finding(
                        'S3-PLAIN', f, v,
                        f'{f.cls}.to_dict key {key!r} hands out the live '
                        f'list self.{vv.attr}: editing the dictionary (or '
                        f'the lens) afterwards edits the other, and a lens '
                        f'rebuilt from it shares the list with the original',
                        construct=f'{f.cls} {key!r} live container'))
                    continue
            if bad:
                res.fail(ctx.finding(
                    'S3-PLAIN', f, v,
                    f'{f.cls}.to_dict key {key!r}: {bad}: json.dump raises '
                    f'TypeError / the reloaded value is not reconstructed',
                    construct=f'{f.cls} {key!r} object-valued'))
            else:
                res.ok(f'{cn}: {key!r} = {unparse(v, 50)}')
    # nested subscript stores into the assembled dict (Optic.to_dict)
    for cn in _pairs(P):
        td = P.lookup(cn, 'to_dict')
        for n in ast.walk(td.node):
            if isinstance(n, ast.Assign) and isinstance(
                    n.targets[0], ast.Subscript) and isinstance(
                    n.targets[0].value, ast.Subscript):
                v = n.value
                if isinstance(v, ast.Attribute) and isinstance(
                        v.value, ast.Name) and v.value.id == 'self':
                    types = {t for t in _attr_object_types(P, cn, v.attr)
                             if t in P.classes}
                    if types:
                        res.fail(ctx.finding(
                            'S3-PLAIN', td, n,
                            f'{cn}.to_dict stores self.{v.attr}, which may '
                            f'hold a {sorted(types)} object, verbatim: '
                            f'json.dump raises TypeError',
                            construct=f'{cn} {unparse(n.targets[0])} '
                                      f'object-valued'))
                    else:
                        res.ok(f'{cn}: {unparse(n, 60)}')
    res.require(80, 'written values')
    return res


def _accepts(init, npos, kwnames):
    a = init.node.args
    params = [x.arg for x in a.posonlyargs + a.args][1:]
    ndef = len(a.defaults)
    required = params[:len(params) - ndef] if ndef else params
    if a.vararg is None and npos > len(params):
        return False, f'takes {len(params)} positional arguments, given {npos}'
    bound = set(params[:npos])
    for k in kwnames:
        if k in bound:
            return False, f'parameter {k} given twice'
        if k not in params and a.kwarg is None and \
                k not in [x.arg for x in a.kwonlyargs]:
            return False, f'unexpected keyword {k}'
        bound.add(k)
    missing = [p for p in required if p not in bound]
    if missing:
        return False, f'missing required {missing}'
    return True, ''


def s4_arity(ctx):
    P = ctx.P
    res = Result('S4-ARITY', 'the construction call of every (inherited) '
                 'from_dict fits the __init__ of every class that can reach it '
                 'through a registry')
    for c in P.classes.values():
        for name in ('from_dict', '_from_dict'):
            f = c.methods.get(name)
            if f is None:
                continue
            env = P.local_env(f)
            for call in ast.walk(f.node):
                if not (isinstance(call, ast.Call) and
                        isinstance(call.func, ast.Name)):
                    continue
                nm = call.func.id
                targets = None
                if nm == 'cls':
                    targets = [s for s in P.subclasses(c.name)
                               if P.lookup(s, name) is f]
                elif nm in env and isinstance(env[nm], tuple) and \
                        env[nm][0] == 'cls':
                    targets = [s for s in P.subclasses(env[nm][1])
                               if P.lookup(s, name) is f or
                               (name == '_from_dict' and
                                P.lookup(s, name) is f)]
                    # registry lookup keyed by the type tag: every registered
                    # class whose own (_)from_dict is this one
                    targets = [s for s in P.subclasses(c.name)
                               if P.lookup(s, name) is f]
                if not targets:
                    continue
                if any(isinstance(a, ast.Starred) for a in call.args):
                    continue
                npos = len(call.args)
                kws = [k.arg for k in call.keywords if k.arg]
                for s in targets:
                    init = P.lookup(s, '__init__')
                    if init is None:
                        continue
                    if _abstract_cls(P, s):
                        continue
                    res.saw(f)
                    ok, why = _accepts(init, npos, kws)
                    if ok:
                        res.ok(f'{s} via {f.qual}: {unparse(call, 40)} fits '
                               f'__init__')
                    else:
                        res.fail(ctx.finding(
                            'S4-ARITY', f, call,
                            f'{s} is rebuilt through {f.qual}, whose call '
                            f'passes {npos} positional arguments, but '
                            f'{init.qual} {why}: reloading a lens containing '
                            f'a {s} raises TypeError',
                            construct=f'{s} via {f.qual}'))
    res.require(25, 'construction calls')
    return res


def _abstract_cls(P, cn):
    for m in P.mro(cn):
        for f in P.classes[m].methods.values():
            if 'abstractmethod' in [getattr(d, 'id', getattr(d, 'attr', ''))
                                    for d in f.node.decorator_list]:
                own = P.lookup(cn, f.name)
                if own is f:
                    return True
    return False


def s5_none(ctx):
    P = ctx.P
    res = Result('S5-NONE', 'where the writer may emit None the reader guards '
                 'it before delegating to another from_dict')
    n = 0
    for cn in _pairs(P):
        written, td = _written(P, cn)
        if not written:
            continue
        fd = P.lookup(cn, 'from_dict')
        readers = [x for x in (fd, P.lookup(cn, '_from_dict')) if x]
        for key, (v, f) in written.items():
            if not (isinstance(v, ast.IfExp) and
                    isinstance(v.orelse, ast.Constant) and
                    v.orelse.value is None):
                continue
            for r in readers:
                for c in ast.walk(r.node):
                    if isinstance(c, ast.Call) and isinstance(
                            c.func, ast.Attribute) and \
                            c.func.attr == 'from_dict' and c.args and \
                            _key_of(c.args[-1]) == key:
                        n += 1
                        res.saw(r)
                        guarded = False
                        for p in ast.walk(r.node):
                            if isinstance(p, ast.IfExp) and any(
                                    x is c for x in ast.walk(p.body)) and \
                                    key in unparse(p.test):
                                guarded = True
                        if guarded:
                            res.ok(f'{cn}: {key!r} guarded against None')
                        else:
                            res.fail(ctx.finding(
                                'S5-NONE', r, c,
                                f'{cn}.to_dict writes None for {key!r} when '
                                f'the attribute is unset, but {r.qual} passes '
                                f'it to from_dict unguarded: reloading raises',
                                construct=f'{cn} {key!r} None unguarded'))
    res.require(4, 'None-able keys')
    return res


def s6_optic(ctx):
    P = ctx.P
    res = Result('S6-OPTIC', 'every attribute set by Optic.__init__ is '
                 'restored by Optic.from_dict (from a key written by to_dict, '
                 'or re-derived), and the keys agree')
    init = P.func('Optic.__init__')
    fd = P.func('Optic.from_dict')
    td = P.func('Optic.to_dict')
    res.saw(fd), res.saw(td)
    attrs = [t.attr for n in ast.walk(init.node) if isinstance(n, ast.Assign)
             for t in n.targets if isinstance(t, ast.Attribute)]
    restored = {}
    for n in ast.walk(fd.node):
        if isinstance(n, ast.Assign):
            for t in n.targets:
                if isinstance(t, ast.Attribute) and isinstance(t.value, ast.Name)\
                        and t.value.id == 'optic':
                    restored[t.attr] = n.value
    # nested keys written: data[a][b] = self.x  and top-level dict
    wr = {}
    for n in ast.walk(td.node):
        if isinstance(n, ast.Dict):
            for k, v in zip(n.keys, n.values):
                if isinstance(k, ast.Constant):
                    wr[(k.value,)] = v
        if isinstance(n, ast.Assign) and isinstance(n.targets[0], ast.Subscript):
            t = n.targets[0]
            path = []
            while isinstance(t, ast.Subscript):
                if isinstance(t.slice, ast.Constant):
                    path.insert(0, t.slice.value)
                t = t.value
            wr[tuple(path)] = n.value

    def path_of(e):
        path = []
        while isinstance(e, ast.Subscript):
            if isinstance(e.slice, ast.Constant):
                path.insert(0, e.slice.value)
            e = e.value
        return tuple(path)
    for a in attrs:
        if a not in restored:
            res.fail(ctx.finding('S6-OPTIC', fd, fd.node,
                                 f'Optic.{a} is not restored by from_dict',
                                 construct=f'Optic.{a} not restored'))
            continue
        v = restored[a]
        # a local that was bound to the saved value one statement earlier
        # (polarization = data[...]; PolarizationState.from_dict(polarization)
        # if isinstance(polarization, dict) else polarization)
        locs = {st_.targets[0].id: st_.value for st_ in ast.walk(fd.node)
                if isinstance(st_, ast.Assign) and
                isinstance(st_.targets[0], ast.Name) and
                'data[' in unparse(st_.value)}

        class _Inl(ast.NodeTransformer):
            def visit_Name(self, node):
                if node.id in locs and isinstance(node.ctx, ast.Load):
                    import copy as _c
                    return _c.deepcopy(locs[node.id])
                return node
        import copy as _copy
        v = _Inl().visit(_copy.deepcopy(v))
        ast.fix_missing_locations(v)
        src = unparse(v)
        if '(optic)' in src and 'data' not in src:
            res.ok(f'Optic.{a} re-derived: {src}')
            continue
        # find the data path read
        reads = [path_of(x) for x in ast.walk(v) if isinstance(x, ast.Subscript)
                 and isinstance(x.ctx, ast.Load) and path_of(x)]
        reads = [r for r in reads if r]
        if not reads:
            res.fail(ctx.finding('S6-OPTIC', fd, v,
                                 f'Optic.{a} restored from {src}, not from the '
                                 f'saved data', construct=f'Optic.{a} source'))
            continue
        r = max(reads, key=len)
        if r not in wr:
            res.fail(ctx.finding('S6-OPTIC', fd, v,
                                 f'Optic.{a} is read from data{list(r)}, which '
                                 f'to_dict does not write',
                                 construct=f'Optic.{a} key {list(r)}'))
            continue
        wv = unparse(wr[r])
        if f'self.{a}' in wv or (a == 'obj_space_telecentric' and
                                 'obj_space_telecentric' in wv):
            res.ok(f'Optic.{a}: data{list(r)} <- {wv[:40]}')
        else:
            res.fail(ctx.finding('S6-OPTIC', td, wr[r],
                                 f'data{list(r)} is written from {wv} but '
                                 f'restored into Optic.{a}',
                                 construct=f'Optic.{a} key {list(r)} source'))
    res.require(10, 'Optic attributes')
    return res


def s7_kwargs(ctx):
    P = ctx.P
    res = Result('S7-KWARGS', 'dictionaries splatted into a call (**d) carry '
                 'exactly parameter names of the callee')
    cases = [('PickupManager.from_dict', 'add', 'Pickup'),
             ('WavelengthGroup.from_dict', 'add_wavelength', 'Wavelength')]
    for q, callee, item_cls in cases:
        f = P.func(q)
        res.saw(f)
        calls = [c for c in ast.walk(f.node) if isinstance(c, ast.Call) and
                 isinstance(c.func, ast.Attribute) and c.func.attr == callee and
                 any(k.arg is None for k in c.keywords)]
        if not calls:
            res.notes.append(f'{q}: no **splat call to {callee} (ok)')
            continue
        g = P.lookup(f.cls, callee)
        written, td = _written(P, item_cls)
        keys = set(written)
        params = set(g.params)
        extra = keys - params
        a = g.node.args
        ndef = len(a.defaults)
        pl = [x.arg for x in a.args][1:]
        required = set(pl[:len(pl) - ndef] if ndef else pl)
        missing = required - keys
        if not extra and not missing:
            res.ok(f'{q}: {callee}(**{sorted(keys)}) fits {sorted(params)}')
        else:
            res.fail(ctx.finding(
                'S7-KWARGS', f, calls[0],
                f'{item_cls}.to_dict keys {sorted(keys)} are splatted into '
                f'{g.qual}({sorted(params)}): unexpected {sorted(extra)}, '
                f'missing {sorted(missing)}',
                construct=f'{q} **kwargs'))
    return res


SERIALISED_SCALARS = {('CoordinateSystem', a) for a in
                      ('x', 'y', 'z', 'rx', 'ry', 'rz')} | {
    ('StandardGeometry', 'radius'), ('StandardGeometry', 'k'),
    ('Aperture', 'value'), ('RadialAperture', 'r_max'),
    ('RadialAperture', 'r_min'), ('IdealMaterial', 'index')}


def plain_store(ctx):
    P, eff = ctx.P, ctx.effects
    res = Result('PLAIN-STORE', 'the editing API (setters, solves, scaling) '
                 'stores rank-0 values into serialised scalar attributes, so '
                 'the lens stays serialisable after any sequence of edits')
    R = Rank(P)
    from .C01 import _env_for_rank
    editing = ('Optic.', 'MarginalRayHeightSolve.', 'Pickup.', 'RadialAperture.',
               'SurfaceGroup.inverted')
    n = 0
    for fe in eff.fe.values():
        f = fe.func
        if not f.qual.startswith(editing) and not (
                f.cls and 'VariableBehavior' in P.mro(f.cls)):
            continue
        env = tenv = None
        for st in fe.stores:
            if st.subscript or st.kind != 'assign':
                continue
            hit = None
            if isinstance(st.base_t, str):
                for c in P.mro(st.base_t) + P.subclasses(st.base_t):
                    if (c, st.attr) in SERIALISED_SCALARS:
                        hit = (c, st.attr)
            if hit is None:
                continue
            if env is None:
                env, tenv = _env_for_rank(R, f)
            val = st.value if st.value is not None else (
                st.stmt.value if isinstance(st.stmt, ast.AugAssign) else None)
            if val is None:
                continue
            r = R.expr(val, f, env, tenv)
            n += 1
            res.saw(f)
            if r and r[0] not in (None, 'tuple') and r[0] > 0:
                res.fail(ctx.finding(
                    'PLAIN-STORE', f, st.stmt,
                    f'{f.qual} stores a rank-{r[0]} ndarray into '
                    f'{hit[0]}.{hit[1]}, which to_dict writes verbatim: '
                    f'json.dump of the lens raises TypeError after this edit',
                    construct=f'{f.qual}: array stored into {hit[0]}.{hit[1]}'))
            else:
                res.ok(f'{f.qual}: {unparse(st.stmt, 60)} rank '
                       f'{r[0] if r else None}')
    res.require(6, 'stores into serialised scalars')
    return res


def file_wrapper(ctx):
    P = ctx.P
    res = Result('FILE-WRAPPER', 'save = json.dump(obj.to_dict()), load = '
                 'cls.from_dict(json.load()), load_optiland_file uses Optic')
    fs = {n: f for (rel, n), f in P.funcs.items()
          if rel.endswith('optiland_handler.py')}
    need = ['load_obj_from_json', 'save_obj_to_json', 'load_optiland_file',
            'save_optiland_file']
    for n in need:
        if n not in fs:
            raise AnalysisError(f'{n} not found')
    src = {n: unparse(fs[n].node, 3000) for n in need}
    checks = [
        ('save_obj_to_json',
         'json.dump(obj.to_dict(), f' in src['save_obj_to_json'] or
         ('json.dumps(obj.to_dict()' in src['save_obj_to_json'] and
          'f.write(text)' in src['save_obj_to_json'])),
        ('load_obj_from_json', 'json.load(f)' in src['load_obj_from_json'] and
         'cls.from_dict(data)' in src['load_obj_from_json']),
        ('load_optiland_file', 'load_obj_from_json(Optic, filepath)' in
         src['load_optiland_file']),
        ('save_optiland_file', 'save_obj_to_json(obj, filepath)' in
         src['save_optiland_file']),
    ]
    for n, ok in checks:
        res.saw(fs[n])
        if ok:
            res.ok(f'{n} wraps to_dict/from_dict')
        else:
            res.fail(ctx.finding('FILE-WRAPPER', fs[n], fs[n].node,
                                 f'{n} does not round-trip through '
                                 f'to_dict/from_dict and json',
                                 construct=n))
    # "a lens remains serialisable after any sequence of edits": values that
    # the lens accepts and traces (numpy scalars from np.arange / comparisons)
    # must be written, and a failed save must not destroy the previous file:
    # the text is produced before the file is opened for writing
    sv = fs['save_obj_to_json']
    opens = [n_ for n_ in ast.walk(sv.node) if isinstance(n_, ast.With) and
             any('open(' in unparse(i_.context_expr) and "'w'" in
                 unparse(i_.context_expr) for i_ in n_.items)]
    enc_inside = any(isinstance(c_, ast.Call) and unparse(c_.func) in (
        'json.dump', 'json.dumps') for w_ in opens for c_ in ast.walk(w_))
    has_default = any(isinstance(c_, ast.Call) and unparse(c_.func) in (
        'json.dump', 'json.dumps') and any(k_.arg == 'default'
                                           for k_ in c_.keywords)
        for c_ in ast.walk(sv.node))
    if opens and not enc_inside:
        res.ok('save: the JSON text is produced before the file is opened')
    else:
        res.fail(ctx.finding(
            'FILE-WRAPPER', sv, sv.node,
            'save_obj_to_json opens the target with "w" and encodes inside '
            'the with block: when encoding fails (TypeError) the previous '
            'good file is left truncated and unloadable',
            construct='save truncates on failure'))
    if has_default:
        res.ok('save: numpy scalars / arrays are converted (default= hook)')
    else:
        res.fail(ctx.finding(
            'FILE-WRAPPER', sv, sv.node,
            'json.dump is called without a default= hook: a lens built from '
            'numpy integers / booleans (fields from np.arange, '
            'is_stop=(i == k), np.int64 radius) traces fine but cannot be '
            'saved (TypeError)', construct='save rejects numpy values'))
    # registries: every concrete subclass is registered via __init_subclass__
    for base in ('BaseGeometry', 'BaseMaterial', 'BaseCoating', 'BaseBSDF',
                 'BaseAperture', 'BaseSolve', 'Surface'):
        if base not in P.classes:
            raise AnalysisError(f'{base} not found')
        c = P.classes[base]
        m = c.methods.get('__init_subclass__')
        if m and f'{base}._registry[cls.__name__] = cls' in unparse(m.node, 999):
            res.ok(f'{base}: subclasses registered by name')
        else:
            res.fail(ctx.finding('FILE-WRAPPER', m or base, None,
                                 f'{base} does not register its subclasses by '
                                 f'class name', construct=f'{base} registry'))
        # the tag written is the class name
        td = c.methods.get('to_dict')
        if td and "'type': self.__class__.__name__" in unparse(td.node, 999):
            res.ok(f'{base}.to_dict tags with the class name')
        elif td:
            res.fail(ctx.finding('FILE-WRAPPER', td, td.node,
                                 f'{base}.to_dict does not tag with the class '
                                 f'name used by the registry',
                                 construct=f'{base} type tag'))
    # subclasses overriding to_dict without super(): literal tag must equal name
    for cn, c in P.classes.items():
        td = c.methods.get('to_dict')
        if td is None:
            continue
        for n in ast.walk(td.node):
            if isinstance(n, ast.Dict):
                for k, v in zip(n.keys, n.values):
                    if isinstance(k, ast.Constant) and k.value == 'type' and \
                            isinstance(v, ast.Constant):
                        if v.value == cn:
                            res.ok(f'{cn}: literal type tag matches')
                        else:
                            res.fail(ctx.finding(
                                'FILE-WRAPPER', td, n,
                                f'{cn}.to_dict writes type tag {v.value!r}: '
                                f'the registry rebuilds a different class',
                                construct=f'{cn} literal type tag'))
    return res


def fresh_load(ctx):
    """from_dict builds a new object from the given dictionary alone: no
    memo of earlier loads (class-level or module-level containers), so the
    result cannot depend on which dictionaries were loaded before."""
    P = ctx.P
    res = Result('FRESH-LOAD', 'every from_dict / to_dict is a function of '
                 'its argument: no class-level or module-level container is '
                 'written or consulted (only the subclass registry is read)')
    n = 0
    seen = set()
    for cn in _pairs(P):
        for nm in ('from_dict', 'to_dict'):
            f = P.lookup(cn, nm)
            if f is None or f.qual in seen:
                continue
            seen.add(f.qual)
            res.saw(f)
            n += 1
            bad = None
            glob = {g for st in ast.walk(f.node) if isinstance(st, ast.Global)
                    for g in st.names}
            for x in ast.walk(f.node):
                if isinstance(x, ast.Subscript) and isinstance(
                        x.value, ast.Attribute) and isinstance(
                        x.value.value, ast.Name) and (
                        x.value.value.id == 'cls' or
                        x.value.value.id in P.classes) and \
                        x.value.attr != '_registry':
                    bad = (x, f'{x.value.value.id}.{x.value.attr}[...]')
                elif isinstance(x, ast.Call) and isinstance(
                        x.func, ast.Attribute) and x.func.attr in (
                        'append', 'setdefault', 'update', 'add', 'get',
                        'pop') and isinstance(x.func.value, ast.Attribute) \
                        and isinstance(x.func.value.value, ast.Name) and (
                        x.func.value.value.id == 'cls' or
                        x.func.value.value.id in P.classes) and \
                        x.func.value.attr != '_registry':
                    bad = (x, unparse(x.func))
                elif isinstance(x, ast.Attribute) and isinstance(
                        x.ctx, ast.Store) and isinstance(x.value, ast.Name) \
                        and (x.value.id == 'cls' or x.value.id in P.classes):
                    bad = (x, unparse(x))
                elif isinstance(x, ast.Name) and x.id in glob:
                    bad = (x, 'global ' + x.id)
                if bad:
                    break
            # module-level mutable containers consulted by name
            if not bad:
                mod = P.modules.get(f.module) if hasattr(P, 'modules') else None
                mvars = set()
                if mod is not None:
                    for st in mod.body:
                        if isinstance(st, ast.Assign) and isinstance(
                                st.value, (ast.Dict, ast.List, ast.Set)) and \
                                not (st.value.keys if isinstance(
                                    st.value, ast.Dict) else st.value.elts):
                            for t in st.targets:
                                if isinstance(t, ast.Name):
                                    mvars.add(t.id)
                for x in ast.walk(f.node):
                    if isinstance(x, ast.Name) and x.id in mvars:
                        bad = (x, 'module-level container ' + x.id)
                        break
            # the dictionary handed in stays as it was (it is compared
            # with to_dict() of the result and may be loaded again)
            if not bad and nm == 'from_dict':
                prm = [p_ for p_ in f.params if p_ in ('data', 'd', 'dct')]
                for x in ast.walk(f.node):
                    tgt = None
                    if isinstance(x, ast.Call) and isinstance(
                            x.func, ast.Attribute) and x.func.attr in (
                            'pop', 'popitem', 'clear', 'update', 'setdefault',
                            '__setitem__', '__delitem__') and isinstance(
                            x.func.value, ast.Name):
                        tgt = x.func.value.id
                    elif isinstance(x, ast.Subscript) and isinstance(
                            x.ctx, (ast.Store, ast.Del)) and isinstance(
                            x.value, ast.Name):
                        tgt = x.value.id
                    if tgt is not None and tgt in prm:
                        bad = (x, f'mutates its argument ({unparse(x)[:40]})')
                        break
            if bad:
                res.fail(ctx.finding(
                    'FRESH-LOAD', f, bad[0],
                    f'{f.qual} consults or fills {bad[1]}: the object '
                    f'returned depends on earlier loads, not only on the '
                    f'dictionary given',
                    construct=f'{f.qual}: shared state'))
            else:
                res.ok(f'{f.qual}: no shared state')
    res.min_instances = 20
    if n < 20:
        raise AnalysisError(f'FRESH-LOAD: only {n} functions analysed')
    return res


def c12_arg_names(ctx):
    """shared with C12: arguments spelled like a parameter (x, self.x,
    data['x']) are bound to that parameter - constructor calls in from_dict
    included"""
    from .C12 import arg_names_rule as _r
    return _r(ctx)

def derived_sync_rule(ctx):
    from .common import derived_sync
    return derived_sync(ctx, 'DERIVED-SYNC')

def c01_init_stores(ctx):
    """shared with C01: constructors keep private, float-typed copies of the
    coefficient containers they are given (no aliasing of caller lists or of
    the shared default, no integer tables)"""
    from .C01 import init_stores as _r
    return _r(ctx)

def load_pure(ctx):
    """'the dictionary form of a reloaded lens equals the one it was loaded
    from': reconstruction only builds objects from the saved values; nothing
    on the call graph below Optic.from_dict may run the editing API (setters,
    pickup / solve application, update, scaling) on the lens being loaded."""
    P, eff = ctx.P, ctx.effects
    res = Result('LOAD-PURE', 'no function reachable from Optic.from_dict '
                 'edits the loaded prescription (set_*, apply, update, '
                 'scale_system, image_solve)')
    entry = P.func('Optic.from_dict')
    res.saw(entry)
    EDIT = {'Optic.set_radius', 'Optic.set_conic', 'Optic.set_thickness',
            'Optic.set_index', 'Optic.set_asphere_coeff', 'Optic.update',
            'Optic.update_paraxial', 'Optic.scale_system',
            'Optic.image_solve', 'Pickup.apply', 'PickupManager.apply',
            'SolveManager.apply', 'MarginalRayHeightSolve.apply',
            'QuickFocusSolve.apply', 'BaseSolve.apply'}
    present = {q for q in EDIT if P.has(q)}
    if len(present) < 8:
        raise AnalysisError(f'LOAD-PURE: editing API not found ({present})')
    # resolved calls only: a call whose receiver type is unknown (a pandas
    # DataFrame's .apply in the catalogue look-up) is not followed by name
    seen = {}
    unresolved = 0
    stack = [(entry, None)]
    while stack:
        f, parent = stack.pop()
        if f.qual in seen:
            continue
        seen[f.qual] = (f, parent)
        unresolved += sum(1 for c_, r_, s_ in eff.fe[f.qual].calls
                          if r_ is None)
        for g in eff.callees(f, name_based=False) + eff.prop_reads(f):
            if g.qual not in seen:
                stack.append((g, f.qual))
    hit = sorted(q for q in seen if q in present)
    res.ok(f'{len(seen)} functions reachable from Optic.from_dict through '
           f'resolved calls ({unresolved} calls with an unknown receiver not '
           f'followed)')
    if not hit:
        res.ok('none of them is part of the editing API')
    for q in hit:
        chain = eff.chain(seen, q)
        f = seen[q][0]
        caller = seen[chain[-2]][0] if len(chain) > 1 else entry
        res.fail(ctx.finding(
            'LOAD-PURE', caller, None,
            f'loading a lens runs {q} (via {" -> ".join(chain)}): the '
            f'prescription read from the file is edited while it is being '
            f'reconstructed, so a saved state that is not a fixed point of '
            f'that edit (chained pickups, pickup offset followed by '
            f'scale_system, source edited without update) is not the lens '
            f'that is returned',
            construct=f'load reaches {q}'))
    return res


# META update: declined clause 'identical traced rays' re-worded
META['declined'] = [
    'identical traced rays and paraxial values after reload as numbers (that loading performs no edit of the loaded prescription is decided: LOAD-PURE)' if _d.startswith('identical traced rays') else _d
    for _d in META['declined']]


def reload_identity(ctx):
    """two facts about object identity that a dictionary cannot carry by
    itself: (a) a medium is one object shared by the surface behind which it
    starts and the surface in front of which it ends (and by both sides of a
    mirror) - code that compares media with `is` (set_fresnel_coatings)
    depends on it, so SurfaceGroup.from_dict must re-create the sharing;
    (b) a Plane may carry a conic constant (Optic.set_conic / set_radius(inf)
    store k on it) which Plane.to_dict / from_dict must write and restore."""
    P = ctx.P
    res = Result('RELOAD-IDENTITY', 'a reloaded lens shares its media objects '
                 'like a built one; a conic kept on a flat surface is saved')
    uses_identity = []
    # == / != on media is identity as long as no material class defines
    # __eq__
    has_eq = any('__eq__' in P.classes[c_].methods
                 for c_ in P.subclasses('BaseMaterial') + ['BaseMaterial'])
    ident_ops = (ast.Is, ast.IsNot) if has_eq else \
        (ast.Is, ast.IsNot, ast.Eq, ast.NotEq)
    for f in P.all_funcs():
        for c_ in ast.walk(f.node):
            if isinstance(c_, ast.Compare) and isinstance(
                    c_.ops[0], ident_ops) and \
                    'material_pre' in unparse(c_) and \
                    'material_post' in unparse(c_):
                uses_identity.append(f.qual)
    fd = P.func('SurfaceGroup.from_dict')
    res.saw(fd)
    src = unparse(fd.node, 100000).replace(' ', '')
    relink = any(isinstance(st, ast.Assign) and
                 unparse(st.targets[0]).endswith('.material_pre') and
                 unparse(st.value).endswith('.material_post')
                 for st in ast.walk(fd.node))
    mirror = any(isinstance(st, ast.Assign) and
                 unparse(st.targets[0]).endswith('.material_post') and
                 unparse(st.value).endswith('.material_pre')
                 for st in ast.walk(fd.node))
    if not uses_identity or (relink and mirror):
        res.ok(f'media re-linked on load (identity is compared in '
               f'{sorted(set(uses_identity))})')
    else:
        res.fail(ctx.finding(
            'RELOAD-IDENTITY', fd, fd.node,
            f'{sorted(set(uses_identity))} compare media by identity, but '
            f'SurfaceGroup.from_dict builds material_pre and material_post '
            f'of every surface as separate objects: after a JSON round trip '
            f'set_fresnel_coatings gives a mirror FresnelCoating(air, air) '
            f'with reflectance 0 (axial intensity 0.0 instead of 0.9216)',
            construct='media not shared after reload'))
    td = P.func('Plane.to_dict')
    pf = P.func('Plane.from_dict')
    res.saw(td), res.saw(pf)
    stores_k = any(isinstance(st, ast.Assign) and
                   unparse(st.targets[0]) in ('surface.geometry.k',
                                              'new_geometry.k')
                   for q in ('Optic.set_conic', 'Optic.set_radius')
                   for st in ast.walk(P.func(q).node))
    writes = "'conic'" in unparse(td.node, 100000) and \
        'self.k' in unparse(td.node, 100000)
    reads = "data['conic']" in unparse(pf.node, 100000) or \
        "data.get('conic'" in unparse(pf.node, 100000)
    if not stores_k or (writes and reads):
        res.ok('Plane: a conic constant kept on the flat surface is written '
               'and restored')
    else:
        res.fail(ctx.finding(
            'RELOAD-IDENTITY', td, td.node,
            'Optic.set_conic / set_radius(inf) keep k on a Plane, but '
            'Plane.to_dict / from_dict neither write nor restore it: after '
            'set_radius(50) the original lens is a parabola and the reloaded '
            'one a sphere (marginal direction cosine -0.066228 vs -0.067575)',
            construct='Plane conic not serialised'))
    return res



def no_stale(ctx):
    from .common import stale_cache
    return stale_cache(ctx, 'NO-STALE-STATE', [],
                       'the reloaded lens depends on what was loaded before', min_methods=0)


def container_reload(ctx):
    """every entry a container wrote comes back: the from_dict of the solve,
    pickup, field and wavelength containers loops over the saved list and adds
    each rebuilt entry to the new container on every pass, and returns that
    container"""
    P = ctx.P
    res = Result('CONTAINER-RELOAD', 'SolveManager / PickupManager / '
                 'FieldGroup / WavelengthGroup .from_dict: one entry added '
                 'per saved entry, unconditionally; the filled container is '
                 'returned')
    adders = ('append', 'add', 'add_field', 'add_wavelength', 'insert',
              'extend')

    def uncond(stmts):
        for st in stmts:
            if isinstance(st, (ast.For, ast.With)):
                yield from uncond(st.body)
            elif isinstance(st, (ast.Expr, ast.Assign)):
                yield from (c for c in ast.walk(st) if isinstance(c, ast.Call))
    for cn in ('SolveManager', 'PickupManager', 'FieldGroup',
               'WavelengthGroup'):
        f = P.lookup(cn, 'from_dict')
        if f is None:
            raise AnalysisError(f'{cn}.from_dict not found')
        res.saw(f)
        made = [st.targets[0].id for st in f.node.body
                if isinstance(st, ast.Assign) and isinstance(
                    st.targets[0], ast.Name) and isinstance(
                    st.value, ast.Call) and isinstance(
                    st.value.func, ast.Name) and st.value.func.id == 'cls']
        loops = [st for st in f.node.body if isinstance(st, ast.For) and
                 'data' in unparse(st.iter)]
        rets = [st for st in f.node.body if isinstance(st, ast.Return)]
        ok_ = bool(made) and bool(loops) and any(
            isinstance(c.func, ast.Attribute) and c.func.attr in adders and
            unparse(c.func.value).split('.')[0] == made[0] and
            (c.args or c.keywords)
            for c in uncond(loops[0].body)) and bool(rets) and \
            unparse(rets[-1].value) == made[0]
        if ok_:
            res.ok(f'{cn}.from_dict: one entry added per saved entry')
        else:
            res.fail(ctx.finding(
                'CONTAINER-RELOAD', f, f.node,
                f'{cn}.from_dict does not add every saved entry to the '
                f'container it returns: a reloaded lens has lost them',
                construct=f'{cn}.from_dict loop'))
    return res

RULES = [container_reload, no_stale, reload_identity, load_pure, c01_init_stores, derived_sync_rule, c12_arg_names, fresh_load, s1_keys, s2_roundtrip, s3_plain, s4_arity, s5_none, s6_optic,
         s7_kwargs, plain_store, file_wrapper]

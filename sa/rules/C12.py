"""C12 -- geometric analyses are faithful functions of the traced rays."""
import ast
from ..core import Result
from ..pm import AnalysisError, unparse
from ..match import Code
from ..paths import paths, annotate, callee_names, call_attr
from ..rat import (Ev, Rat, Sym, Poly, fn_eval, rat_eq, Inconclusive, ONE,
                   ZERO, const_of)

META = {
    'explanation': (
        'LIST-SPACE (index-space typing): containers laid out over the '
        'analysis object\'s own field / wavelength lists are never addressed '
        'with an index or key derived from the lens\'s lists. RECORD-FRESH '
        '(paths): every read of a surface record is preceded on every path by '
        'a trace, and the record read belongs to that trace (x after the '
        'line_x trace, y after line_y). OPERAND-ATTR: each real-ray operand '
        'traces (Hx, Hy, Px, Py, wavelength) in order and reads its own record '
        'at [surface_number, 0]. PARABASAL (law): the field-curvature '
        'functions return the axial position where the two parabasal rays '
        'intersect (line-line intersection in normal form). DISTORTION: '
        '100 (y_real - y_pred)/y_pred with y_pred linear / tangent-linear in '
        'the field, calibrated at the smallest field. RADII: centred data, '
        'rms = sqrt(mean(dx^2+dy^2)), geometric = max sqrt(dx^2+dy^2); '
        'spot data order [x, y, intensity].'),
    'declined': ['Coddington agreement', 'encircled energy monotone / total',
                 'pupil-aberration values'],
    'trusted': ['surface record layout [surface, ray]', 'ring axioms'],
}

A = Rat.atom
C = Rat.const
ANALYSIS = ('optiland/analysis/', 'optiland/wavefront.py', 'optiland/psf.py',
            'optiland/mtf.py')


def list_space(ctx):
    P = ctx.P
    res = Result('LIST-SPACE', 'data laid out over self.fields x '
                 'self.wavelengths is not addressed through the lens\'s own '
                 'wavelength / field lists')
    n = 0
    for c in P.classes.values():
        if not c.module.startswith(ANALYSIS):
            continue
        init = P.lookup(c.name, '__init__')
        if init is None or 'optic' not in init.params:
            continue
        has_wl = any(isinstance(x, ast.Attribute) and x.attr == 'wavelengths'
                     and isinstance(x.value, ast.Name) and x.value.id == 'self'
                     for m in c.methods.values() for x in ast.walk(m.node))
        if not has_wl and not any(
                'wavelengths' in P.lookup(b, '__init__').params
                for b in P.mro(c.name) if P.lookup(b, '__init__')):
            continue
        for m in list(c.methods.values()):
            if m.name == '__init__':
                continue
            if m.name.startswith(('view', '_plot')):
                continue
            # names bound to a lens-list index / key
            tainted = {}
            for s in ast.walk(m.node):
                if isinstance(s, ast.Assign) and isinstance(s.targets[0],
                                                            ast.Name):
                    src = unparse(s.value)
                    if src in ('self.optic.wavelengths.primary_index',
                               'self.optic.primary_wavelength',
                               'optic.wavelengths.primary_index',
                               'optic.primary_wavelength'):
                        tainted[s.targets[0].id] = (src, s)
            for s in ast.walk(m.node):
                if not isinstance(s, ast.Subscript):
                    continue
                base = unparse(s.value)
                if not ('data' in base or 'field_data' in base):
                    continue
                idx = s.slice
                names = {x.id for x in ast.walk(idx) if isinstance(x, ast.Name)}
                srcs = unparse(idx)
                hit = [t for t in names if t in tainted]
                direct = 'optic.wavelengths.primary_index' in srcs or \
                    'optic.primary_wavelength' in srcs
                if hit or direct:
                    n += 1
                    src = tainted[hit[0]][0] if hit else srcs
                    fd = ctx.finding(
                        'LIST-SPACE', m, s,
                        f'{unparse(s)} addresses data laid out over this '
                        f'object\'s own wavelength list with {src} (an index / '
                        f'key of the LENS wavelength list): with an explicit '
                        f'wavelength list the wrong entry is read or the '
                        f'access fails',
                        construct=f'data indexed by {src}')
                    res.fail(fd)
            res.saw(m)
    # positive obligations: the per-class centroid / reference choices that are
    # expressed in the object's own list space
    for q, good in (('EncircledEnergy.centroid', 'field_data[0]'),):
        f = P.func(q)
        if good in unparse(f.node, 3000):
            res.ok(f'{q}: reference taken in its own list space ({good})')
    # data layout loops: fields outer / wavelengths inner in the generators
    for q in ('SpotDiagram._generate_data',):
        f = P.func(q)
        loops = [x for x in ast.walk(f.node) if isinstance(x, ast.For)]
        if len(loops) >= 2 and unparse(loops[0].iter) == 'fields' and \
                unparse(loops[1].iter) == 'wavelengths':
            res.ok(f'{q}: data[i][j] over fields x wavelengths')
        else:
            res.fail(ctx.finding('LIST-SPACE', f, f.node,
                                 'spot data is not laid out [field][wavelength]',
                                 construct='spot data layout'))
    init = P.func('SpotDiagram.__init__')
    s = Code(P, init)
    if 'self._generate_data(self.fields, self.wavelengths' in s:
        res.ok('SpotDiagram generates data over its own lists')
    else:
        res.fail(ctx.finding('LIST-SPACE', init, init.node,
                             'spot data not generated over the object\'s '
                             'field / wavelength lists',
                             construct='SpotDiagram lists'))
    res.require(3)
    return res


RECORD_ATTRS = {'x', 'y', 'z', 'L', 'M', 'N', 'opd', 'intensity', 'u'}


def _is_trace(e):
    return e.kind == 'call' and call_attr(e) in ('trace', 'trace_generic') and \
        'optic' in unparse(e.node.func)


def _record_read(node):
    """Attribute surface_group.<record> read"""
    if isinstance(node, ast.Attribute) and node.attr in RECORD_ATTRS and \
            isinstance(node.value, ast.Attribute) and \
            node.value.attr == 'surface_group':
        return node.attr
    return None


def record_fresh(ctx):
    P = ctx.P
    res = Result('RECORD-FRESH', 'each read of a trace record follows, on '
                 'every path, the trace it documents (no read before any '
                 'trace; x from the line_x trace, y from the line_y trace)')
    n = 0
    for f in P.all_funcs():
        if not (f.module.startswith(ANALYSIS) or
                f.module.endswith('operand/ray.py')):
            continue
        if f.name.startswith(('view', '_plot')):
            continue
        reads = [x for x in ast.walk(f.node) if _record_read(x)]
        if not reads:
            continue
        has_trace = any(isinstance(x, ast.Call) and isinstance(
            x.func, ast.Attribute) and x.func.attr in ('trace', 'trace_generic')
            and 'optic' in unparse(x.func) for x in ast.walk(f.node))
        if not has_trace:
            # helper reading records of a trace made by its caller (wavefront)
            continue
        res.saw(f)
        n += 1
        bad = None
        try:
            pl = annotate(P, f, paths(f, loop_iters=(1,)))
        except AnalysisError:
            continue
        for p in pl:
            last_trace = None
            for e in p.events:
                if _is_trace(e):
                    last_trace = e
                nodes = []
                if e.kind == 'store':
                    nodes = list(ast.walk(e.extra)) if isinstance(
                        e.extra, ast.AST) else []
                elif e.kind in ('return',) and e.node is not None:
                    nodes = list(ast.walk(e.node))
                elif e.kind == 'call':
                    nodes = [a for arg in e.node.args for a in ast.walk(arg)]
                for x in nodes:
                    r = _record_read(x)
                    if not r:
                        continue
                    if last_trace is None:
                        bad = (p, x, 'record read before any trace in this '
                               'function')
                    else:
                        dist = [k for k in last_trace.node.keywords
                                if k.arg == 'distribution']
                        if dist and isinstance(dist[0].value, ast.Constant):
                            d = dist[0].value.value
                            if d == 'line_x' and r == 'y' or \
                                    d == 'line_y' and r == 'x':
                                bad = (p, x, f'record {r} read after the '
                                       f'{d} trace')
            if bad:
                break
        if bad:
            res.fail(ctx.finding('RECORD-FRESH', f, bad[1], bad[2],
                                 path=bad[0].describe()))
        else:
            res.ok(f'{f.qual}: records read after their trace')
    res.require(15, 'functions reading records')
    return res


def operand_attr(ctx):
    P = ctx.P
    res = Result('OPERAND-ATTR', 'real-ray operands trace (Hx, Hy, Px, Py, '
                 'wavelength) in order and read their own record at '
                 '[surface_number, 0]')
    table = {'x_intercept': 'x', 'y_intercept': 'y', 'z_intercept': 'z',
             'L': 'L', 'M': 'M', 'N': 'N'}
    for name, attr in table.items():
        f = P.func('RayOperand.' + name)
        res.saw(f)
        tr = [c for c in ast.walk(f.node) if isinstance(c, ast.Call) and
              isinstance(c.func, ast.Attribute) and
              c.func.attr == 'trace_generic']
        rets = [n for n in ast.walk(f.node) if isinstance(n, ast.Return)]
        rebound = [t.id for n_ in ast.walk(f.node)
                   if isinstance(n_, (ast.Assign, ast.AugAssign))
                   for tt in (n_.targets if isinstance(n_, ast.Assign)
                              else [n_.target])
                   for t in ast.walk(tt) if isinstance(t, ast.Name) and
                   t.id in ('Hx', 'Hy', 'Px', 'Py', 'wavelength',
                            'surface_number')]
        ok = not rebound and tr and [unparse(a) for a in tr[0].args] == \
            ['Hx', 'Hy', 'Px', 'Py', 'wavelength'] and rets and \
            unparse(rets[0].value) == \
            f'optic.surface_group.{attr}[surface_number, 0]'
        if ok:
            res.ok(f'{name}: surface_group.{attr}[surface_number, 0]')
        else:
            res.fail(ctx.finding('OPERAND-ATTR', f, f.node,
                                 f'operand {name} does not return the {attr} '
                                 f'record of the requested surface for the '
                                 f'requested ray', construct=f'operand {name}'))
    f = P.func('RayOperand.rms_spot_size')
    res.saw(f)
    s = Code(P, f)
    checks = [
        ('optic.trace(Hx, Hy, wavelength, num_rays, distribution)' in s,
         'single wavelength traced as requested'),
        ('optic.trace(Hx, Hy, wave, num_rays, distribution)' in s and
         'for wave in optic.wavelengths.get_wavelengths()' in s,
         "'all': every lens wavelength traced"),
        ('r2 = (x - np.mean(x)) ** 2 + (y - np.mean(y)) ** 2' in s and
         'np.sqrt(np.mean(r2))' in s, 'rms about the centroid'),
        ('wave_idx = optic.wavelengths.primary_index' in s and
         'mean_x = np.mean(x[wave_idx])' in s,
         "'all': centroid of the primary wavelength (lists laid out over the "
         "lens wavelengths)"),
        ('optic.surface_group.x[surface_number, :]' in s and
         'optic.surface_group.y[surface_number, :]' in s,
         'x / y records of the requested surface'),
    ]
    for ok, what in checks:
        if ok:
            res.ok('rms_spot_size: ' + what)
        else:
            res.fail(ctx.finding('OPERAND-ATTR', f, f.node,
                                 'rms_spot_size: ' + what + ' violated',
                                 construct='rms_spot_size ' + what[:30]))
    return res


def parabasal(ctx):
    P = ctx.P
    res = Result('PARABASAL', 'field curvature = axial position where the two '
                 'parabasal rays of a field intersect (line-line '
                 'intersection)', level='proof')
    for q, pc, dc, delta_on in (
            ('FieldCurvature._intersection_parabasal_tangential', 'y', 'M',
             'Py'),
            ('FieldCurvature._intersection_parabasal_sagittal', 'x', 'L',
             'Px')):
        f = P.func(q)
        res.saw(f)
        sym = Sym()
        ev = Ev(sym=sym)
        slices = {}

        class E2(Ev):
            def ev(self, e):
                if isinstance(e, ast.Subscript) and 'surface_group' in \
                        unparse(e.value):
                    rec = e.value.attr
                    rec = {'z': 'z', 'N': 'N'}.get(rec, rec)
                    sl = unparse(e.slice).replace(' ', '').strip('()')
                    which = {'-1,::2': '1', '-1,1::2': '2'}.get(sl)
                    if which is None:
                        raise Inconclusive('record slice ' + sl)
                    return A(f'{rec}{which}')
                return super().ev(e)
        ev = E2(sym=sym)
        binds = {}
        tval = None
        for s in f.node.body:
            if isinstance(s, ast.Assign) and isinstance(s.targets[0], ast.Name):
                nm = s.targets[0].id
                if 'surface_group' in unparse(s.value) or nm.startswith('t'):
                    try:
                        ev.stmt(s)
                        binds[nm] = ev.env[nm]
                    except Inconclusive as e:
                        raise AnalysisError(f'{q}: {e}')
        rets = [n for n in f.node.body if isinstance(n, ast.Return)]
        if not rets:
            raise AnalysisError(f'{q}: no return')
        out = ev.ev(rets[0].value)
        # out must equal t * N1 where point1 + t d1 lies on line 2
        p1, p2 = A(pc + '1'), A(pc + '2')
        z1, z2 = A('z1'), A('z2')
        d1, d2 = A(dc + '1'), A(dc + '2')
        n1, n2 = A('N1'), A('N2')
        tt = out / n1
        lhs = (p1 + tt * d1 - p2) * n2
        rhs = (z1 + tt * n1 - z2) * d2
        if rat_eq(lhs, rhs):
            res.ok(f'{f.name}: returned z = t N1 with p1 + t d1 on ray 2')
        else:
            res.fail(ctx.finding(
                'PARABASAL', f, f.node,
                f'{f.name}: the returned value is not the axial distance to '
                f'the intersection of the two parabasal rays',
                construct=f'{f.name} intersection law'))
        # the two rays differ in the right pupil coordinate by +-delta
        s = Code(P, f)
        okp = f'{delta_on} = np.tile(np.array([-delta, delta]), ' \
              f'self.num_points)' in s and \
            'Hy = np.repeat(np.linspace(0, 1, self.num_points), 2)' in s and \
            'self.optic.trace_generic(Hx, Hy, Px, Py, wavelength=wavelength)' \
            in s
        other = 'Px' if delta_on == 'Py' else 'Py'
        okp = okp and f'{other} = np.zeros(2 * self.num_points)' in s and \
            'Hx = np.zeros(2 * self.num_points)' in s
        if okp:
            res.ok(f'{f.name}: ray pairs at {delta_on} = -+delta for each '
                   f'field, interleaved')
        else:
            res.fail(ctx.finding('PARABASAL', f, f.node,
                                 f'{f.name}: the parabasal ray pair is not '
                                 f'launched at {delta_on} = -+delta per field',
                                 construct=f'{f.name} ray pairs'))
    g = P.func('FieldCurvature._generate_data')
    s = Code(P, g)
    if 'data.append([tangential, sagittal])' in s and \
            'tangential = self._intersection_parabasal_tangential(wavelength)' \
            in s and \
            'sagittal = self._intersection_parabasal_sagittal(wavelength)' in s:
        res.ok('data[k] = [tangential, sagittal] per wavelength')
    else:
        res.fail(ctx.finding('PARABASAL', g, g.node,
                             'field curvature data not [tangential, sagittal]',
                             construct='field curvature data order'))
    return res


def distortion(ctx):
    from ..match import find_seq as _find_seq
    P = ctx.P
    res = Result('DISTORTION', 'distortion = 100 (y_real - y_pred)/y_pred; '
                 'y_pred = const * tan(H theta_max) or const * H theta_max '
                 'with const calibrated on the smallest field', level='proof')
    f = P.func('Distortion._generate_data')
    res.saw(f)
    for dtype, ftype in (('f-tan', 'angle'), ('f-theta', 'angle'),
                         ('f-tan', 'object_height'),
                         ('f-theta', 'object_height')):
        sym = Sym()
        appended = {}

        def inline(call, ev):
            fn = call.func
            if isinstance(fn, ast.Attribute) and fn.attr == 'append':
                appended['v'] = ev.ev(call.args[0])
                return ZERO
            if isinstance(fn, ast.Attribute) and fn.attr in ('zeros',
                                                             'linspace'):
                return A('H' if fn.attr == 'linspace' else 'ZEROS')
            if isinstance(fn, ast.Attribute) and fn.attr == 'trace_generic':
                ev._tg = {k.arg: unparse(k.value) for k in call.keywords}
                return ZERO
            return None

        def choose(test, ev, dtype=dtype, ftype=ftype):
            s = unparse(test)
            if 'distortion_type ==' in s:
                return f"'{dtype}'" in s
            if 'field_type ==' in s:
                return f"'{ftype}'" in s
            return None

        class E2(Ev):
            def ev(self, e):
                if isinstance(e, ast.Subscript) and 'surface_group' in \
                        unparse(e.value):
                    return A('YR')
                return super().ev(e)
        ev = E2(sym=sym, inline=inline, choose=choose)
        ev.is_array = lambda a: a in ('YR', 'H')
        ev.lens = {'self.wavelengths': 1}

        def iters(it, e):
            if unparse(it) == 'self.wavelengths':
                return [A('wl')]
            return None
        ev.iters = iters
        try:
            ev.run(f.node.body)
        except Inconclusive as e:
            raise AnalysisError(f'Distortion._generate_data: {e}')
        v = appended.get('v')
        yp = ev.env.get('yp')
        yr = ev.env.get('yr')
        if v is None or yp is None or yr is None:
            raise AnalysisError('Distortion: data / yp / yr not found')
        if sym.eq(v, C(100) * (yr - yp) / yp):
            res.ok(f'{dtype}, {ftype}: data = 100 (yr - yp)/yp')
        else:
            res.fail(ctx.finding('DISTORTION', f, f.node,
                                 f'{dtype}: distortion is {v}, not '
                                 f'100 (y_real - y_pred)/y_pred',
                                 construct=f'distortion formula {dtype}'))
        tg = getattr(ev, '_tg', {})
        if tg.get('Px') == '0' and tg.get('Py') == '0' and \
                tg.get('Hy') == 'Hy' and tg.get('Hx') == 'Hx' and \
                tg.get('wavelength') == 'wavelength':
            res.ok(f'{dtype}: chief rays (Px = Py = 0) of the field sweep')
        else:
            res.fail(ctx.finding('DISTORTION', f, f.node,
                                 'distortion does not trace chief rays of the '
                                 'field sweep', construct='distortion rays'))
        # yp shape: const * g(H), const = YR[0] / g(1e-10)
        th = A('self.optic.fields.max_field') * A('pi') / C(180)
        eps = Rat.const('0.0000000001')
        if ftype == 'object_height':
            # the field is an object height: the paraxial image height is the
            # object height times the (small-field) magnification, linear in H
            # whatever projection law is selected for angular fields
            gH, g0 = A('H'), eps
        elif dtype == 'f-tan':
            gH = sym.sin(A('H') * th) / sym.cos(A('H') * th)
            g0 = sym.sin(eps * th) / sym.cos(eps * th)
        else:
            gH = A('H') * th
            g0 = eps * th
        g0_alt = sym.sin(eps * th) / sym.cos(eps * th)   # tan(x) ~ x at 1e-10
        tag = f'{dtype}, {ftype} fields'
        if sym.eq(yp, A('YR[0]') / g0 * gH) or (
                dtype == 'f-theta' and ftype == 'angle' and
                sym.eq(yp, A('YR[0]') / g0_alt * gH)):
            res.ok(f'{tag}: y_pred = y_real(smallest field)/g(eps) * g(H)')
        else:
            res.fail(ctx.finding(
                'DISTORTION', f, f.node,
                f'{tag}: predicted image height {yp} is not '
                f'y_real(smallest field) / g(eps) * g(H) with g(H) = '
                + ('H (height fields: magnification x object height; a height '
                   'in mm is not an angle in degrees)'
                   if ftype == 'object_height' else f'the {dtype} law'),
                construct=f'distortion prediction {dtype} {ftype}'))
    # unsupported type raises
    if any(isinstance(n, ast.Raise) for n in ast.walk(f.node)):
        res.ok('unknown distortion type raises')
    g = P.func('GridDistortion._generate_data')
    res.saw(g)
    s = Code(P, g)
    gchecks = [
        ("delta = np.sqrt((data['xp'] - data['xr']) ** 2 + (data['yp'] - "
         "data['yr']) ** 2)" in s, 'distance between predicted and real'),
        ("rp = np.sqrt(data['xp'] ** 2 + data['yp'] ** 2)" in s and
         bool(_find_seq(g, ['$m = rp > $eps * np.max(rp)',
                            'np.max(100 * delta[$m] / rp[$m])']) or
              _find_seq(g, ['$m = rp > 0',
                            'np.max(100 * delta[$m] / rp[$m])']) or
              _find_seq(g, ['np.nanmax(100 * delta / rp)'])),
         'relative to the predicted radius, in percent, over the off-axis '
         'nodes (0/0 on axis)'),
        ("data['xr'] = np.reshape(self.optic.surface_group.x[-1, :]" in s and
         "data['yr'] = np.reshape(self.optic.surface_group.y[-1, :]" in s,
         'real x / y from the x / y records'),
        ('self.optic.trace_generic(Hx=Hx.flatten(), Hy=Hy.flatten(), Px=0, '
         'Py=0, wavelength=self.wavelength)' in s, 'chief rays of the grid'),
    ]
    for ok, what in gchecks:
        if ok:
            res.ok('grid distortion: ' + what)
        else:
            res.fail(ctx.finding('DISTORTION', g, g.node,
                                 'grid distortion: ' + what + ' violated',
                                 construct='grid ' + what[:30]))
    return res


def radii(ctx):
    P = ctx.P
    res = Result('RADII', 'spot data = [x, y, intensity] of the image-surface '
                 'record after tracing that field / wavelength; radii are '
                 'about the centroid: rms = sqrt(mean(dx^2+dy^2)), geometric = '
                 'max sqrt(dx^2+dy^2)')
    for cn in ('SpotDiagram', 'EncircledEnergy'):
        f = P.func(cn + '._generate_field_data')
        res.saw(f)
        s = Code(P, f)
        ok = 'self.optic.trace(*field, wavelength, num_rays, distribution)' in s \
            and 'x = self.optic.surface_group.x[-1, :]' in s and \
            'y = self.optic.surface_group.y[-1, :]' in s and \
            'intensity = self.optic.surface_group.intensity[-1, :]' in s and \
            'return [x, y, intensity]' in s
        if ok:
            res.ok(f'{cn}: [x, y, intensity] at the image surface')
        else:
            res.fail(ctx.finding('RADII', f, f.node,
                                 f'{cn} field data is not [x, y, intensity] '
                                 f'of the image-surface record of that trace',
                                 construct=f'{cn} field data'))
    f = P.func('SpotDiagram._center_spots')
    res.saw(f)
    s = Code(P, f)
    if 'wave_data[0] -= centroids[i][0]' in s and \
            'wave_data[1] -= centroids[i][1]' in s and \
            'centroids = self.centroid()' in s and \
            'for i, field_data in enumerate(data)' in s and \
            'deepcopy(self.data)' in s:
        res.ok('_center_spots: x -= cx_i, y -= cy_i per field, on a copy')
    else:
        res.fail(ctx.finding('RADII', f, f.node,
                             'spots are not centred on their field centroid '
                             '(x with x, y with y) on a copy',
                             construct='_center_spots'))
    f = P.func('SpotDiagram.rms_spot_radius')
    res.saw(f)
    s = Code(P, f)
    from ..match import find_seq as _fs
    if _fs(f, ['$r = $w[0] ** 2 + $w[1] ** 2',
               'np.sqrt(np.mean($r[$w[2] > 0]))']) and '_center_spots' in s:
        res.ok('rms radius = sqrt(mean(dx^2+dy^2)) of the centred, '
               'transmitted rays')
    else:
        res.fail(ctx.finding('RADII', f, f.node,
                             'rms spot radius is not sqrt(mean(dx^2+dy^2)) '
                             'of the transmitted rays about the centroid',
                             construct='rms_spot_radius'))
    f = P.func('SpotDiagram.geometric_spot_radius')
    res.saw(f)
    s = Code(P, f)
    if _fs(f, ['$r = np.sqrt($w[0] ** 2 + $w[1] ** 2)',
               'np.max($r[$w[2] > 0])']) and '_center_spots' in s:
        res.ok('geometric radius = max sqrt(dx^2+dy^2) of the centred, '
               'transmitted rays')
    else:
        res.fail(ctx.finding('RADII', f, f.node,
                             'geometric spot radius is not the largest '
                             'distance from the centroid',
                             construct='geometric_spot_radius'))
    f = P.func('SpotDiagram.centroid')
    res.saw(f)
    s = Code(P, f)
    if _fs(f, ['$m = $d[norm_index][2] > 0',
               '$cx = np.mean($d[norm_index][0][$m])',
               '$cy = np.mean($d[norm_index][1][$m])',
               '$c.append(($cx, $cy))']):
        res.ok('centroid = (mean x, mean y) of the transmitted rays of the '
               'reference wavelength')
    else:
        res.fail(ctx.finding('RADII', f, f.node,
                             'centroid is not (mean x, mean y)',
                             construct='centroid'))
    # ray fan: errors relative to the chief ray (centre sample) of the primary
    f = P.func('RayFan._generate_data')
    res.saw(f)
    s = Code(P, f)
    fchecks = [
        ("distribution='line_x'" in s and "distribution='line_y'" in s,
         'both pupil axes traced'),
        ("['x'] -= x_offset" in s and "['y'] -= y_offset" in s,
         'offset subtracted from x with x, y with y'),
        ("['x'][self.num_points // 2]" in s and
         "['y'][self.num_points // 2]" in s,
         'offset = centre sample (chief ray)'),
    ]
    for ok, what in fchecks:
        if ok:
            res.ok('ray fan: ' + what)
        else:
            res.fail(ctx.finding('RADII', f, f.node,
                                 'ray fan: ' + what + ' violated',
                                 construct='ray fan ' + what[:30]))
    return res


def no_stale(ctx):
    from .common import stale_cache
    return stale_cache(ctx, 'NO-STALE-STATE', ['SpotDiagram', 'EncircledEnergy', 'RayFan', 'Distortion', 'GridDistortion', 'FieldCurvature', 'PupilAberration', 'RmsSpotSizeVsField', 'RmsWavefrontErrorVsField'],
                       'the analysis contains data of an earlier evaluation', min_methods=5)


def records(ctx):
    from .C02 import records as _r
    return _r(ctx)


ARG_EXC = {
    ('ImageSurface.__init__', 'Surface.__init__', 'material_post',
     'material_pre'): 'the image space is one medium on both sides',
    ('ObjectSurface.__init__', 'Surface.__init__', 'material_pre',
     'material_post'): 'the object space is one medium on both sides',
}
# visualization (thorough tier only): a dummy ray bundle used to evaluate the
# sag at (x, y); z, direction and wavelength are placeholders of the same shape
for _p in ('z', 'L', 'M', 'N', 'wavelength'):
    ARG_EXC[('Surface2D._compute_sag', 'RealRays.__init__', _p, 'x')] = \
        'placeholder of the shape of x in a sag-only ray bundle'


def arg_names_rule(ctx):
    from .common import arg_names
    return arg_names(ctx, 'ARG-NAMES', lambda g: True, ARG_EXC, 600)


def arg_forward_rule(ctx):
    from .common import arg_forward
    return arg_forward(ctx, 'ARG-FORWARD', 30)


def c03_fields(ctx):
    """shared with C03: normalised field coordinates of fields='all' and the
    wavelength unit table (the documented samples of every analysis)"""
    from .C03 import field_wiring as _r
    return _r(ctx)

def c03_trace_entry(ctx):
    """shared with C03: the pupil samples requested are the ones traced
    (vignetting factors applied exactly once on the way to the generator)"""
    from .C03 import trace_entry as _r
    return _r(ctx)

INTENSITY_CONSUMERS = ('SpotDiagram.centroid', 'SpotDiagram.rms_spot_radius',
                        'SpotDiagram.geometric_spot_radius',
                        'EncircledEnergy.centroid', 'RayOperand.rms_spot_size')


def intensity_used(ctx):
    """spot data are [x, y, intensity]; a ray stopped by an aperture keeps
    finite coordinates and gets intensity 0.  A statistic over x, y that never
    looks at the intensity counts blocked rays as if they had arrived."""
    P = ctx.P
    res = Result('INTENSITY-USED', 'statistics of the traced spot (centroid, '
                 'RMS / geometric radius, line spread) weight or mask the rays '
                 'with the recorded intensity')
    for q in INTENSITY_CONSUMERS:
        f = P.func(q)
        res.saw(f)
        uses_i = False
        for x in ast.walk(f.node):
            if isinstance(x, ast.Subscript) and const_of(x.slice) == 2:
                uses_i = True
            if isinstance(x, ast.Attribute) and x.attr in ('intensity', 'i'):
                uses_i = True
            if isinstance(x, ast.Name) and x.id in ('intensity', 'weights',
                                                    'energy'):
                uses_i = True
        # statistics delegated to a sibling that does look at the intensity
        if uses_i:
            res.ok(f'{q}: uses the intensity record')
        else:
            res.fail(ctx.finding(
                'INTENSITY-USED', f, f.node,
                f'{q} averages / bins the x, y records of all launched rays '
                f'and never reads their intensity: rays blocked by an '
                f'aperture or obscuration (intensity 0, coordinates finite) '
                f'count like transmitted ones',
                construct=f'{q}: intensity ignored'))
    return res


def const_str(n):
    return n.value if isinstance(n, ast.Constant) and \
        isinstance(n.value, str) else None


def pupil_aberration(ctx):
    """pupil aberration = (paraxial - real) stop coordinate, in per cent of
    the paraxial stop semi-diameter, x part from the line_x fan and y part
    from the line_y fan, at the same pupil samples as the paraxial fan; rays
    that did not reach the stop are NaN.  Syntax-directed walk of
    PupilAberration._generate_data with the state 'which trace is the record
    from'."""
    P = ctx.P
    res = Result('PUPIL-ABERRATION', 'pupil aberration is 100 (y_paraxial - '
                 'y_real) / d at the stop, component by component, from the '
                 'fan that was traced for that component')
    f = P.func('PupilAberration._generate_data')
    res.saw(f)

    def bad(node, msg, construct):
        res.fail(ctx.finding('PUPIL-ABERRATION', f, node, msg,
                             construct=construct))

    flat = []

    def walk(body):
        for st in body:
            if isinstance(st, ast.For):
                walk(st.body)
            else:
                flat.append(st)
    walk(f.node.body)
    defs = {}                   # name -> description tuple
    last = None                 # description of the last trace
    stop = None
    samples = {}
    stores = {}
    masks = {}
    for st in flat:
        src = unparse(st)
        calls = [c for c in ast.walk(st) if isinstance(c, ast.Call) and
                 isinstance(c.func, ast.Attribute) and c.func.attr == 'trace']
        if isinstance(st, ast.Expr) and calls:
            c = calls[0]
            if 'paraxial' in unparse(c.func):
                a = [unparse(x) for x in c.args]
                last = ('paraxial',) + tuple(a)
            else:
                kw = {k.arg: unparse(k.value) for k in c.keywords}
                last = ('real', kw.get('distribution'), kw.get('num_rays'),
                        kw.get('Hx'), kw.get('Hy'), kw.get('wavelength'))
            continue
        if isinstance(st, ast.Assign) and len(st.targets) == 1:
            t, v = st.targets[0], st.value
            if isinstance(t, ast.Name):
                if unparse(v).endswith('surface_group.stop_index'):
                    stop = t.id
                    continue
                if isinstance(v, ast.Dict):
                    for k, x in zip(v.keys, v.values):
                        samples[const_str(k)] = unparse(x)
                    continue
                if isinstance(v, ast.Subscript) and _record_read(v.value):
                    sl = v.slice.elts if isinstance(v.slice, ast.Tuple) \
                        else [v.slice]
                    defs[t.id] = ('rec', _record_read(v.value),
                                  ', '.join(unparse(x) for x in sl), last)
                    continue
                defs[t.id] = ('expr', v)
                continue
            if isinstance(t, ast.Subscript) and isinstance(t.value, ast.Name) \
                    and unparse(v) in ('np.nan', 'float("nan")'):
                masks[t.value.id] = t.slice
                continue
            if isinstance(t, ast.Subscript) and \
                    isinstance(t.slice, ast.Constant) and \
                    t.slice.value in ('x', 'y') and isinstance(v, ast.Name):
                stores[t.slice.value] = (v.id, unparse(t.value))
    if stop is None:
        raise AnalysisError('PupilAberration: stop index not found')
    # the fans are traced for the field of the loop: Hx = field[0],
    # Hy = field[1]
    hx, hy = defs.get('Hx'), defs.get('Hy')
    if hx and hy and hx[0] == 'expr' and hy[0] == 'expr' and \
            unparse(hx[1]) == 'field[0]' and unparse(hy[1]) == 'field[1]':
        res.ok('real fans traced at (Hx, Hy) = (field[0], field[1])')
    else:
        bad(f.node, 'the real fans are not traced at (Hx, Hy) = (field[0], '
            'field[1]) of the field the result is stored under',
            'field coordinates of the fans')
    lin = f'np.linspace(-1, 1, self.num_points)'
    for k in ('Px', 'Py'):
        if samples.get(k) != lin:
            bad(f.node, f'pupil samples {k} are {samples.get(k)}, the line '
                f'distributions trace np.linspace(-1, 1, num_rays)',
                'pupil samples')
        else:
            res.ok(f'{k} samples = linspace(-1, 1, num_points)')
    for comp, dist in (('x', "'line_x'"), ('y', "'line_y'")):
        if comp not in stores:
            bad(f.node, f"no store to [...]['{comp}']", f'store {comp}')
            continue
        name, where = stores[comp]
        if where != "data[f'{field}'][f'{wavelength}']":
            bad(f.node, f'{comp} error stored under {where}',
                f'store key {comp}')
        d = defs.get(name)
        pat = None
        if d and d[0] == 'expr':
            # roles from the definitions of the names in the expression, the
            # formula itself compared as a rational function
            names = sorted({n.id for n in ast.walk(d[1])
                            if isinstance(n, ast.Name) and n.id in defs})
            roles = {}
            for nm in names:
                dd_ = defs[nm]
                if dd_[0] != 'rec' or not dd_[3]:
                    continue
                if dd_[3][0] == 'real':
                    roles['REAL'] = nm
                elif dd_[2].endswith(', :'):
                    roles['REF'] = nm
                else:
                    roles['D'] = nm
            # the vignetting factor of this component: a name bound by
            # `vx, vy = ....get_vig_factor(Hx, Hy)`
            vig = None
            for st_ in ast.walk(f.node):
                if isinstance(st_, ast.Assign) and isinstance(
                        st_.targets[0], ast.Tuple) and \
                        len(st_.targets[0].elts) == 2 and \
                        isinstance(st_.value, ast.Call) and \
                        unparse(st_.value.func).endswith('get_vig_factor') \
                        and [unparse(a_) for a_ in st_.value.args] == \
                        ['Hx', 'Hy']:
                    vig = unparse(st_.targets[0].elts[0 if comp == 'x'
                                                      else 1])
            vnames = sorted({n.id for n in ast.walk(d[1])
                             if isinstance(n, ast.Name) and n.id == vig})
            if len(roles) == 3 and len(names) == 3 and vig:
                try:
                    ev = Ev(sym=Sym(), env={nm: Rat.atom(nm)
                                            for nm in names + [vig]})
                    got = ev.ev(d[1])
                    want = Rat.const(100) * (
                        Rat.atom(roles['REF']) * (ONE - Rat.atom(vig)) -
                        Rat.atom(roles['REAL'])) / \
                        Rat.atom(roles['D'])
                    if rat_eq(got, want):
                        pat = {k: ast.Name(id=v) for k, v in roles.items()}
                except Inconclusive:
                    pat = None
        if not pat:
            bad(f.node, f'error_{comp} is not 100 * (paraxial (1 - v{comp}) - '
                f'real) / d: the real fan of a vignetted field is launched '
                f'towards P (1 - v), the reference must be the same pupil '
                f'point', f'error {comp} formula')
            continue
        ref, real, dd = (defs.get(unparse(pat[k])) for k in
                         ('REF', 'REAL', 'D'))
        ok = True
        if not (ref and ref[0] == 'rec' and ref[1] == 'y' and
                ref[2] == f'{stop}, :' and ref[3] and
                ref[3][0] == 'paraxial' and ref[3][1:] == (
                    '0', "data['Py']", 'self.optic.primary_wavelength')):
            ok = False
            bad(f.node, f'the paraxial reference of the {comp} part is not '
                f'the stop height of the on-axis paraxial fan over the pupil '
                f'samples ({ref})', f'paraxial reference {comp}')
        if not (real and real[0] == 'rec' and real[1] == comp and
                real[2] == f'{stop}, :' and real[3] and
                real[3][:3] == ('real', dist, 'self.num_points') and
                real[3][3:] == ('Hx', 'Hy', 'wavelength')):
            ok = False
            bad(f.node, f'the real {comp} coordinate is not the stop record '
                f'{comp}[stop, :] of the {dist} fan of this field and '
                f'wavelength ({real})', f'real coordinate {comp}')
        if not (dd and dd[0] == 'rec' and dd[1] == 'y' and
                dd[2] == f'{stop}, 0' and dd[3] and dd[3][0] == 'paraxial'
                and dd[3][1:] == ('0', '1',
                                  'self.optic.primary_wavelength')):
            ok = False
            bad(f.node, f'the normalisation is not the paraxial marginal '
                f'height at the stop ({dd})', f'normalisation {comp}')
        m = masks.get(name)
        mi = None
        if m is not None and isinstance(m, ast.Compare) and \
                isinstance(m.ops[0], ast.Eq) and \
                unparse(m.comparators[0]) in ('0', '0.0'):
            mi = defs.get(unparse(m.left))
        if not (mi and mi[0] == 'rec' and mi[1] == 'intensity' and
                mi[2] == f'{stop}, :' and mi[3] and mi[3][:2] == ('real',
                                                                  dist)):
            ok = False
            bad(f.node, f'the {comp} part is not blanked where the {dist} '
                f'ray has zero intensity at the stop ({mi})', f'mask {comp}')
        if ok:
            res.ok(f'{comp}: 100 (paraxial fan - {dist} fan) / d at the '
                   f'stop, blocked rays NaN')
    return res


# META update: declined clause 'pupil-aberration values' re-worded
META['declined'] = [
    'pupil-aberration values as numbers (the formula, the fans it reads and the blocked-ray mask are decided: PUPIL-ABERRATION)' if _d.startswith('pupil-aberration values') else _d
    for _d in META['declined']]


def grid_ftheta(ctx):
    """'distortion is the relative departure of the chief-ray image height
    from the paraxial image height' with the f-theta reference: the ideal
    image of a field direction at polar angle theta from the axis lies at the
    radius f * theta (in the azimuth of the field).  On a grid the polar
    angle depends on both field angles, so in the f-theta arm each reference
    coordinate must depend on Hx and Hy; (f * theta_x, f * theta_y) is not a
    radial f-theta law (it agrees with it on the axes only)."""
    P = ctx.P
    res = Result('GRID-FTHETA', 'GridDistortion f-theta reference is radial: '
                 'r = f * (polar field angle)')
    f = P.func('GridDistortion._generate_data')
    res.saw(f)
    arm = None
    for n in ast.walk(f.node):
        if isinstance(n, ast.If) and "'f-theta'" in unparse(n.test):
            arm = n.body
    if arm is None:
        raise AnalysisError('GridDistortion: f-theta arm not found')
    deps = {}
    for st in arm:
        if isinstance(st, ast.Assign) and isinstance(st.targets[0], ast.Name):
            deps[st.targets[0].id] = {x.id for x in ast.walk(st.value)
                                      if isinstance(x, ast.Name)}
    # transitive closure over the locals of the arm
    def closure(nm, seen=()):
        out = set()
        for d in deps.get(nm, ()):
            out.add(d)
            if d in deps and d not in seen:
                out |= closure(d, seen + (nm,))
        return out
    okx = {'Hx', 'Hy'} <= closure('xp')
    oky = {'Hx', 'Hy'} <= closure('yp')
    if okx and oky:
        res.ok('f-theta reference coordinates depend on the polar field angle')
    else:
        res.fail(ctx.finding(
            'GRID-FTHETA', f, arm[0],
            "GridDistortion(distortion_type='f-theta') measures against "
            "(f theta_x, f theta_y), each from its own field angle, instead "
            "of the radial f theta: at the grid corner of the Cooke triplet "
            "max_distortion is 2.1429 % where the radial law - and the "
            "library's own 1-D f-theta Distortion at the corner's polar "
            "angle of 19.61 deg - gives 4.1605 %",
            construct='grid f-theta reference not radial'))
    return res


def image_frame(ctx):
    """spot statistics are distances measured in the image surface.  The
    per-surface records are written after globalize, i.e. in the global frame;
    for an image surface that is tilted or reached through a fold mirror the
    global x / y are not coordinates in that surface.  Necessary structure:
    the spot data pass through the frame of the image surface (localize / its
    coordinate system) before radii are formed."""
    P = ctx.P
    res = Result('IMAGE-FRAME', 'spot coordinates are taken in the frame of '
                 'the image surface')
    f = P.func('SpotDiagram._generate_field_data')
    res.saw(f)
    src = unparse(f.node, 100000)
    reads_global = 'surface_group.x[-1' in src and 'surface_group.y[-1' in src
    localized = any(k in src for k in ('localize', 'image_surface.geometry.cs',
                                       'get_rotation_matrix',
                                       'position_in_gcs'))
    rec = P.func('Surface._record')
    tr = P.func('Surface._trace_real')
    res.saw(rec), res.saw(tr)
    seq = [c.func.attr for c in ast.walk(tr.node) if isinstance(c, ast.Call)
           and isinstance(c.func, ast.Attribute) and
           c.func.attr in ('globalize', '_record')]
    after_globalize = 'globalize' in seq and '_record' in seq and \
        seq.index('globalize') < seq.index('_record')
    if not (reads_global and after_globalize) or localized:
        res.ok('spot data are expressed in the image surface frame')
    else:
        res.fail(ctx.finding(
            'IMAGE-FRAME', f, f.node,
            'SpotDiagram (and EncircledEnergy, RayFan, '
            'RayOperand.rms_spot_size in the same way) reads '
            'surface_group.x / y[-1], which are recorded after globalize: '
            'behind a 45 deg fold mirror with the image surface at rx = pi/2 '
            'the RMS radius is 0.03114 instead of 0.04404 (1/sqrt 2) and the '
            'centroid height 18.0 instead of 2.62; with an image plane '
            'tilted by 30 deg the RMS radius is 7-8 % low',
            construct='spot coordinates in the global frame'))
    return res


def operand_spot(ctx):
    """the spot-size operand recomputes the RMS radius from its own traces:
    for wavelength 'all' the radii of every wavelength's rays are taken about
    the centroid of the PRIMARY wavelength (entry primary_index of the lists
    it filled, which are in the lens's wavelength order); x pairs with x and
    y with y.  Checked on names and indices, not on the exact text, so that a
    masked (blocked rays left out) form is accepted as well."""
    P = ctx.P
    res = Result('OPERAND-SPOT', "rms_spot_size 'all': centroid of the "
                 'primary wavelength, radii of all wavelengths about it, '
                 'x with x and y with y')
    f = P.func('RayOperand.rms_spot_size')
    res.saw(f)
    arm = None
    for n in ast.walk(f.node):
        if isinstance(n, ast.If) and "'all'" in unparse(n.test):
            arm = n
    if arm is None:
        raise AnalysisError("rms_spot_size: 'all' arm not found")
    defs = {}
    for st in ast.walk(ast.Module(body=arm.body, type_ignores=[])):
        if isinstance(st, ast.Assign) and isinstance(st.targets[0], ast.Name):
            defs[st.targets[0].id] = st.value
    loops = [n for n in arm.body if isinstance(n, ast.For)]
    ok_loop = bool(loops) and 'get_wavelengths()' in unparse(loops[0].iter)
    app = {}
    if loops:
        wv = unparse(loops[0].target)
        tr = [c for c in ast.walk(loops[0]) if isinstance(c, ast.Call) and
              unparse(c.func) == 'optic.trace']
        ok_loop = ok_loop and tr and len(tr[0].args) >= 3 and \
            unparse(tr[0].args[2]) == wv
        for c in ast.walk(loops[0]):
            if isinstance(c, ast.Call) and isinstance(c.func, ast.Attribute) \
                    and c.func.attr == 'append' and c.args:
                rec = [x.attr for x in ast.walk(c.args[0])
                       if isinstance(x, ast.Attribute) and
                       x.attr in ('x', 'y') and
                       unparse(x.value).endswith('surface_group')]
                app[unparse(c.func.value)] = (rec, 'surface_number' in
                                              unparse(c.args[0]))
    ok_rec = app.get('x', ([], False)) == (['x'], True) and \
        app.get('y', ([], False)) == (['y'], True)
    idx = [k for k, v in defs.items()
           if unparse(v) == 'optic.wavelengths.primary_index']
    ok_cent = False
    if idx:
        k = idx[0]
        mx = [n_ for n_, v in defs.items() if f'x[{k}]' in unparse(v) and
              f'y[{k}]' not in unparse(v) and 'mean' in unparse(v)]
        my = [n_ for n_, v in defs.items() if f'y[{k}]' in unparse(v) and
              f'x[{k}]' not in unparse(v) and 'mean' in unparse(v)]
        comp = [v for v in defs.values() if isinstance(v, ast.ListComp)]
        if mx and my and comp:
            c0 = comp[0]
            iv = unparse(c0.generators[0].target)
            el = unparse(c0.elt).replace(' ', '')
            ok_cent = f'(x[{iv}]' in el and f'(y[{iv}]' in el and \
                f'-{mx[0]})**2' in el and f'-{my[0]})**2' in el and \
                el.index(f'(x[{iv}]') < el.index(f'-{mx[0]})') and \
                unparse(c0.generators[0].iter).replace(' ', '') in (
                    'range(len(x))', 'range(len(y))')
    for ok, what in ((ok_loop, 'one trace per wavelength of the lens, in '
                               'order'),
                     (ok_rec, 'x list from the x record, y list from the y '
                              'record of the requested surface'),
                     (ok_cent, 'radii of every wavelength about the centroid '
                               'of entry primary_index')):
        if ok:
            res.ok('rms_spot_size all: ' + what)
        else:
            res.fail(ctx.finding(
                'OPERAND-SPOT', f, arm,
                "rms_spot_size(wavelength='all') violates: " + what,
                construct='rms_spot_size all: ' + what[:40]))
    return res



def c16_lost_write(ctx):
    """shared with C16: the ray energies the analyses read on the image
    surface are those of the traced rays (image record intensity := rays.i)"""
    from .C16 import lost_write as _r
    return _r(ctx)

RULES = [c16_lost_write, operand_spot, image_frame, grid_ftheta, pupil_aberration, intensity_used, c03_trace_entry, c03_fields, arg_forward_rule, no_stale, records, arg_names_rule, list_space, record_fresh, operand_attr, parabasal, distortion, radii]

"""C03 -- rays start at the requested field point and aim at the requested
pupil point (structural clauses)."""
import ast
import itertools
from ..core import Result
from ..pm import AnalysisError, unparse
from ..match import Code
from ..rat import (Ev, Rat, Sym, Poly, fn_eval, rat_eq, Inconclusive, ONE,
                   ZERO, const_of)

META = {
    'explanation': (
        'CONFIG-TABLE (predicate abstraction): the joint control flow of '
        'generate_rays and _get_ray_origins is enumerated over the atoms '
        '(object infinite?, field type, telecentric?, aperture type): every '
        'unsupported combination of the statement reaches a raise before a '
        'ray object is built, every supported one reaches the constructor. '
        'AIM (transfer law in 3-D, rational normal forms): direction = '
        '(p1 - p0)/|p1 - p0|; non-telecentric aim point (Px, Py) EPD/2 (1-v) '
        'in the plane z = EPL; origins per configuration: object height -> '
        '(Hx, Hy) max_field on the object surface; infinite object -> chief '
        'direction tan(theta) with theta = H max_field; telecentric -> axial '
        'chief ray and marginal slope from the numerical aperture. RAY-INIT: '
        'unit intensity, requested wavelength, zero path. SHRINK / IN-DISK '
        '(sign / interval rules): vignetting enters only as factors (1 - v); '
        'every named sampling is of a form bounded by the unit disk. '
        'DIST-REGISTRY: names -> classes. VIG-INTERP: interpolation over '
        'normalised field height, sorted.'),
    'declined': ['point counts of the samplings', 'start-plane position for '
                 'infinite objects', 'numeric aim accuracy'],
    'trusted': ['first surface at z = 0 (C01 THICKNESS-EDIT / PLACEMENT)',
                'np.interp stays within the range of its ordinates',
                'rng.uniform() in [0, 1), linspace(a, b) in [a, b], '
                '|cos|,|sin| <= 1, polar-form lemma'],
}

A = Rat.atom
C = Rat.const


def _rg(P):
    if 'RayGenerator' not in P.classes:
        raise AnalysisError('RayGenerator not found')
    return P.classes['RayGenerator']


class _Raise(Exception):
    pass


class _Ret(Exception):
    pass


def _cond(e, val):
    s = unparse(e)
    if s == 'self.optic.obj_space_telecentric':
        return val['tele']
    if s == 'obj.is_infinite':
        return val['inf']
    if isinstance(e, ast.Compare) and len(e.ops) == 1 and \
            isinstance(e.ops[0], ast.NotEq) and \
            isinstance(e.comparators[0], ast.Constant):
        r = _cond(ast.Compare(left=e.left, ops=[ast.Eq()],
                              comparators=e.comparators), val)
        return None if r is None else not r
    if isinstance(e, ast.Compare) and len(e.ops) == 1 and \
            isinstance(e.ops[0], ast.Eq) and \
            isinstance(e.comparators[0], ast.Constant):
        l = unparse(e.left)
        c = e.comparators[0].value
        if l == 'self.optic.field_type':
            return val['ft'] == c
        if l == 'self.optic.aperture.ap_type':
            return val['ap'] == c
        if l == 'self.optic.polarization':
            return val['pol_ignore'] if c == 'ignore' else None
    if s == 'self.optic.surface_group.uses_polarization':
        return val['uses_pol']
    if isinstance(e, ast.BoolOp):
        vs = [_cond(v, val) for v in e.values]
        return all(vs) if isinstance(e.op, ast.And) else any(vs)
    if isinstance(e, ast.UnaryOp) and isinstance(e.op, ast.Not):
        return not _cond(e.operand, val)
    raise AnalysisError('CONFIG-TABLE: branch condition outside the atoms: ' + s)


def _run(body, val, fns, built):
    for st in body:
        if isinstance(st, ast.If):
            if _cond(st.test, val):
                _run(st.body, val, fns, built)
            else:
                _run(st.orelse, val, fns, built)
        elif isinstance(st, ast.Raise):
            raise _Raise()
        elif isinstance(st, ast.Return):
            for n in ast.walk(st):
                if isinstance(n, ast.Call) and isinstance(n.func, ast.Name) and \
                        n.func.id in ('RealRays', 'PolarizedRays'):
                    built.append(n.func.id)
            raise _Ret()
        else:
            for n in ast.walk(st):
                if isinstance(n, ast.Call) and isinstance(n.func, ast.Attribute)\
                        and isinstance(n.func.value, ast.Name) and \
                        n.func.value.id == 'self' and n.func.attr in fns and \
                        n.func.attr.startswith('_get_ray'):
                    try:
                        _run(fns[n.func.attr].node.body, val, fns, [])
                    except _Ret:
                        pass
                if isinstance(n, ast.Call) and isinstance(n.func, ast.Name) and \
                        n.func.id in ('RealRays', 'PolarizedRays'):
                    built.append(n.func.id)


def _spec(inf, ft, tele, ap):
    if inf and ft == 'object_height':
        return 'raise'
    if inf and tele:
        return 'raise'
    if tele and ap in ('EPD', 'imageFNO'):
        return 'raise'
    if tele and ft == 'angle':
        return 'dc'
    if inf and ap == 'objectNA':
        return 'dc'
    return 'trace'


def config_table(ctx):
    P = ctx.P
    res = Result('CONFIG-TABLE', 'unsupported combinations (height fields or '
                 'telecentricity with an infinite object; EPD / image F-number '
                 'with telecentric object space) raise before rays are built; '
                 'supported ones build rays')
    c = _rg(P)
    fns = c.methods
    gen = fns.get('generate_rays')
    if gen is None:
        raise AnalysisError('RayGenerator.generate_rays not found')
    res.saw(gen)
    for m in fns.values():
        res.saw(m)
    for inf, ft, tele, ap in itertools.product(
            [True, False], ['angle', 'object_height'], [True, False],
            ['EPD', 'imageFNO', 'objectNA']):
        outs = set()
        for pol_ignore, uses_pol in itertools.product([True, False],
                                                      [True, False]):
            val = dict(inf=inf, ft=ft, tele=tele, ap=ap,
                       pol_ignore=pol_ignore, uses_pol=uses_pol)
            built = []
            try:
                _run(gen.node.body, val, fns, built)
                outs.add('fallthrough')
            except _Raise:
                outs.add('RAISE' if not built else 'RAISE-AFTER-BUILD')
            except _Ret:
                outs.add('RAYS' if built else 'RETURN-NOTHING')
        s = _spec(inf, ft, tele, ap)
        name = f'infinite={inf} field={ft} telecentric={tele} aperture={ap}'
        if s == 'raise':
            if outs == {'RAISE'}:
                res.ok(f'{name}: rejected')
            else:
                res.fail(ctx.finding(
                    'CONFIG-TABLE', gen, gen.node,
                    f'configuration {name} cannot be represented by the model '
                    f'but is not rejected on every path (outcomes '
                    f'{sorted(outs)}): rays are traced from a meaningless '
                    f'launch', construct='must raise: ' + name))
        elif s == 'trace':
            if 'RAYS' in outs and not (outs & {'fallthrough',
                                               'RETURN-NOTHING'}):
                res.ok(f'{name}: rays built')
            else:
                res.fail(ctx.finding(
                    'CONFIG-TABLE', gen, gen.node,
                    f'supported configuration {name} does not build rays '
                    f'(outcomes {sorted(outs)})',
                    construct='must trace: ' + name))
        else:
            res.notes.append(f'{name}: not covered by the statement '
                             f'({sorted(outs)})')
    # the polarization guard: ignore + polarizing coating -> raise
    res.require(20, 'configurations')
    # Aperture constructor mirrors the rule
    ap = P.func('Aperture.__init__')
    res.saw(ap)
    s = Code(P, ap)
    if "aperture_type not in ['EPD', 'imageFNO', 'objectNA']" in s and \
            "aperture_type in ['EPD', 'imageFNO'] and object_space_telecentric" \
            in s and s.count('raise ValueError') >= 2:
        res.ok('Aperture: unknown type and (EPD|imageFNO) with telecentric '
               'object space raise')
    else:
        res.fail(ctx.finding('CONFIG-TABLE', ap, ap.node,
                             'Aperture does not reject unknown types / '
                             'telecentric EPD, F-number',
                             construct='Aperture validation'))
    return res


def _eval_gen(P, tele, inf, ft, behind=False):
    """symbolic evaluation of generate_rays (+ origins inlined); `behind`:
    the aim point lies behind the launch point (virtual entrance pupil)."""
    c = _rg(P)
    gen = c.methods['generate_rays']
    sym = Sym()
    built = {}

    def choose(test, ev):
        s = unparse(test)
        if s == 'self.optic.obj_space_telecentric':
            return tele
        if s == 'obj.is_infinite':
            return inf
        if "field_type ==" in s:
            return f"'{ft}'" in s
        if 'ap_type ==' in s:
            return False
        if "polarization == 'ignore'" in s:
            return True
        if 'uses_polarization' in s:
            return False
        if s.replace(' ', '') in ('z1<z0', 'z0>z1'):
            return behind
        return None

    def inline(call, ev):
        fn = call.func
        nm = fn.attr if isinstance(fn, ast.Attribute) else (
            fn.id if isinstance(fn, ast.Name) else None)
        if nm in ('RealRays', 'PolarizedRays'):
            built['args'] = [ev.ev(a) for a in call.args]
            built['cls'] = nm
            return A('RAYS')
        if nm == 'get_vig_factor':
            return (A('v_x'), A('v_y'))
        if nm in ('EPL', 'EPD'):
            return A(nm)
        if nm == 'sag':
            return A('SAG')
        if nm == '_get_starting_z_offset':
            return A('OFFSET')
        if isinstance(fn, ast.Attribute) and isinstance(fn.value, ast.Name) and \
                fn.value.id == 'self' and nm in c.methods:
            g = c.methods[nm]
            sub = fn_eval(P, g, [ev.ev(a) for a in call.args], sym=ev.sym,
                          heap=ev.heap, inline=inline, choose=choose)
            return sub.returned
        return None

    class E2(Ev):
        def read(self, key):
            if key == 'self.optic.object_surface':
                return A('OBJ')
            return super().read(key)
    ev = E2(sym=sym, choose=choose, inline=inline)
    for p in gen.params:
        ev.env[p] = A(p)
    ev.run(gen.node.body)
    return ev, built, sym


def aim(ctx):
    P = ctx.P
    res = Result('AIM', 'direction = (aim point - origin) / |.|; aim point = '
                 '(Px, Py) EPD/2 (1 - v) at z = EPL; origins per '
                 'configuration', level='proof')
    c = _rg(P)
    gen = c.methods['generate_rays']
    org = c.methods.get('_get_ray_origins')
    res.saw(gen)
    if org:
        res.saw(org)
    fx = A('self.optic.fields.max_field') * A('Hx')
    fy = A('self.optic.fields.max_field') * A('Hy')
    cases = [(False, True, 'angle', 'infinite object, angular field'),
             (False, False, 'object_height', 'finite object, height field'),
             (False, False, 'angle', 'finite object, angular field'),
             (True, False, 'object_height', 'telecentric object space')]
    cases = [c_ + (False,) for c_ in cases] + \
        [(False, True, 'angle', 'infinite object, angular field, pupil '
          'behind the launch plane', True),
         (False, False, 'object_height', 'finite object, height field, pupil '
          'behind the object', True)]
    for tele, inf, ft, name, behind in cases:
        try:
            ev, built, sym = _eval_gen(P, tele, inf, ft, behind)
        except Inconclusive as e:
            raise AnalysisError(f'AIM {name}: outside fragment: {e}')
        if 'args' not in built or len(built['args']) < 8:
            raise AnalysisError(f'AIM {name}: ray constructor not reached')
        x0, y0, z0, L, M, N, inten, wl = built['args'][:8]
        E = ev.env
        x1, y1, z1 = E.get('x1'), E.get('y1'), E.get('z1')
        if any(v is None for v in (x1, y1, z1)):
            raise AnalysisError(f'AIM {name}: aim point locals not found')
        dx, dy, dz = x1 - x0, y1 - y0, z1 - z0
        # direction proportional to (dx, dy, dz) and unit length
        par = sym.is_zero(L * dy - M * dx) and sym.is_zero(M * dz - N * dy) \
            and sym.is_zero(L * dz - N * dx)
        unit = sym.eq(L * L + M * M + N * N, ONE)
        # the ray lies on the line through the aim point and travels towards
        # +z: N |d| = |dz|, i.e. +dz when the aim point is ahead of the launch
        # point and -dz when it lies behind it (virtual pupil)
        fwd = sym.eq(N * sym.sqrt(dx * dx + dy * dy + dz * dz),
                     -dz if behind else dz)
        for nm2, ok in (('direction parallel to aim - origin', par),
                        ('unit length', unit),
                        ('travels towards +z along the line to the aim point', fwd)):
            if ok:
                res.ok(f'{name}: {nm2}')
            else:
                res.fail(ctx.finding('AIM', gen, gen.node,
                                     f'{name}: ray direction: {nm2} violated',
                                     construct=f'{name}: {nm2}'))
        vx = ONE - A('v_x')
        vy = ONE - A('v_y')
        if not tele:
            okp = rat_eq(x1, A('Px') * A('EPD') * vx / C(2)) and \
                rat_eq(y1, A('Py') * A('EPD') * vy / C(2)) and \
                rat_eq(z1, A('EPL'))
            if okp:
                res.ok(f'{name}: aim point (Px, Py) EPD/2 (1-v) at z = EPL')
            else:
                res.fail(ctx.finding(
                    'AIM', gen, gen.node,
                    f'{name}: aim point ({x1}, {y1}, {z1}) is not '
                    f'(Px, Py) * EPD/2 * (1 - v) in the entrance pupil plane',
                    construct=f'{name}: aim point'))
        if ft == 'object_height' and not tele:
            oko = rat_eq(x0, fx) and rat_eq(y0, fy) and (
                rat_eq(z0, A('SAG') + A('OBJ.geometry.cs.z')) or
                rat_eq(z0, A('SAG') +
                       A('self.optic.object_surface.geometry.cs.z')))
            if oko:
                res.ok(f'{name}: origin (Hx, Hy) max_field on the object '
                       f'surface')
            else:
                res.fail(ctx.finding(
                    'AIM', org or gen, None,
                    f'{name}: origin ({x0}, {y0}, {z0}) is not the object '
                    f'point (Hx, Hy) * max_field on the object surface',
                    construct=f'{name}: origin'))
        if ft == 'angle' and not inf:
            # the object point is where the chief ray, inclined by the field
            # angle at the entrance pupil centre, meets the object plane
            zob = [a_ for a_ in (z0.atoms() if isinstance(z0, Rat) else [])
                   if a_.endswith('surface_group.positions[0]')]
            ty = sym.sin(fy * A('pi') / C(180)) / sym.cos(fy * A('pi') / C(180))
            tx = sym.sin(fx * A('pi') / C(180)) / sym.cos(fx * A('pi') / C(180))
            oka = len(zob) == 1 and rat_eq(z0, A(zob[0])) and \
                sym.eq(y0, -ty * (A('EPL') - z0)) and \
                sym.eq(x0 * x0, tx * tx * (A('EPL') - z0) * (A('EPL') - z0))
            if oka:
                res.ok(f'{name}: origin on the object plane at '
                       f'-tan(theta) (EPL - z_object)')
            else:
                res.fail(ctx.finding(
                    'AIM', org or gen, None,
                    f'{name}: the ray origin ({x0}, {y0}, {z0}) is not the '
                    f'point of the object plane seen from the entrance pupil '
                    f'centre under the field angle',
                    construct=f'{name}: origin'))
        if inf:
            # with the first surface at z = 0 the chief direction has slope
            # tan(H * max_field); every ray of the field is parallel to it
            sub = 'self.optic.surface_group.positions[1]'

            def z0sub(r):
                return Rat(r.n.subst(sub, Poly()), r.d.subst(sub, Poly()))
            ty = sym.sin(fy * A('pi') / C(180)) / sym.cos(fy * A('pi') / C(180))
            tx = sym.sin(fx * A('pi') / C(180)) / sym.cos(fx * A('pi') / C(180))
            oky = sym.eq(z0sub(dy), ty * z0sub(dz))
            okx = sym.eq(z0sub(dx) * z0sub(dx), tx * tx * z0sub(dz) * z0sub(dz))
            if oky and okx:
                res.ok(f'{name}: every ray travels at angle H * max_field '
                       f'(dy = tan(theta_y) dz, |dx| = |tan(theta_x)| dz)')
            else:
                res.fail(ctx.finding(
                    'AIM', org or gen, None,
                    f'{name}: rays do not travel at the field angle '
                    f'H * max_field to the axis',
                    construct=f'{name}: field angle'))
        if tele:
            # NA = n0 sin(U): the marginal ray (P = 1) makes the angle
            # U = asin(NA / n0) with the axis, n0 the index of the object
            # medium at the traced wavelength
            ncalls = [a_ for a_, d_ in sym.defs.items()
                      if d_[0].startswith('call:') and d_[0].endswith(
                          'object_surface.material_post.n') and
                      len(d_[1]) == 1 and rat_eq(d_[1][0], A('wavelength'))]
            okt = False
            if len(ncalls) == 1:
                sn = A('self.optic.aperture.value') / A(ncalls[0])
                okt = sym.eq(dz * sn, sym.sqrt(ONE - sn * sn)) and \
                    rat_eq(dx, A('Px') * vx) and rat_eq(dy, A('Py') * vy)
            if okt:
                res.ok(f'{name}: chief ray parallel to the axis, marginal '
                       f'slope tan(asin(NA / n_object))')
            else:
                res.fail(ctx.finding(
                    'AIM', gen, gen.node,
                    f'{name}: launch is not telecentric with the stated '
                    f'numerical aperture NA = n sin(U) of the object medium',
                    construct=f'{name}: telecentric'))
        # RAY-INIT
        if rat_eq(inten, ONE) and rat_eq(wl, A('wavelength')):
            res.ok(f'{name}: unit intensity, requested wavelength')
        else:
            res.fail(ctx.finding('AIM', gen, gen.node,
                                 f'{name}: rays start with intensity {inten} / '
                                 f'wavelength {wl}',
                                 construct=f'{name}: ray init'))
    rr = P.func('RealRays.__init__')
    res.saw(rr)
    s = Code(P, rr)
    if 'self.opd = np.zeros_like(self.x)' in s:
        res.ok('RealRays start with zero accumulated path')
    else:
        res.fail(ctx.finding('AIM', rr, rr.node,
                             'rays do not start with zero optical path',
                             construct='RealRays opd init'))
    binds = {}
    for n in ast.walk(rr.node):
        if isinstance(n, ast.Assign) and isinstance(n.targets[0], ast.Attribute)\
                and isinstance(n.value, ast.Call) and n.value.args and \
                isinstance(n.value.args[0], ast.Name):
            binds[n.targets[0].attr] = n.value.args[0].id
    want = {'x': 'x', 'y': 'y', 'z': 'z', 'L': 'L', 'M': 'M', 'N': 'N',
            'i': 'intensity', 'w': 'wavelength'}
    if all(binds.get(k) == v for k, v in want.items()) and \
            rr.params[:8] == ['x', 'y', 'z', 'L', 'M', 'N', 'intensity',
                              'wavelength']:
        res.ok('RealRays.__init__ binds its eight arguments to the matching '
               'fields')
    else:
        res.fail(ctx.finding('AIM', rr, rr.node,
                             'RealRays constructor mixes up its arguments',
                             construct='RealRays init binding'))
    return res


def trace_entry(ctx):
    P = ctx.P
    res = Result('TRACE-ENTRY', 'Optic.trace / trace_generic: pupil '
                 'coordinates from the distribution, handed on unscaled (the '
                 'generator shrinks them by (1 - v), exactly once); '
                 'generator receives (Hx, Hy, Px, Py, wavelength) in order; '
                 'the surface group traces the generated rays')
    for q in ('Optic.trace', 'Optic.trace_generic'):
        f = P.func(q)
        res.saw(f)
        s = Code(P, f)
        gr = [c for c in ast.walk(f.node) if isinstance(c, ast.Call) and
              isinstance(c.func, ast.Attribute) and
              c.func.attr == 'generate_rays']
        ok = gr and [unparse(a) for a in gr[0].args] == \
            ['Hx', 'Hy', 'Px', 'Py', 'wavelength']
        if ok:
            res.ok(f'{q}: generate_rays(Hx, Hy, Px, Py, wavelength)')
        else:
            res.fail(ctx.finding('TRACE-ENTRY', f, f.node,
                                 f'{q} does not pass (Hx, Hy, Px, Py, '
                                 f'wavelength) in order to the generator',
                                 construct=f'{q} generator arguments'))
        if 'vx, vy = self.fields.get_vig_factor(Hx, Hy)' in s:
            res.ok(f'{q}: vignetting factors of the requested field')
        else:
            res.fail(ctx.finding('TRACE-ENTRY', f, f.node,
                                 f'{q}: vignetting not looked up for (Hx, Hy)',
                                 construct=f'{q} vignetting lookup'))
        # every scaling of Px / Py is by (1 - v)
        ev = Ev()
        bad = False
        for n in ast.walk(f.node):
            tgt = None
            if isinstance(n, ast.Assign) and isinstance(n.targets[0], ast.Name)\
                    and n.targets[0].id in ('Px', 'Py') and \
                    isinstance(n.value, ast.BinOp):
                tgt, val = n.targets[0].id, n.value
            elif isinstance(n, ast.AugAssign) and isinstance(n.target, ast.Name)\
                    and n.target.id in ('Px', 'Py'):
                tgt, val = n.target.id, ast.BinOp(
                    left=ast.Name(id=n.target.id, ctx=ast.Load()), op=n.op,
                    right=n.value)
            if tgt is None:
                continue
            try:
                e2 = Ev()
                e2.env['distribution'] = 'distribution'
                v = e2.ev(val)
            except Inconclusive:
                continue
            src = A(tgt) if 'generic' in q else A(
                'distribution.' + ('x' if tgt == 'Px' else 'y'))
            vv = A('vx' if tgt == 'Px' else 'vy')
            # VIG-ONCE: the ray generator multiplies the pupil coordinates
            # by (1 - v) (AIM rule); the entry points must hand them on
            # unscaled, otherwise the factor is applied two or three times
            # and trace() / trace_generic() aim at different pupil points
            if rat_eq(v, src):
                res.ok(f'{q}: {tgt} handed to the generator unscaled '
                       f'(vignetting applied once, by the generator)')
            elif rat_eq(v, src * (ONE - vv)):
                bad = True
                res.fail(ctx.finding(
                    'TRACE-ENTRY', f, n,
                    f'{q}: pupil coordinate {tgt} is multiplied by (1 - v) '
                    f'here and again by the ray generator: with v = 0.5 the '
                    f'ray is aimed at a quarter (an eighth through named '
                    f'distributions) of the pupil radius instead of half',
                    construct=f'{q} {tgt} scaling'))
            else:
                bad = True
                res.fail(ctx.finding(
                    'TRACE-ENTRY', f, n,
                    f'{q}: pupil coordinate {tgt} is scaled by something '
                    f'other than (1 - v): vignetting could enlarge the pupil '
                    f'or mix axes', construct=f'{q} {tgt} scaling'))
        tr = [c for c in ast.walk(f.node) if isinstance(c, ast.Call) and
              isinstance(c.func, ast.Attribute) and c.func.attr == 'trace' and
              'surface_group' in unparse(c.func)]
        if tr and unparse(tr[0].args[0]) == 'rays':
            res.ok(f'{q}: surface_group.trace(rays)')
        else:
            res.fail(ctx.finding('TRACE-ENTRY', f, f.node,
                                 f'{q} does not trace the generated rays',
                                 construct=f'{q} surface trace'))
    f = P.func('Optic.trace')
    s = Code(P, f)
    gp = [c for c in ast.walk(f.node) if isinstance(c, ast.Call) and
          isinstance(c.func, ast.Attribute) and
          c.func.attr == 'generate_points']
    if gp and any(unparse(a) in ('vx', 'vy') for a in gp[0].args) or \
            any(k.arg in ('vx', 'vy') for c in gp for k in c.keywords):
        res.fail(ctx.finding(
            'TRACE-ENTRY', f, gp[0],
            'Optic.trace lets the named distribution shrink itself by the '
            'vignetting factors, which the ray generator applies again',
            construct='Optic.trace distribution vignetting'))
    if 'distribution = create_distribution(distribution)' in s and \
            gp and [unparse(a) for a in gp[0].args][:1] == ['num_rays'] and \
            'isinstance(distribution, str)' in s:
        res.ok('Optic.trace: named distribution created and sampled with '
               'num_rays')
    else:
        res.fail(ctx.finding('TRACE-ENTRY', f, f.node,
                             'named distributions are not created / sampled '
                             'with the requested count',
                             construct='Optic.trace distribution'))
    g = _rg(P).methods['generate_rays']
    s = Code(P, g)
    if 'vx, vy = 1 - np.array(self.optic.fields.get_vig_factor(Hx, Hy))' in s:
        res.ok('generator: pupil factor (1 - v) of the requested field')
    else:
        res.fail(ctx.finding('TRACE-ENTRY', g, g.node,
                             'generator does not use (1 - v) of the requested '
                             'field', construct='generator vignetting'))
    return res


# ---- IN-DISK: a small abstract domain for pupil coordinate arrays -----------
class _AV:
    """abstract array value: kind in
       zero | seg(lo, hi) | polar(rho_src, rho_max, angle_src, fn) |
       masked(src, which) | concat([parts]) | top"""

    def __init__(self, kind, *a):
        self.kind = kind
        self.a = a

    def bound(self):
        if self.kind == 'zero':
            return 0
        if self.kind == 'seg':
            return max(abs(self.a[0]), abs(self.a[1]))
        if self.kind == 'polar':
            return self.a[1]
        if self.kind == 'masked':
            return 1
        if self.kind == 'concat':
            bs = [p.bound() for p in self.a[0]]
            return None if any(b is None for b in bs) else max(bs + [0])
        return None

    def __repr__(self):
        return f'{self.kind}{self.a}'


TOPV = _AV('top')


def _abs_eval(e, env):
    c = const_of(e)
    if c is not None:
        return _AV('seg', float(c), float(c)) if c != 0 else _AV('zero')
    if isinstance(e, ast.Name):
        return env.get(e.id, TOPV)
    if isinstance(e, ast.Subscript):
        b = _abs_eval(e.value, env)
        if isinstance(e.slice, ast.Compare) and unparse(e.slice) == 'r2 <= 1' \
                and isinstance(e.value, ast.Name):
            r2 = env.get('#r2')
            if r2 == ('x', 'y') and e.value.id in ('x', 'y'):
                return _AV('masked', e.value.id)
        if b.kind in ('seg', 'zero', 'polar'):
            return b            # element / slice of a bounded array
        if b.kind == 'concat':
            return b
        return TOPV
    if isinstance(e, ast.BinOp) and isinstance(e.op, ast.Mult):
        # shrink factor (1 - v) or products with bounded factors
        for a, b in ((e.left, e.right), (e.right, e.left)):
            if isinstance(b, ast.BinOp) and isinstance(b.op, ast.Sub) and \
                    const_of(b.left) == 1 and isinstance(b.right, ast.Name) \
                    and b.right.id in ('vx', 'vy'):
                return _abs_eval(a, env)      # times a factor in [0, 1]
        l, r = _abs_eval(e.left, env), _abs_eval(e.right, env)
        # rho * cos(theta)
        for rho, trig, rho_e in ((l, r, e.left), (r, l, e.right)):
            if trig.kind == 'polar' and trig.a[0] == '1':
                rb = rho.bound()
                if rho.kind in ('seg', 'zero') and rb is not None and \
                        (rho.kind == 'zero' or rho.a[0] >= 0):
                    return _AV('polar', unparse(rho_e), rb, trig.a[2],
                               trig.a[3])
        bl, br = l.bound(), r.bound()
        if bl is not None and br is not None:
            return _AV('seg', -bl * br, bl * br)
        return TOPV
    if isinstance(e, ast.UnaryOp) and isinstance(e.op, ast.USub):
        v = _abs_eval(e.operand, env)
        if v.kind == 'seg':
            return _AV('seg', -v.a[1], -v.a[0])
        return v
    if isinstance(e, ast.Call):
        f = e.func
        nm = f.attr if isinstance(f, ast.Attribute) else (
            f.id if isinstance(f, ast.Name) else None)
        if nm == 'zeros':
            return _AV('zero')
        if nm == 'linspace' and len(e.args) >= 2:
            a, b = const_of(e.args[0]), const_of(e.args[1])
            if a is not None and b is not None:
                return _AV('seg', float(min(a, b)), float(max(a, b)))
            return TOPV
        if nm == 'uniform' and 'rng' in unparse(f) or nm == 'rand':
            if not e.args:
                return _AV('seg', 0.0, 1.0)
            return TOPV
        if nm == 'sqrt' and e.args:
            v = _abs_eval(e.args[0], env)
            if v.kind == 'seg' and v.a[0] >= 0:
                return _AV('seg', v.a[0] ** 0.5, v.a[1] ** 0.5)
            return TOPV
        if nm in ('cos', 'sin') and e.args:
            return _AV('polar', '1', 1.0, unparse(e.args[0]), nm)
        if nm == 'array' and e.args and isinstance(e.args[0], ast.List):
            vals = [const_of(x) for x in e.args[0].elts]
            if vals and all(v is not None for v in vals):
                return _AV('seg', float(min(vals)), float(max(vals)))
            return TOPV
        if nm in ('concatenate', 'hstack') and e.args and isinstance(
                e.args[0], (ast.Tuple, ast.List)):
            parts = []
            for x in e.args[0].elts:
                v = _abs_eval(x, env)
                parts += list(v.a[0]) if v.kind == 'concat' else [v]
            return _AV('concat', parts)
        if nm in ('flatten', 'ravel') and isinstance(f, ast.Attribute):
            return _abs_eval(f.value, env)
        if nm == 'outer' and len(e.args) == 2:
            l, r = _abs_eval(e.args[0], env), _abs_eval(e.args[1], env)
            if r.kind == 'polar' and r.a[0] == '1' and l.kind == 'seg' and \
                    l.a[0] >= 0:
                return _AV('polar', unparse(e.args[0]), l.bound(), r.a[2],
                           r.a[3])
            return TOPV
        if nm == '_get_radius':
            return _AV('seg', 0.0, 1.0)   # literal radii checked separately
        if nm == 'meshgrid' and e.args:
            return TOPV
    return TOPV


def _pair_in_disk(X, Y):
    if X.kind == 'concat' or Y.kind == 'concat':
        xs = X.a[0] if X.kind == 'concat' else [X]
        ys = Y.a[0] if Y.kind == 'concat' else [Y]
        return len(xs) == len(ys) and all(_pair_in_disk(a, b)
                                          for a, b in zip(xs, ys))
    bx, by = X.bound(), Y.bound()
    if bx is None or by is None or bx > 1 or by > 1:
        return False
    if X.kind == 'zero' or Y.kind == 'zero':
        return True
    if X.kind == 'polar' and Y.kind == 'polar':
        return X.a[0] == Y.a[0] and X.a[2] == Y.a[2] and \
            {X.a[3], Y.a[3]} == {'cos', 'sin'}
    if X.kind == 'masked' and Y.kind == 'masked':
        return {X.a[0], Y.a[0]} == {'x', 'y'}
    return False


def _interp_points(f):
    """abstractly execute generate_points; returns list of (X, Y) per path."""
    results = []

    def run(body, env, out):
        for s in body:
            if isinstance(s, ast.Assign):
                t = s.targets[0]
                if isinstance(t, ast.Name):
                    if t.id == 'r2' and unparse(s.value) == 'x ** 2 + y ** 2':
                        env['#r2'] = ('x', 'y')
                    env[t.id] = _abs_eval(s.value, env)
                elif isinstance(t, ast.Tuple) and isinstance(s.value, ast.Tuple):
                    vals = [_abs_eval(v, env) for v in s.value.elts]
                    for a, v in zip(t.elts, vals):
                        if isinstance(a, ast.Name):
                            env[a.id] = v
                elif isinstance(t, ast.Tuple) and isinstance(s.value, ast.Call)\
                        and unparse(s.value.func).endswith('meshgrid'):
                    src = _abs_eval(s.value.args[0], env)
                    for a in t.elts:
                        if isinstance(a, ast.Name):
                            env[a.id] = src
                elif isinstance(t, ast.Attribute) and isinstance(
                        t.value, ast.Name) and t.value.id == 'self' and \
                        t.attr in ('x', 'y'):
                    out[t.attr] = _abs_eval(s.value, env)
            elif isinstance(s, ast.If):
                e1, o1 = dict(env), dict(out)
                e2, o2 = dict(env), dict(out)
                run(s.body, e1, o1)
                run(s.orelse, e2, o2)
                # fork: continue both
                rest = body[body.index(s) + 1:]
                run(rest, e1, o1)
                run(rest, e2, o2)
                if 'x' in o1 and 'y' in o1:
                    results.append((o1['x'], o1['y']))
                if 'x' in o2 and 'y' in o2:
                    results.append((o2['x'], o2['y']))
                out['#forked'] = True
                return
            elif isinstance(s, ast.For):
                run(s.body, env, out)
    out = {}
    run(f.node.body, {}, out)
    if not out.get('#forked') and 'x' in out and 'y' in out:
        results.append((out['x'], out['y']))
    return results


def in_disk(ctx):
    P = ctx.P
    res = Result('IN-DISK', 'every named sampling lies in the unit pupil: the '
                 'stored (x, y) are, by an interval / polar-form abstraction, '
                 'bounded by the unit disk (polar pair with a common angle and '
                 'radius in [0, 1], masked grid r2 <= 1, or one coordinate '
                 'zero and the other within [-1, 1]); shrink factors (1 - v) '
                 'only reduce')
    if 'BaseDistribution' not in P.classes:
        raise AnalysisError('BaseDistribution not found')
    for cn in P.subclasses('BaseDistribution'):
        if cn == 'BaseDistribution':
            continue
        f = P.lookup(cn, 'generate_points')
        res.saw(f)
        pairs = _interp_points(f)
        if not pairs:
            res.fail(ctx.finding('IN-DISK', f, f.node,
                                 f'{cn} does not store x and y',
                                 construct=f'{cn} stores'))
            continue
        bad = [(X, Y) for X, Y in pairs if not _pair_in_disk(X, Y)]
        if not bad:
            res.ok(f'{cn}: {len(pairs)} form(s) bounded by the unit disk '
                   f'({pairs[0][0].kind}, {pairs[0][1].kind})')
        else:
            res.fail(ctx.finding(
                'IN-DISK', f, f.node,
                f'{cn}: stored pupil coordinates {bad[0][0]} / {bad[0][1]} are '
                f'not of a form bounded by the unit disk: samples may fall '
                f'outside the unit pupil', construct=f'{cn} in unit disk'))
    g = P.func('GaussianQuadrature._get_radius')
    lits = [const_of(x) for n in ast.walk(g.node) if isinstance(n, ast.List)
            for x in n.elts]
    if lits and all(v is not None and 0 <= v <= 1 for v in lits):
        res.ok(f'Gaussian quadrature radii: {len(lits)} literals in [0, 1]')
    else:
        res.fail(ctx.finding('IN-DISK', g, g.node,
                             'a Gaussian quadrature radius lies outside [0, 1]',
                             construct='quadrature radii'))
    res.require(9, 'samplings')
    return res


def registry(ctx):
    P = ctx.P
    res = Result('DIST-REGISTRY / VIG-INTERP', 'distribution names map to '
                 'their classes, unknown names raise; vignetting factors are '
                 'interpolated over the sorted normalised field heights')
    fs = P.module_funcs('create_distribution')
    if not fs:
        raise AnalysisError('create_distribution not found')
    f = fs[0]
    res.saw(f)
    d = [n for n in ast.walk(f.node) if isinstance(n, ast.Dict)]
    want = {'line_x': 'LineXDistribution', 'line_y': 'LineYDistribution',
            'random': 'RandomDistribution', 'uniform': 'UniformDistribution',
            'hexapolar': 'HexagonalDistribution', 'cross': 'CrossDistribution',
            'ring': 'RingDistribution'}
    got = {}
    if d:
        for k, v in zip(d[0].keys, d[0].values):
            if isinstance(k, ast.Constant):
                got[k.value] = unparse(v)
    for k, cn in want.items():
        if got.get(k) == cn and cn in P.classes:
            res.ok(f"'{k}' -> {cn}")
        else:
            res.fail(ctx.finding('DIST-REGISTRY', f, None,
                                 f"distribution name '{k}' maps to "
                                 f"{got.get(k)}", construct=f"dist '{k}'"))
    for k, axis in (('positive_line_x', 'LineXDistribution'),
                    ('positive_line_y', 'LineYDistribution')):
        if got.get(k) == f'lambda: {axis}(positive_only=True)':
            res.ok(f"'{k}' -> {axis}(positive_only=True)")
        else:
            res.fail(ctx.finding('DIST-REGISTRY', f, None,
                                 f"distribution name '{k}' maps to "
                                 f"{got.get(k)}", construct=f"dist '{k}'"))
    if any(isinstance(n, ast.Raise) for n in ast.walk(f.node)):
        res.ok('unknown distribution name raises')
    else:
        res.fail(ctx.finding('DIST-REGISTRY', f, f.node,
                             'unknown distribution names are accepted',
                             construct='dist unknown'))
    from ..match import find
    mfp = P.classes['FieldGroup'].props.get('max_field')
    if mfp is None:
        raise AnalysisError('FieldGroup.max_field not found')
    res.saw(mfp)
    if find(mfp, 'np.max(np.sqrt(self.x_fields ** 2 + self.y_fields ** 2))'):
        res.ok('max_field = max sqrt(x^2 + y^2) over the fields')
    else:
        res.fail(ctx.finding('VIG-INTERP', mfp, mfp.node,
                             'the maximum field (unit of the normalised field '
                             'coordinates) is not the largest radial field',
                             construct='max_field'))
    for nm, ax in (('x_fields', 'x'), ('y_fields', 'y'), ('vx', 'vx'),
                   ('vy', 'vy')):
        pr = P.classes['FieldGroup'].props.get(nm)
        if pr is not None and find(pr, f'np.array([$f.{ax} for $f in self.fields])'):
            res.ok(f'{nm}: {ax} of every field')
        else:
            res.fail(ctx.finding('VIG-INTERP', pr or mfp, None,
                                 f'{nm} is not the list of field {ax} values',
                                 construct=nm))
    g = P.func('FieldGroup.get_vig_factor')
    res.saw(g)
    s = Code(P, g)
    # The table is looked up at the normalised field radius h = |H| >= 0, so
    # the abscissa of field i must be that field's own normalised radius,
    # |y_i| / max_field on the rotationally symmetric arm (x_i = 0), and the
    # sort key must be the same magnitude.  Locals are inlined first.
    import copy
    arm = None
    for n in g.node.body:
        if isinstance(n, ast.If) and 'x_fields' in unparse(n.test):
            # the table arm is the one taken when ALL x fields are zero
            t_ = unparse(n.test).replace(' ', '')
            if t_ == 'np.all(self.x_fields==0)':
                arm = n.body
            elif t_ in ('np.any(self.x_fields!=0)',
                        'notnp.all(self.x_fields==0)'):
                arm = n.orelse
            else:
                res.fail(ctx.finding(
                    'VIG-INTERP', g, n,
                    f'the rotationally symmetric branch is selected by '
                    f'{unparse(n.test)}, not by "all x fields are zero"',
                    construct='vig symmetric branch condition'))
                arm = n.body
    if arm is None:
        raise AnalysisError('get_vig_factor: symmetric arm not found')
    defs = {}
    guard = None
    for st in arm:
        if isinstance(st, ast.Assign) and len(st.targets) == 1 and \
                isinstance(st.targets[0], ast.Name):
            defs[st.targets[0].id] = st.value
        if isinstance(st, ast.If):
            guard = st
            for arm2 in (st.body, st.orelse):
                for st2 in arm2:
                    if isinstance(st2, ast.Assign) and isinstance(
                            st2.targets[0], ast.Name):
                        defs.setdefault(st2.targets[0].id + '#arms',
                                        []).append(st2.value)

    class Inl(ast.NodeTransformer):
        def visit_Name(self, node):
            if node.id in defs and isinstance(node.ctx, ast.Load):
                return self.visit(copy.deepcopy(defs[node.id]))
            return node

    def inl(e):
        return unparse(Inl().visit(copy.deepcopy(e)))
    MAG = {'np.abs(self.y_fields)', 'np.absolute(self.y_fields)',
           'np.sqrt(self.x_fields ** 2 + self.y_fields ** 2)',
           'np.hypot(self.x_fields, self.y_fields)'}
    DEN = {'self.max_field'} | {f'np.max({m})' for m in MAG}
    ok_sort = ok_abs = ok_guard = False
    idx = defs.get('idx_sorted')
    if isinstance(idx, ast.Call) and unparse(idx.func) == 'np.argsort' and \
            len(idx.args) == 1 and inl(idx.args[0]) in MAG:
        ok_sort = True
    hs = [v for v in defs.get('h_sorted#arms', [])
          if isinstance(v, ast.BinOp)]
    if 'h_sorted' in defs:
        hs.append(defs['h_sorted'])
    for v in hs:
        if isinstance(v, ast.BinOp) and isinstance(v.op, ast.Div) and \
                isinstance(v.left, ast.Subscript) and \
                inl(v.left.value) in MAG and \
                unparse(v.left.slice) == 'idx_sorted' and \
                inl(v.right) in DEN:
            ok_abs = True
            if guard is None:
                ok_guard = True
            elif isinstance(guard.test, ast.Compare) and \
                    inl(guard.test.left) == inl(v.right) and \
                    unparse(guard.test.comparators[0]) in ('0', '0.0') and (
                        (isinstance(guard.test.ops[0], ast.Eq) and
                         any(v is x_.value for x_ in ast.walk(ast.Module(
                             body=guard.orelse, type_ignores=[]))
                             if isinstance(x_, ast.Assign))) or
                        (isinstance(guard.test.ops[0], ast.NotEq) and
                         any(v is x_.value for x_ in ast.walk(ast.Module(
                             body=guard.body, type_ignores=[]))
                             if isinstance(x_, ast.Assign)))):
                # the division sits in the arm where the maximum is not zero
                ok_guard = True
    checks = [
        (ok_sort, 'fields sorted by their magnitude |y| (the table is a '
                  'function of the field radius; sorting signed values puts '
                  'negative fields in the wrong order)'),
        (ok_abs, 'abscissa = |y_i| / max_field, the normalised radius of '
                 'field i (signed values or the signed maximum lose the '
                 'factors of fields written with a negative sign)'),
        (ok_guard, 'zero guard tests the normalising maximum'),
        ('vx_sorted = self.vx[idx_sorted]' in s and
         'vy_sorted = self.vy[idx_sorted]' in s, 'ordinates sorted alike'),
        ('h = np.sqrt(Hx ** 2 + Hy ** 2)' in s, 'lookup at radial field H'),
        ('vx_new = np.interp(h, h_sorted, vx_sorted)' in s and
         'vy_new = np.interp(h, h_sorted, vy_sorted)' in s,
         'interp(h, h_sorted, v_sorted)'),
        ('return (vx_new, vy_new)' in s, 'returns (vx, vy)'),
    ]
    for ok, what in checks:
        if ok:
            res.ok('get_vig_factor: ' + what)
        else:
            res.fail(ctx.finding('VIG-INTERP', g, g.node,
                                 'get_vig_factor: ' + what + ' violated',
                                 construct='vig ' + what[:30]))
    return res


def no_stale(ctx):
    from .common import stale_cache
    return stale_cache(ctx, 'NO-STALE-STATE', ['RayGenerator'],
                       'rays are launched from an earlier field / pupil state', min_methods=1)


def field_wiring(ctx):
    from .common import arg_wiring
    res = arg_wiring(ctx, 'FIELD-WIRING', [
        ('Optic.add_field', 'Field.__init__',
         {'self.field_type': 'field_type', 'x': 'x', 'y': 'y',
          'vx': 'vignette_factor_x', 'vy': 'vignette_factor_y'}),
        ('Optic.add_field', 'FieldGroup.add_field', {'new_field': 'field'}),
        ('Optic.set_aperture', 'Aperture.__init__',
         {'aperture_type': 'aperture_type', 'value': 'value'}),
        ('Optic.add_wavelength', 'WavelengthGroup.add_wavelength',
         {'value': 'value', 'is_primary': 'is_primary', 'unit': 'unit'}),
        ('WavelengthGroup.add_wavelength', 'Wavelength.__init__',
         {'value': 'value', 'is_primary': 'is_primary', 'unit': 'unit'}),
    ])
    P = ctx.P
    from ..match import find
    # Field stores what it is given; normalised coordinates divide by the
    # maximum radial field
    fi = P.func('Field.__init__')
    res.saw(fi)
    want = {'field_type': 'field_type', 'x': 'x', 'y': 'y',
            'vx': 'vignette_factor_x', 'vy': 'vignette_factor_y'}
    got = {}
    for st in ast.walk(fi.node):
        if isinstance(st, ast.Assign) and isinstance(
                st.targets[0], ast.Attribute):
            got[st.targets[0].attr] = unparse(st.value)
    if got == want:
        res.ok('Field.__init__ stores each parameter under its own name')
    else:
        res.fail(ctx.finding('FIELD-WIRING', fi, fi.node,
                             f'Field.__init__ stores {got}',
                             construct='Field.__init__ stores'))
    gc = P.func('FieldGroup.get_field_coords')
    res.saw(gc)
    from ..match import find_seq
    if find_seq(gc, ['$m = self.max_field',
                     '[(float($x / $m), float($y / $m)) '
                     'for $x, $y in zip(self.x_fields, self.y_fields)]']) or \
            find(gc, '[(float($x / self.max_field), float($y / self.max_field))'
                     ' for $x, $y in zip(self.x_fields, self.y_fields)]'):
        res.ok('get_field_coords = (x, y) / max_field per field')
    else:
        res.fail(ctx.finding('FIELD-WIRING', gc, gc.node,
                             'normalised field coordinates are not '
                             '(x / max_field, y / max_field) per field',
                             construct='get_field_coords'))
    # wavelength units: value in micrometres
    cv = P.func('Wavelength._convert_to_um')
    res.saw(cv)
    for unit, num, den in (('nm', 1, 1000), ('um', 1, 1), ('mm', 1000, 1),
                           ('cm', 10000, 1), ('m', 1000000, 1)):
        tabv = None
        for st in ast.walk(cv.node):
            if isinstance(st, ast.Dict):
                for k, v in zip(st.keys, st.values):
                    if isinstance(k, ast.Constant) and k.value == unit:
                        tabv = v
        from fractions import Fraction
        ok = tabv is not None and isinstance(tabv, ast.Constant) and \
            Fraction(str(tabv.value)) == Fraction(num, den)
        if ok:
            res.ok(f'1 {unit} = {num}/{den} um')
        else:
            res.fail(ctx.finding('FIELD-WIRING', cv, cv.node,
                                 f'conversion factor of {unit!r} to um',
                                 construct=f'unit {unit}'))
    s_ = Code(P, cv)
    if 'conversion_factor = unit_conversion[self._unit]' in s_ and \
            'return self._value * conversion_factor' in s_:
        res.ok('value in um = value * factor[unit]')
    else:
        res.fail(ctx.finding('FIELD-WIRING', cv, cv.node,
                             'value in um is not value * factor[unit]',
                             construct='unit conversion formula'))
    wi = P.func('Wavelength.__init__')
    res.saw(wi)
    si = Code(P, wi)
    order = [si.index(x) for x in ('self._value = value',
                                   'self._unit = unit.lower()',
                                   'self._value_in_um = self._convert_to_um()')]
    vp = P.classes['Wavelength'].props.get('value')
    if -1 not in order and order[2] > max(order[:2]) and vp is not None and \
            find(vp, 'return self._value_in_um'):
        res.ok('Wavelength: converted after value and unit are stored; '
               '.value is the converted number')
    else:
        res.fail(ctx.finding('FIELD-WIRING', wi, wi.node,
                             'Wavelength.value is not the given value '
                             'converted to micrometres',
                             construct='Wavelength value'))
    return res


def launch_signs(P):
    """(sx, sy) for angular fields at an infinite object: +1 when a positive
    H launches the bundle towards the positive axis, -1 when towards the
    negative one, None when the launch is not at the field angle."""
    fx = A('self.optic.fields.max_field') * A('Hx')
    fy = A('self.optic.fields.max_field') * A('Hy')
    ev, built, sym = _eval_gen(P, False, True, 'angle', False)
    x0, y0, z0 = built['args'][:3]
    E = ev.env
    x1, y1, z1 = E.get('x1'), E.get('y1'), E.get('z1')
    dx, dy, dz = x1 - x0, y1 - y0, z1 - z0
    ty = sym.sin(fy * A('pi') / C(180)) / sym.cos(fy * A('pi') / C(180))
    tx = sym.sin(fx * A('pi') / C(180)) / sym.cos(fx * A('pi') / C(180))
    sub = 'self.optic.surface_group.positions[1]'

    def z0sub(r):
        return Rat(r.n.subst(sub, Poly()), r.d.subst(sub, Poly()))
    sy = +1 if sym.eq(z0sub(dy), ty * z0sub(dz)) else (
        -1 if sym.eq(z0sub(dy), -ty * z0sub(dz)) else None)
    sx = +1 if sym.eq(z0sub(dx), tx * z0sub(dz)) else (
        -1 if sym.eq(z0sub(dx), -tx * z0sub(dz)) else None)
    return sx, sy


def xy_exchange(ctx):
    """a rotationally symmetric lens answers the request (Hx, Hy, Px, Py) =
    (a, b, c, d) with the mirror image (x <-> y) of its answer to
    (b, a, d, c): the launch law for x must be the law for y with the roles
    exchanged, sign included (AIM compares the x law up to sign only)."""
    P = ctx.P
    res = Result('XY-EXCHANGE', 'ray launch: the x law is the y law with x '
                 'and y exchanged (same sign convention for Hx and Hy)')
    c = _rg(P)
    gen = c.methods['generate_rays']
    org = c.methods.get('_get_ray_origins')
    res.saw(gen)
    fx = A('self.optic.fields.max_field') * A('Hx')
    fy = A('self.optic.fields.max_field') * A('Hy')
    for tele, inf, ft, name in (
            (False, True, 'angle', 'infinite object, angular field'),
            (False, False, 'angle', 'finite object, angular field'),
            (False, False, 'object_height', 'finite object, height field')):
        try:
            ev, built, sym = _eval_gen(P, tele, inf, ft, False)
        except Inconclusive as e:
            raise AnalysisError(f'XY-EXCHANGE {name}: outside fragment: {e}')
        x0, y0, z0 = built['args'][:3]
        E = ev.env
        x1, y1, z1 = E.get('x1'), E.get('y1'), E.get('z1')
        dx, dy, dz = x1 - x0, y1 - y0, z1 - z0
        ty = sym.sin(fy * A('pi') / C(180)) / sym.cos(fy * A('pi') / C(180))
        tx = sym.sin(fx * A('pi') / C(180)) / sym.cos(fx * A('pi') / C(180))
        if ft == 'object_height':
            ok = rat_eq(x0, fx) and rat_eq(y0, fy)
            sy = sx = None
        elif inf:
            sub = 'self.optic.surface_group.positions[1]'

            def z0sub(r):
                return Rat(r.n.subst(sub, Poly()), r.d.subst(sub, Poly()))
            sy = +1 if sym.eq(z0sub(dy), ty * z0sub(dz)) else (
                -1 if sym.eq(z0sub(dy), -ty * z0sub(dz)) else None)
            sx = +1 if sym.eq(z0sub(dx), tx * z0sub(dz)) else (
                -1 if sym.eq(z0sub(dx), -tx * z0sub(dz)) else None)
            ok = sy is not None and sy == sx
        else:
            sy = +1 if sym.eq(y0, -ty * (A('EPL') - z0)) else (
                -1 if sym.eq(y0, ty * (A('EPL') - z0)) else None)
            sx = +1 if sym.eq(x0, -tx * (A('EPL') - z0)) else (
                -1 if sym.eq(x0, tx * (A('EPL') - z0)) else None)
            ok = sy is not None and sy == sx
        if ok:
            res.ok(f'{name}: x law = y law with x and y exchanged')
        else:
            res.fail(ctx.finding(
                'XY-EXCHANGE', org or gen, None,
                f'{name}: a positive Hy launches the chief ray towards '
                f'{"+" if sy == 1 else "-"}y but a positive Hx towards '
                f'{"+" if sx == 1 else "-"}x: the request (Hx, Hy, Px, Py) = '
                f'(0.7, 0, -0.6, 0.3) is not the x-y mirror image of '
                f'(0, 0.7, 0.3, -0.6)',
                construct=f'{name}: Hx sign'))
    return res


def launch_guards(ctx):
    """(a) the launch arrays are float whatever the dtype of the pupil
    coordinates: np.full_like(Px, value) inherits Px's dtype, so integer
    pupil coordinates would truncate EPL, the launch plane and the object
    point; (b) configurations with no finite launch (object at infinity with
    a telecentric object space or an objectNA aperture: infinite pupil
    diameter) raise instead of producing nan / inf rays."""
    P = ctx.P
    res = Result('LAUNCH-GUARDS', 'launch arrays are float for integer pupil '
                 'coordinates; impossible infinite-object configurations '
                 'raise')
    c = _rg(P)
    gen = c.methods['generate_rays']
    res.saw(gen)
    conv = set()
    for st in gen.node.body:
        if isinstance(st, ast.Assign) and isinstance(st.targets[0], ast.Name) \
                and isinstance(st.value, ast.Call) and \
                unparse(st.value.func) in ('np.asarray', 'np.array',
                                           'np.atleast_1d') and \
                st.value.args and unparse(st.value.args[0]) == \
                st.targets[0].id and any(
                    k.arg == 'dtype' and unparse(k.value) in (
                        'float', 'np.float64') for k in st.value.keywords):
            conv.add(st.targets[0].id)
    n = 0
    for m in c.methods.values():
        for call in ast.walk(m.node):
            if isinstance(call, ast.Call) and unparse(call.func) in (
                    'np.full_like', 'np.zeros_like', 'np.ones_like') and \
                    call.args and isinstance(call.args[0], ast.Name):
                n += 1
                tmpl = call.args[0].id
                typed = any(k.arg == 'dtype' and unparse(k.value) in (
                    'float', 'np.float64') for k in call.keywords)
                if typed or tmpl in conv or tmpl not in m.params:
                    continue
                res.saw(m)
                res.fail(ctx.finding(
                    'LAUNCH-GUARDS', m, call,
                    f'{unparse(call)[:60]} takes its dtype from the caller\'s '
                    f'{tmpl}: integer pupil coordinates (generate_rays(0, 1, '
                    f'0, 1, w), user distributions with int arrays) truncate '
                    f'the value to a whole number (EPL 12.74 -> 12, object '
                    f'height 2.5 -> 2.0, a 10 deg field becomes 10.31 deg)',
                    construct=f'{m.name}: {unparse(call.func)} of {tmpl}'))
    res.ok(f'{n} *_like templates examined; converted parameters: '
           f'{sorted(conv)}')
    org = c.methods.get('_get_ray_origins')
    if org is None:
        raise AnalysisError('_get_ray_origins not found')
    res.saw(org)
    inf_arm = None
    for st in ast.walk(org.node):
        if isinstance(st, ast.If) and 'is_infinite' in unparse(st.test):
            inf_arm = st.body
            break
    if inf_arm is None:
        raise AnalysisError('_get_ray_origins: infinite-object arm not found')
    raises = {}
    for st in inf_arm:
        if isinstance(st, ast.If) and any(isinstance(b, ast.Raise)
                                          for b in st.body):
            raises[unparse(st.test)] = st
    need = {'telecentric': any('telecentric' in t for t in raises),
            'objectNA': any("'objectNA'" in t for t in raises)}
    for what, ok in need.items():
        if ok:
            res.ok(f'object at infinity with {what}: raises')
        else:
            res.fail(ctx.finding(
                'LAUNCH-GUARDS', org, org.node,
                f'an object at infinity with {what} has no finite launch '
                f'(infinite entrance pupil diameter): the rays come out nan '
                f'/ -inf without an error',
                construct=f'infinite object with {what} not rejected'))
    return res


def telecentric_flag(ctx):
    """'object space telecentric' can be declared in three places (Optic
    attribute, FieldGroup.set_telecentric, Aperture(object_space_telecentric));
    the ray generator must honour the declaration whichever documented way it
    was made."""
    P = ctx.P
    res = Result('TELECENTRIC-FLAG', 'every documented way of declaring a '
                 'telecentric object space reaches the ray generator')
    c = _rg(P)
    reads = set()
    for m in c.methods.values():
        for x in ast.walk(m.node):
            if isinstance(x, ast.Attribute) and 'telecentric' in x.attr:
                reads.add(unparse(x))
    setters = []
    if P.has('FieldGroup.set_telecentric'):
        setters.append('FieldGroup.set_telecentric')
    ap = P.func('Aperture.__init__')
    if any('telecentric' in p_ for p_ in ap.params):
        setters.append('Aperture(object_space_telecentric=...)')
    res.saw(ap)
    opt = P.classes['Optic']
    prop = opt.props.get('obj_space_telecentric')
    unified = prop is not None and 'fields' in unparse(prop.node, 100000)
    direct = any('fields.telecentric' in r or 'aperture.object_space' in r
                 for r in reads)
    if not setters or unified or direct:
        res.ok(f'generator reads {sorted(reads)}; declarations unified')
    else:
        res.fail(ctx.finding(
            'TELECENTRIC-FLAG', c.methods['generate_rays'], None,
            f'the ray generator reads only {sorted(reads)}, but a telecentric '
            f'object space can also be declared through {setters}, which set '
            f'other flags: after optic.fields.set_telecentric(True) the chief '
            f'ray is tilted (M = -0.0387 instead of 0) and an EPD + '
            f'telecentric combination is traced instead of rejected',
            construct='telecentric declaration ignored'))
    return res



def c19_s6_optic(ctx):
    """shared with C19: the launch configuration of the lens (object-space
    telecentric flag, field type, aperture) is written by to_dict and read
    back by from_dict from the same key - a copy made through the dictionary
    launches its rays like the original"""
    from .C19 import s6_optic as _r
    return _r(ctx)

RULES = [c19_s6_optic, telecentric_flag, launch_guards, xy_exchange, no_stale, field_wiring, config_table, aim, trace_entry, in_disk, registry]

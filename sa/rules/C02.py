"""C02 -- every traced ray obeys Snell / reflection on the prescribed surface."""
import ast
from ..core import Result
from ..pm import AnalysisError, unparse
from ..match import Code
from ..paths import paths, annotate, callee_names, call_attr
from ..rat import (Ev, Rat, Sym, Poly, fn_eval, rat_eq, Inconclusive, ONE,
                   ZERO, const_of)

META = {
    'explanation': (
        'Laws proved from the source by rational normal forms (E6): vector '
        'Snell law, unit length and half-space of RealRays.refract with the '
        'sign-aligned normal inlined; reflection law of reflect; quadratic '
        'coefficients / roots of the conic and sphere intersections equal '
        'F(p + t d); Newton step stays on the ray and lands on z = sag(x, y); '
        'every surface_normal is the normalised gradient of the sag of the '
        'same class (symbolic differentiation); localize o globalize = id and '
        'rotations are orthogonal. Path rules (E1): trace order localize < '
        'distance < propagate < opd/clip/interact < globalize < record, same '
        'medium for propagation / OPD / n1, non-finite masks present.'),
    'declined': ['floating-point residuals of the laws',
                 'which of the two conic roots is selected (nearest the vertex)',
                 'Newton-Raphson convergence and its residual',
                 'non-finite propagation beyond the listed masks'],
    'trusted': ['ring axioms; relations |d|^2=1, |n|^2=1, sqrt(e)^2=e, '
                'sgn^2=1, sin^2+cos^2=1 form a Groebner basis (coprime leading '
                'squares)', 'numpy elementwise arithmetic',
                'loops over coefficient arrays unrolled to 3 (x 3) terms'],
    'level_text': ('Static analysis; the SNELL-LAW, REFLECT-LAW, ON-SURFACE, '
                   'NORMAL-GRADIENT and FRAME obligations are proofs from the '
                   'current source modulo the listed algebraic relations '
                   '(marked level=proof inside the evidence); the rest are '
                   'path / def-use rules.'),
}

A = Rat.atom
C = Rat.const


def cross(a, b):
    return (a[1] * b[2] - a[2] * b[1], a[2] * b[0] - a[0] * b[2],
            a[0] * b[1] - a[1] * b[0])


def dot(a, b):
    return a[0] * b[0] + a[1] * b[1] + a[2] * b[2]


def _inline_methods(P, cls, names):
    """inline hook: calls self.<name>(...) for name in names are evaluated on
    the callee's source with the same heap / symbol context."""
    def hook(call, ev):
        f = call.func
        if isinstance(f, ast.Attribute) and f.attr in names and \
                isinstance(f.value, ast.Name) and f.value.id == 'self':
            g = P.lookup(cls, f.attr)
            if g is None:
                return None
            sub = fn_eval(P, g, [ev.ev(a) for a in call.args], sym=ev.sym,
                          heap=ev.heap, inline=hook,
                          lens=getattr(ev, 'lens', None),
                          iters=getattr(ev, 'iters', None),
                          choose=ev.choose)
            return sub.returned
        return None
    return hook


def _unit_rel(sym, d, n):
    """relations |d|^2 = 1 and |n|^2 = 1 (eliminate the z components)."""
    rel = {}
    rel[sorted(d[2].atoms())[0]] = ONE - d[0] * d[0] - d[1] * d[1]
    rel[sorted(n[2].atoms())[0]] = ONE - n[0] * n[0] - n[1] * n[1]
    return rel


def snell_law(ctx):
    P = ctx.P
    res = Result('SNELL-LAW', 'from the source of RealRays.refract (with '
                 '_align_surface_normal inlined): t x n = (n1/n2) d x n, '
                 '|t| = 1, t.n_aligned = root >= 0', level='proof')
    f = P.func('RealRays.refract')
    res.saw(f)
    res.saw(P.func('RealRays._align_surface_normal'))
    sym = Sym()
    try:
        ev = fn_eval(P, f, sym=sym,
                     inline=_inline_methods(P, 'RealRays',
                                            {'_align_surface_normal'}))
    except Inconclusive as e:
        raise AnalysisError(f'SNELL-LAW: refract outside fragment: {e}')
    d = (A('self.L'), A('self.M'), A('self.N'))
    n = (A('nx'), A('ny'), A('nz'))
    t = tuple(ev.heap.get(k) for k in ('self.L', 'self.M', 'self.N'))
    if any(x is None for x in t):
        res.fail(ctx.finding('SNELL-LAW', f, f.node,
                             'refract does not store all three direction '
                             'cosines', construct='refract stores L, M, N'))
        return res
    mu = A('n1') / A('n2')
    rel = _unit_rel(sym, d, n)
    txn, dxn = cross(t, n), cross(d, n)
    names = 'xyz'
    for i in range(3):
        if sym.eq(txn[i], mu * dxn[i], rel):
            res.ok(f'(t x n).{names[i]} == (n1/n2) (d x n).{names[i]}')
        else:
            res.fail(ctx.finding(
                'SNELL-LAW', f, f.node,
                f'vector Snell law violated in component {names[i]}: '
                f'n2 (t x n) != n1 (d x n) for the refracted direction '
                f'computed by refract', construct=f'Snell cross {names[i]}'))
    if sym.eq(dot(t, t), ONE, rel):
        res.ok('|t|^2 == 1 modulo |d|=|n|=1, root^2 = radicand')
    else:
        res.fail(ctx.finding('SNELL-LAW', f, f.node,
                             'refracted direction is not a unit vector',
                             construct='|t|^2 = 1'))
    roots = [a for a, (k, x) in sym.defs.items() if k == 'sqrt']
    sg = [a for a, (k, x) in sym.defs.items() if k == 'sgn']
    if len(roots) == 1 and len(sg) == 1:
        aligned = tuple(A(sg[0]) * c for c in n)
        if sym.eq(dot(t, aligned), A(roots[0]), rel):
            res.ok('t . n_aligned == +sqrt(...)  (same half-space as d)')
        else:
            res.fail(ctx.finding(
                'SNELL-LAW', f, f.node,
                'the refracted ray does not continue into the half-space the '
                'incident ray points to (t . n_aligned != +root)',
                construct='half-space t.n = root'))
        # radicand
        dn = dot(d, n)
        if sym.eq(sym.defs[roots[0]][1], ONE - mu * mu * (ONE - dn * dn), rel):
            res.ok('root^2 == 1 - mu^2 (1 - (d.n)^2)')
        else:
            res.fail(ctx.finding('SNELL-LAW', f, f.node,
                                 'radicand is not 1 - mu^2 (1 - (d.n)^2)',
                                 construct='refract radicand'))
    else:
        raise AnalysisError('SNELL-LAW: expected one sqrt and one sign atom, '
                            f'got {roots} {sg}')
    # the saved incident direction is a copy taken before L, M, N change
    for k, src in (('self.L0', 'self.L'), ('self.M0', 'self.M'),
                   ('self.N0', 'self.N')):
        v = ev.heap.get(k)
        if v is not None and rat_eq(v, A(src)):
            res.ok(f'{k} == incident {src}')
        else:
            res.fail(ctx.finding('SNELL-LAW', f, f.node,
                                 f'{k} is not the incident direction cosine',
                                 construct=f'pre-save {k}'))
    return res


def reflect_law(ctx):
    P = ctx.P
    res = Result('REFLECT-LAW', 'from the source of RealRays.reflect: '
                 'r x n = d x n, r.n = -d.n, |r| = 1', level='proof')
    f = P.func('RealRays.reflect')
    res.saw(f)
    sym = Sym()
    try:
        ev = fn_eval(P, f, sym=sym,
                     inline=_inline_methods(P, 'RealRays',
                                            {'_align_surface_normal'}))
    except Inconclusive as e:
        raise AnalysisError(f'REFLECT-LAW: outside fragment: {e}')
    d = (A('self.L'), A('self.M'), A('self.N'))
    n = (A('nx'), A('ny'), A('nz'))
    r = tuple(ev.heap.get(k) for k in ('self.L', 'self.M', 'self.N'))
    if any(x is None for x in r):
        res.fail(ctx.finding('REFLECT-LAW', f, f.node, 'reflect does not '
                             'update all direction cosines',
                             construct='reflect stores'))
        return res
    rel = _unit_rel(sym, d, n)
    rxn, dxn = cross(r, n), cross(d, n)
    for i in range(3):
        if sym.eq(rxn[i], dxn[i], rel):
            res.ok(f'(r x n).{"xyz"[i]} == (d x n).{"xyz"[i]}')
        else:
            res.fail(ctx.finding('REFLECT-LAW', f, f.node,
                                 'tangential component not preserved by '
                                 'reflect', construct=f'reflect cross {"xyz"[i]}'))
    if sym.eq(dot(r, n), -dot(d, n), rel):
        res.ok('r . n == -d . n')
    else:
        res.fail(ctx.finding('REFLECT-LAW', f, f.node,
                             'normal component is not reversed by reflect',
                             construct='reflect r.n = -d.n'))
    if sym.eq(dot(r, r), ONE, rel):
        res.ok('|r|^2 == 1')
    else:
        res.fail(ctx.finding('REFLECT-LAW', f, f.node,
                             'reflected direction is not a unit vector',
                             construct='|r|^2 = 1'))
    for k, src in (('self.L0', 'self.L'), ('self.M0', 'self.M'),
                   ('self.N0', 'self.N')):
        v = ev.heap.get(k)
        if v is not None and rat_eq(v, A(src)):
            res.ok(f'{k} == incident {src}')
        else:
            res.fail(ctx.finding('REFLECT-LAW', f, f.node,
                                 f'{k} is not the incident direction cosine',
                                 construct=f'pre-save {k}'))
    return res


def align_normal(ctx):
    P = ctx.P
    res = Result('ALIGN-NORMAL', '_align_surface_normal flips all three '
                 'components by sign(d.n) and returns |d.n|', level='proof')
    f = P.func('RealRays._align_surface_normal')
    res.saw(f)
    sym = Sym()
    ev = fn_eval(P, f, sym=sym)
    out = ev.returned
    if not (isinstance(out, tuple) and len(out) == 4):
        raise AnalysisError('_align_surface_normal does not return 4 values')
    d0 = (A('self.L0'), A('self.M0'), A('self.N0'))
    n = (A('nx'), A('ny'), A('nz'))
    dn = dot(d0, n)
    s = sym.sign(dn)
    for i in range(3):
        if sym.eq(out[i], s * n[i]):
            res.ok(f'aligned n{"xyz"[i]} == sign(d.n) n{"xyz"[i]}')
        else:
            res.fail(ctx.finding('ALIGN-NORMAL', f, f.node,
                                 f'aligned normal component {"xyz"[i]} is not '
                                 f'sign(d.n) * n', construct=f'align {"xyz"[i]}'))
    if sym.eq(out[3], s * dn):
        res.ok('returned dot == |d.n|')
    else:
        res.fail(ctx.finding('ALIGN-NORMAL', f, f.node,
                             'returned dot product is not |d.n|',
                             construct='align dot'))
    return res


# ---------------------------------------------------------------- on-surface
def _quadratic(ctx, res, f, F_of, what, rule):
    """check a, b, c == coefficients of F(p + t d); t1, t2 roots; a==0 arm."""
    P = ctx.P
    sym = Sym()
    ev = Ev(sym=sym, P=P, func=f)
    ev.env['rays'] = 'rays'
    roots = {}
    lin = None
    where = None
    for s in _flat(f.node.body):
        if isinstance(s, ast.Assign) and len(s.targets) == 1:
            tg = s.targets[0]
            if isinstance(tg, ast.Name):
                if isinstance(s.value, ast.Call) and \
                        call_name(s.value) == 'where' and \
                        len(s.value.args) == 3 and any(
                            unparse(a_) in ('np.inf', 'np.nan') or
                            const_of(a_) == 0
                            for a_ in s.value.args[1:]):
                    # t = where(cond, inf, t): a root discarded for some rays
                    # stays the root for the others; t = where(|t| < eps, 0, t)
                    # snaps rounding noise, the other rays keep the root
                    keep = [a_ for a_ in s.value.args[1:]
                            if unparse(a_) not in ('np.inf', 'np.nan') and
                            const_of(a_) != 0]
                    if len(keep) == 1 and unparse(keep[0]) == tg.id:
                        continue
                if isinstance(s.value, ast.Call) and \
                        call_name(s.value) == 'where':
                    where = s.value
                try:
                    ev.env[tg.id] = ev.ev(s.value)
                except Inconclusive:
                    ev.env[tg.id] = A(tg.id)
            elif isinstance(tg, ast.Subscript) and isinstance(tg.value, ast.Name):
                # masked store t[cond] = value
                mask = unparse(tg.slice)
                try:
                    v = ev.ev(s.value)
                except Inconclusive:
                    v = None
                if v is not None and (not v.is_const()) and \
                        'inf' not in v.atoms() and 'nan' not in v.atoms():
                    lin = (s, mask, v)
        if isinstance(s, ast.Return):
            break
    need = [k for k in 'abc' if k not in ev.env]
    if need:
        raise AnalysisError(f'{f.qual}: quadratic coefficients {need} not found')
    t = A('t')
    a, b, c = ev.env['a'], ev.env['b'], ev.env['c']
    quad = a * t * t + b * t + c
    pos = (A('rays.x') + t * A('rays.L'), A('rays.y') + t * A('rays.M'),
           A('rays.z') + t * A('rays.N'))
    F = F_of(pos)
    if rat_eq(quad, F):
        res.ok(f'{f.qual}: a t^2 + b t + c == {what}(p + t d)')
    else:
        res.fail(ctx.finding(rule, f, f.node,
                             f'the quadratic solved for the ray-surface '
                             f'distance is not {what} evaluated on the ray '
                             f'p + t d', construct=f'{f.qual} quadratic a,b,c'))
    n_roots = 0
    # a sign selector np.where(b >= 0, 1, -1) (cancellation-free form of the
    # roots) is decided both ways; the root property must hold in each case
    signsel = [c_ for c_ in ast.walk(f.node) if isinstance(c_, ast.Call) and
               call_name(c_) == 'where' and len(c_.args) == 3 and
               {const_of(c_.args[1]), const_of(c_.args[2])} == {1, -1}]
    if signsel:
        envs = []
        for dec in (True, False):
            ev2 = Ev(sym=sym, P=P, func=f,
                     choose=lambda t_, e_, dec=dec: dec)
            ev2.env['rays'] = 'rays'
            for s in _flat(f.node.body):
                if isinstance(s, ast.Assign) and len(s.targets) == 1 and \
                        isinstance(s.targets[0], ast.Name):
                    if isinstance(s.value, ast.Call) and \
                            call_name(s.value) == 'where' and \
                            len(s.value.args) == 3 and any(
                                unparse(a_) in ('np.inf', 'np.nan') or
                                const_of(a_) == 0
                                for a_ in s.value.args[1:]) and any(
                                unparse(a_) == s.targets[0].id
                                for a_ in s.value.args[1:]):
                        continue        # a root masked for some rays
                    try:
                        ev2.env[s.targets[0].id] = ev2.ev(s.value)
                    except Inconclusive:
                        ev2.env[s.targets[0].id] = A(s.targets[0].id)
                if isinstance(s, ast.Return):
                    break
            envs.append(ev2.env)
    else:
        envs = [ev.env]
    for name in ('t1', 't2'):
        if all(name in e_ and isinstance(e_[name], Rat) for e_ in envs):
            n_roots += 1
            if all(sym.is_zero(a * e_[name] * e_[name] + b * e_[name] + c)
                   for e_ in envs):
                res.ok(f'{f.qual}: {name} solves a t^2 + b t + c = 0')
            else:
                res.fail(ctx.finding(rule, f, f.node,
                                     f'{name} is not a root of the quadratic',
                                     construct=f'{f.qual} root {name}'))
    if n_roots == 2 and not all(sym.eq(e_['t1'] + e_['t2'], -b / a)
                                for e_ in envs):
        res.fail(ctx.finding(rule, f, f.node, 't1 and t2 are the same root',
                             construct=f'{f.qual} distinct roots'))
    elif n_roots == 2:
        res.ok(f'{f.qual}: t1 + t2 == -b/a (both roots)')
    if n_roots < 2:
        raise AnalysisError(f'{f.qual}: roots t1/t2 not found')
    if where is not None and len(where.args) == 3 and \
            {unparse(where.args[1]), unparse(where.args[2])} == {'t1', 't2'}:
        res.ok(f'{f.qual}: selected t is one of the two roots')
    else:
        res.fail(ctx.finding(rule, f, f.node,
                             'the selected distance is not one of the roots '
                             't1, t2', construct=f'{f.qual} root selection'))
    if lin is not None:
        s, mask, v = lin
        if sym.is_zero(b * v + c) and 'a == 0' in mask.replace('cond', 'a == 0'):
            res.ok(f'{f.qual}: a == 0 arm solves b t + c = 0')
        elif sym.is_zero(b * v + c):
            res.ok(f'{f.qual}: degenerate arm solves b t + c = 0')
        else:
            res.fail(ctx.finding(rule, f, s,
                                 'degenerate (a = 0) arm does not solve '
                                 'b t + c = 0', construct=f'{f.qual} a==0 arm'))
    return ev


def _flat(body):
    for s in body:
        if isinstance(s, ast.With):
            yield from _flat(s.body)
        else:
            yield s


def call_name(c):
    f = c.func
    return f.attr if isinstance(f, ast.Attribute) else (
        f.id if isinstance(f, ast.Name) else None)


def on_surface(ctx):
    P = ctx.P
    res = Result('ON-SURFACE', 'the distance returned for conics / spheres '
                 'solves F(p + t d) = 0 with F the implicit surface equation; '
                 'plane: z + t N = 0; Newton step stays on the ray and lands '
                 'on z = sag(x, y)', level='proof')
    f = P.func('StandardGeometry.distance')
    res.saw(f)
    R, k = A('self.radius'), A('self.k')

    def conic(p):
        return p[0] * p[0] + p[1] * p[1] + (ONE + k) * p[2] * p[2] - \
            C(2) * R * p[2]
    _quadratic(ctx, res, f, conic, 'x^2+y^2+(1+k)z^2-2Rz', 'ON-SURFACE')
    g = P.func('NewtonRaphsonGeometry._intersection_sphere')
    res.saw(g)

    def sphere(p):
        return p[0] * p[0] + p[1] * p[1] + p[2] * p[2] - C(2) * R * p[2]
    ev = _quadratic(ctx, res, g, sphere, 'x^2+y^2+z^2-2Rz', 'ON-SURFACE')
    # returned point = p + t d
    rets = [s for s in g.node.body if isinstance(s, ast.Return)]
    if rets:
        try:
            out = ev.ev(rets[0].value)
            t = ev.env.get('t')
            want = (A('rays.x') + A('rays.L') * t, A('rays.y') + A('rays.M') * t,
                    A('rays.z') + A('rays.N') * t)
            if isinstance(out, tuple) and len(out) == 3 and all(
                    rat_eq(o, w) for o, w in zip(out, want)):
                res.ok('_intersection_sphere returns p + t d')
            else:
                res.fail(ctx.finding('ON-SURFACE', g, rets[0],
                                     'starting point of the Newton iteration '
                                     'is not p + t d',
                                     construct='_intersection_sphere return'))
        except Inconclusive as e:
            raise AnalysisError(f'_intersection_sphere return: {e}')
    # plane
    pl = P.func('Plane.distance')
    res.saw(pl)
    evp = Ev()
    evp.env['rays'] = 'rays'
    tval = None
    for s in pl.node.body:
        if isinstance(s, ast.Assign) and isinstance(s.targets[0], ast.Name):
            tval = evp.ev(s.value)
            evp.env[s.targets[0].id] = tval
            break
    if tval is not None and rat_eq(A('rays.z') + tval * A('rays.N'), ZERO):
        res.ok('Plane.distance: z + t N == 0')
    else:
        res.fail(ctx.finding('ON-SURFACE', pl, pl.node,
                             'plane distance does not bring the ray to z = 0',
                             construct='Plane.distance'))
    # Newton step
    nr = P.func('NewtonRaphsonGeometry.distance')
    res.saw(nr)
    loop = [s for s in nr.node.body if isinstance(s, (ast.For, ast.While))]
    if len(loop) != 1:
        raise AnalysisError('NewtonRaphsonGeometry.distance: iteration loop '
                            'not found')
    sym = Sym()
    evn = Ev(sym=sym)
    evn.env['intersections'] = (A('X'), A('Y'), A('Z'))
    evn.env['ray_directions'] = (A('L'), A('M'), A('N'))

    def inline(call, e):
        if isinstance(call.func, ast.Attribute) and call.func.attr == 'sag':
            return A('SAG')
    evn.inline = inline
    try:
        for s in loop[0].body:
            if isinstance(s, ast.If):
                continue
            # bookkeeping of the stopping rule (residual, counter) is judged
            # below, not evaluated
            if isinstance(s, (ast.Assign, ast.AugAssign)):
                tg = s.targets[0] if isinstance(s, ast.Assign) else s.target
                used = {x.id for st2 in loop[0].body for x in ast.walk(st2)
                        if isinstance(x, ast.Name) and st2 is not s and
                        not isinstance(st2, ast.If)}
                if isinstance(tg, ast.Name) and tg.id not in used:
                    continue
            evn.stmt(s)
    except Inconclusive as e:
        raise AnalysisError(f'Newton step outside fragment: {e}')
    new = evn.env['intersections']
    old = (A('X'), A('Y'), A('Z'))
    dirv = (A('L'), A('M'), A('N'))
    delta = tuple(n_ - o for n_, o in zip(new, old))
    cr = cross(delta, dirv)
    if all(rat_eq(x, ZERO) for x in cr):
        res.ok('Newton step is parallel to the ray direction')
    else:
        res.fail(ctx.finding('ON-SURFACE', nr, loop[0],
                             'Newton update leaves the ray (step not parallel '
                             'to the direction)', construct='Newton step on ray'))
    if rat_eq(new[2], A('SAG')):
        res.ok('after the step z == sag(x_old, y_old)')
    else:
        res.fail(ctx.finding('ON-SURFACE', nr, loop[0],
                             'Newton update does not bring z to the sag of '
                             'the current (x, y): the fixed point is not on '
                             'the surface', construct='Newton step z = sag'))
    # sag evaluated at the current x, y columns and break on |dz| < tol
    srcs = unparse(loop[0], 3000)
    if 'self.sag(intersections[:, 0], intersections[:, 1])' in srcs:
        res.ok('sag evaluated at the current (x, y)')
    else:
        res.fail(ctx.finding('ON-SURFACE', nr, loop[0],
                             'sag is not evaluated at the current (x, y) of '
                             'the iterate', construct='Newton sag arguments'))
    from ..match import find_seq, find
    stop_ok, stop_msg = False, None
    if isinstance(loop[0], ast.For):
        stop_ok = bool(find_seq(loop[0], [
            '$dz = $p[:, 2] - $zs',
            'if np.max(np.abs($dz)) < self.tol:\n    break']))
    else:
        # while form: continue while NOT (residual < tol); the residual is
        # the batch maximum of |dz| computed in the body.  `residual >= tol`
        # is not the same predicate: with a lost (NaN) ray in the batch it is
        # False and the loop stops with every other ray unconverged.
        t = loop[0].test
        conds = t.values if isinstance(t, ast.BoolOp) and isinstance(
            t.op, ast.And) else [t]
        for b in find_seq(loop[0], ['$dz = $p[:, 2] - $zs',
                                    '$e = np.max(np.abs($dz))']):
            en = unparse(b['e'])
            for c in conds:
                cs_ = unparse(c)
                if cs_ in (f'not {en} < self.tol', f'not ({en} < self.tol)'):
                    stop_ok = True
                elif isinstance(c, ast.Compare) and unparse(c.left) == en \
                        and isinstance(c.ops[0], (ast.GtE, ast.Gt)) and \
                        unparse(c.comparators[0]) == 'self.tol':
                    stop_msg = (
                        f'the loop continues while {cs_}: when any ray of '
                        f'the batch has a non-finite residual the comparison '
                        f'is False and the iteration stops with all other '
                        f'rays unconverged (the original rule, stop when '
                        f'max|dz| < tol, keeps iterating)')
    if stop_ok:
        res.ok('iteration stops when max over the batch of |dz| < tol')
    elif stop_msg:
        res.fail(ctx.finding('ON-SURFACE', nr, loop[0], stop_msg,
                             construct='Newton stopping rule'))
    else:
        res.fail(ctx.finding(
            'ON-SURFACE', nr, loop[0],
            'the iteration does not stop on max(|dz|) < tol over the whole '
            'batch: rays whose residual is still large (e.g. negative) are '
            'left unconverged when another ray of the batch has converged',
            construct='Newton stopping rule'))
    # returned distance = |intersection - start|
    rets = [s for s in ast.walk(nr.node) if isinstance(s, ast.Return)]
    rsrc = unparse(rets[0].value) if rets else ''
    # the returned array is the norm itself or a masked copy of it
    # (np.where(converged, t, nan)): resolve one level of local names
    defs = {st.targets[0].id: unparse(st.value) for st in nr.node.body
            if isinstance(st, ast.Assign) and len(st.targets) == 1 and
            isinstance(st.targets[0], ast.Name)}
    if rets and isinstance(rets[0].value, ast.Call) and \
            unparse(rets[0].value.func) == 'np.where' and \
            len(rets[0].value.args) == 3 and any(
                unparse(a) in ('np.nan', 'np.inf')
                for a in rets[0].value.args[1:]):
        rsrc = [unparse(a) for a in rets[0].value.args[1:]
                if unparse(a) not in ('np.nan', 'np.inf')][0]
    rsrc = defs.get(rsrc, rsrc)
    dirs = defs.get('ray_directions', '').replace(' ', '')
    signed = rsrc.replace(' ', '') == \
        'np.sum((intersections-position)*ray_directions,axis=1)' and \
        dirs == 'np.column_stack((rays.L,rays.M,rays.N))'
    if 'norm(intersections - position' in rsrc and 'axis=1' in rsrc:
        res.fail(ctx.finding(
            'ON-SURFACE', nr, rets[0] if rets else nr.node,
            'the distance to an iterated surface is returned as the unsigned '
            'norm |intersection - start|: when the surface lies behind the '
            'start point (stop on a corrector plate, thickness 0) the ray is '
            'moved forward to the mirror image of the intersection, a finite '
            'point off the surface (Schmidt plate: up to 27 um; flat-base '
            'freeform: 0.147 mm)', construct='Newton unsigned distance'))
    elif signed:
        res.ok('returned distance = (intersection - start) . direction, the '
               'signed length along the unit ray direction')
    else:
        res.fail(ctx.finding('ON-SURFACE', nr, rets[0] if rets else nr.node,
                             'returned distance is not the length from the '
                             'start position to the converged intersection',
                             construct='Newton return'))
    return res


# --------------------------------------------------------------- normals
def normal_gradient(ctx):
    P = ctx.P
    res = Result('NORMAL-GRADIENT', 'every surface normal is the normalised '
                 'gradient (dz/dx, dz/dy, -1)/|.| of the sag of the same class '
                 '(symbolic differentiation of sag)', level='proof')
    if 'BaseGeometry' not in P.classes:
        raise AnalysisError('BaseGeometry not found')
    X, Y = A('X'), A('Y')
    for cn in P.subclasses('BaseGeometry'):
        from .. import rat as _rat
        _rat.BUDGET[0] = 40_000_000     # per geometry class
        c = P.classes[cn]
        sag = P.lookup(cn, 'sag')
        sn = P.lookup(cn, '_surface_normal') or P.lookup(cn, 'surface_normal')
        if sag is None or sn is None or _abstract(sag) or _abstract(sn):
            continue
        res.saw(sag), res.saw(sn)
        sym = Sym()
        lens = {'self.c': 3, 'self.c[*]': 2, '*': 3}

        def iters(it, ev):
            if isinstance(it, ast.Name) and it.id == 'non_zero_indices':
                return [(C(i), C(j)) for i, j in ((1, 0), (0, 2), (2, 1))]
            return None
        hook = _inline_methods(P, cn, {'_chebyshev', '_chebyshev_derivative',
                                       '_validate_inputs'})
        try:
            if cn == 'Plane':
                z = ZERO
            else:
                z = fn_eval(P, sag, [X, Y], sym=sym, lens=lens, iters=iters,
                            inline=hook,
                            choose=lambda t, e: False).returned
            if sn.name == 'surface_normal':
                heap = {'rays.x': X, 'rays.y': Y}
                evn = fn_eval(P, sn, None, sym=sym, heap=heap, lens=lens,
                              iters=iters, inline=hook,
                              choose=lambda t, e: False)
            else:
                # interior point of the domain: edge masks (root == 0) False
                evn = fn_eval(P, sn, [X, Y], sym=sym, lens=lens, iters=iters,
                              inline=hook, choose=lambda t, e: False)
            nrm = evn.returned
        except Inconclusive as e:
            raise AnalysisError(f'NORMAL-GRADIENT {cn}: outside fragment: {e}')
        if not (isinstance(nrm, tuple) and len(nrm) == 3):
            raise AnalysisError(f'NORMAL-GRADIENT {cn}: normal is not a triple')
        fx = sym.diff(z, 'X')
        fy = sym.diff(z, 'Y')
        nx, ny, nz = nrm
        def shown(f_):
            # the identities are polynomial and are decided well inside the
            # term budget for the gradient formulas of the reference tree; a
            # formula for which the reduction does not come to an end within
            # it has not been shown to be the gradient
            try:
                return f_()
            except Inconclusive:
                return False
        checks = [
            ('nx == -nz dz/dx', shown(lambda: sym.eq(nx, -nz * fx))),
            ('ny == -nz dz/dy', shown(lambda: sym.eq(ny, -nz * fy))),
            ('|n|^2 == 1', shown(lambda: sym.eq(dot(nrm, nrm), ONE))),
        ]
        for name, ok in checks:
            if ok:
                res.ok(f'{cn}: {name}')
            else:
                res.fail(ctx.finding(
                    'NORMAL-GRADIENT', sn, sn.node,
                    f'{cn}: surface normal is not the normalised gradient of '
                    f'{cn}.sag ({name} fails)',
                    construct=f'{cn} normal: {name}'))
    res.require(12, 'normal obligations')
    return res


def _abstract(f):
    body = [s for s in f.node.body if not (isinstance(s, ast.Expr) and
                                           isinstance(s.value, ast.Constant))]
    return all(isinstance(s, ast.Pass) for s in body)


# ---------------------------------------------------------------- frames
def _apply(P, fname, state, sym, arg):
    f = P.func('RealRays.' + fname)
    heap = {'self.' + k: v for k, v in state.items()}
    ev = fn_eval(P, f, [arg], sym=sym, heap=heap)
    return {k: heap['self.' + k] for k in state}


def frames(ctx):
    P = ctx.P
    res = Result('FRAME', 'rotations are orthogonal and act identically on '
                 'position and direction; globalize(localize(ray)) = ray for '
                 'all six components; translate adds the offsets',
                 level='proof')
    s0 = {k: A(k) for k in 'x y z L M N'.split()}
    # rotations
    for fname, ang in (('rotate_x', 'rx'), ('rotate_y', 'ry'),
                       ('rotate_z', 'rz')):
        sym = Sym()
        f = P.func('RealRays.' + fname)
        res.saw(f)
        try:
            r = _apply(P, fname, s0, sym, A(ang))
        except Inconclusive as e:
            raise AnalysisError(f'FRAME {fname}: {e}')
        p0 = s0['x'] * s0['x'] + s0['y'] * s0['y'] + s0['z'] * s0['z']
        d0 = s0['L'] * s0['L'] + s0['M'] * s0['M'] + s0['N'] * s0['N']
        p1 = r['x'] * r['x'] + r['y'] * r['y'] + r['z'] * r['z']
        d1 = r['L'] * r['L'] + r['M'] * r['M'] + r['N'] * r['N']
        pd0 = s0['x'] * s0['L'] + s0['y'] * s0['M'] + s0['z'] * s0['N']
        pd1 = r['x'] * r['L'] + r['y'] * r['M'] + r['z'] * r['N']
        for name, ok in (('|p| preserved', sym.eq(p1, p0)),
                         ('|d| preserved', sym.eq(d1, d0)),
                         ('p.d preserved (same matrix on p and d)',
                          sym.eq(pd1, pd0))):
            if ok:
                res.ok(f'{fname}: {name}')
            else:
                res.fail(ctx.finding('FRAME', f, f.node,
                                     f'{fname} is not a rotation applied '
                                     f'alike to position and direction '
                                     f'({name} fails)',
                                     construct=f'{fname}: {name}'))
        # axis component unchanged
        ax = fname[-1]
        dc = {'x': 'L', 'y': 'M', 'z': 'N'}[ax]
        if sym.eq(r[ax], s0[ax]) and sym.eq(r[dc], s0[dc]):
            res.ok(f'{fname}: {ax} and {dc} unchanged')
        else:
            res.fail(ctx.finding('FRAME', f, f.node,
                                 f'{fname} changes the component along its '
                                 f'own axis', construct=f'{fname}: axis'))
        # right-handed sense: sibling template (cyclic permutation of axes)
    # sibling cross-check: rotate_y, rotate_z are rotate_x under x->y->z->x
    sym = Sym()
    th = A('th')
    rx = _apply(P, 'rotate_x', s0, sym, th)
    perm1 = {'x': 'y', 'y': 'z', 'z': 'x', 'L': 'M', 'M': 'N', 'N': 'L'}

    def permuted(res_state, perm):
        inv = {v: k for k, v in perm.items()}
        return res_state, inv
    # globalize o localize = id
    cs = P.func('CoordinateSystem.localize')
    gl = P.func('CoordinateSystem.globalize')
    res.saw(cs), res.saw(gl)
    for tilt in (True,):
        sym = Sym()
        state = {k: A(k) for k in 'x y z L M N'.split()}
        heap = {'rays.' + k: v for k, v in state.items()}

        def make_hook(heap, sym):
            def hook(call, ev):
                f = call.func
                if isinstance(f, ast.Attribute) and isinstance(
                        f.value, ast.Name) and f.value.id == 'rays':
                    g = P.lookup('RealRays', f.attr)
                    if g is None:
                        return None
                    args = [ev.ev(a) for a in call.args]
                    h2 = {'self.' + k[5:]: v for k, v in heap.items()
                          if k.startswith('rays.')}
                    fn_eval(P, g, args, sym=sym, heap=h2)
                    for k, v in h2.items():
                        heap['rays.' + k[5:]] = v
                    return ZERO
                if isinstance(f, ast.Attribute) and f.attr in (
                        'localize', 'globalize') and \
                        'reference_cs' in unparse(f.value):
                    return ZERO
                return None
            return hook
        hook = make_hook(heap, sym)

        def choose(test, ev):
            s = unparse(test)
            if 'reference_cs' in s:
                return False
            return True       # non-zero tilt about every axis
        try:
            fn_eval(P, cs, [A('rays')], sym=sym, heap=heap, inline=hook,
                    choose=choose)
            fn_eval(P, gl, [A('rays')], sym=sym, heap=heap, inline=hook,
                    choose=choose)
        except Inconclusive as e:
            raise AnalysisError(f'FRAME localize/globalize: {e}')
        for k in state:
            if sym.eq(heap['rays.' + k], state[k]):
                res.ok(f'globalize(localize(ray)).{k} == ray.{k}')
            else:
                res.fail(ctx.finding(
                    'FRAME', gl, gl.node,
                    f'globalize is not the inverse of localize (component {k})',
                    construct=f'frame inverse {k}'))
    # reference frame applied outermost in both
    for fn, first in ((cs, True), (gl, False)):
        stmts = [s for s in fn.node.body if not (isinstance(s, ast.Expr) and
                                                 isinstance(s.value, ast.Constant))]
        idx = [i for i, s in enumerate(stmts) if 'reference_cs' in unparse(s)]
        ok = idx and (idx[0] == 0 if first else idx[-1] == len(stmts) - 1)
        ok = ok and f'self.reference_cs.{fn.name}(rays)' in \
            unparse(stmts[idx[0 if first else -1]])
        if ok:
            res.ok(f'{fn.qual}: reference frame applied '
                   f'{"first" if first else "last"}')
        else:
            res.fail(ctx.finding('FRAME', fn, fn.node,
                                 'reference coordinate system not applied '
                                 'outermost', construct=f'{fn.name} ref order'))
    # the geometry hands the frame change to its coordinate system
    from ..match import find as _find
    for nm in ('localize', 'globalize'):
        bg = P.func('BaseGeometry.' + nm)
        res.saw(bg)
        if _find(bg, f'self.cs.{nm}(rays)'):
            res.ok(f'BaseGeometry.{nm} -> self.cs.{nm}(rays)')
        else:
            res.fail(ctx.finding('FRAME', bg, bg.node,
                                 f'BaseGeometry.{nm} does not apply its '
                                 f'coordinate system: the surface is traced '
                                 f'as if centred and untilted',
                                 construct=f'BaseGeometry.{nm} delegation'))
    # translate
    tr = P.func('BaseRays.translate')
    res.saw(tr)
    ev = fn_eval(P, tr)
    okt = all(rat_eq(ev.heap.get('self.' + a, ZERO), A('self.' + a) + A('d' + a))
              for a in 'xyz')
    if okt:
        res.ok('translate: x+dx, y+dy, z+dz')
    else:
        res.fail(ctx.finding('FRAME', tr, tr.node, 'translate does not add '
                             'its offsets componentwise',
                             construct='translate'))
    # localize = translate(-origin) then rotations by -angle about x, y, z in
    # that order; globalize the exact reverse; each `if self.rA:` shortcut
    # guards the rotation about the same axis by the same angle
    want = {
        'localize': [('translate', ['-self.x', '-self.y', '-self.z'], None),
                     ('rotate_x', ['-self.rx'], 'self.rx'),
                     ('rotate_y', ['-self.ry'], 'self.ry'),
                     ('rotate_z', ['-self.rz'], 'self.rz')],
        'globalize': [('rotate_z', ['self.rz'], 'self.rz'),
                      ('rotate_y', ['self.ry'], 'self.ry'),
                      ('rotate_x', ['self.rx'], 'self.rx'),
                      ('translate', ['self.x', 'self.y', 'self.z'], None)],
    }
    for fn in (cs, gl):
        seq = []

        def walk(stmts, guard):
            for st in stmts:
                if isinstance(st, ast.If):
                    g_ = unparse(st.test)
                    if 'reference_cs' in g_:
                        continue
                    walk(st.body, g_ if guard is None else guard + ' and ' + g_)
                    if st.orelse:
                        walk(st.orelse, 'not ' + g_)
                elif isinstance(st, ast.Expr) and isinstance(
                        st.value, ast.Call) and isinstance(
                        st.value.func, ast.Attribute) and \
                        unparse(st.value.func.value) == 'rays':
                    seq.append((st.value.func.attr,
                                [unparse(a_) for a_ in st.value.args], guard))
        walk(fn.node.body, None)
        exp = want[fn.name]
        ok = len(seq) == len(exp) and all(
            a[0] == b[0] and a[1] == b[1] and (a[2] is None or a[2] == b[2])
            for a, b in zip(seq, exp))
        if ok:
            res.ok(f'{fn.qual}: ' + ' -> '.join(
                f'{n_}({", ".join(a_)})' for n_, a_, _ in seq))
        else:
            res.fail(ctx.finding(
                'FRAME', fn, fn.node,
                f'{fn.qual} performs ' + ' -> '.join(
                    f'{n_}({", ".join(a_)})' + (f' [if {g_}]' if g_ else '')
                    for n_, a_, g_ in seq) + '; expected ' + ' -> '.join(
                    f'{n_}({", ".join(a_)})' + (f' [if {g_}]' if g_ else '')
                    for n_, a_, g_ in exp),
                construct=f'{fn.name} sequence'))
    return res


# ---------------------------------------------------------------- ordering
def trace_order(ctx):
    P = ctx.P
    res = Result('TRACE-ORDER', 'every function that asks a geometry for the '
                 'ray distance does localize < distance < propagate < '
                 '{opd update, clip, interact} < globalize < record, after '
                 'reset; paraxial twin likewise; localize/globalize paired')
    tracers = []
    for f in P.all_funcs():
        for n in ast.walk(f.node):
            if isinstance(n, ast.Call) and isinstance(n.func, ast.Attribute) \
                    and n.func.attr == 'distance' and \
                    'geometry' in unparse(n.func.value):
                tracers.append(f)
                break
    for f in tracers:
        res.saw(f)
        bad = None
        for p in annotate(P, f, paths(f)):
            if p.exit == 'raise':
                continue
            pos = {}
            for i, e in enumerate(p.events):
                if e.kind == 'call':
                    a = call_attr(e)
                    pos.setdefault(a, []).append(i)
                if e.kind == 'aug' and isinstance(e.node, ast.Attribute) and \
                        e.node.attr == 'opd':
                    pos.setdefault('#opd', []).append(i)
            need = ['reset', 'localize', 'distance', 'propagate', '_interact',
                    'globalize', '_record', '#opd']
            miss = [k for k in need if k not in pos]
            if miss:
                bad = (p, f'missing step(s) {miss}')
                break
            order = [('reset', '_record'), ('localize', 'distance'),
                     ('distance', 'propagate'), ('propagate', '#opd'),
                     ('propagate', '_interact'), ('_interact', 'globalize'),
                     ('#opd', '_record'), ('globalize', '_record'),
                     ('reset', 'localize')]
            if 'clip' in pos:
                order += [('propagate', 'clip'), ('clip', 'globalize')]
            for a, b in order:
                if not max(pos[a]) < min(pos[b]) and not (
                        a == 'reset' and min(pos[a]) < min(pos[b])):
                    bad = (p, f'{a} must precede {b}')
                    break
            if bad:
                break
        if bad:
            res.fail(ctx.finding('TRACE-ORDER', f, f.node,
                                 f'real-ray surface trace: {bad[1]}',
                                 construct=f'trace order: {bad[1]}',
                                 path=bad[0].describe()))
        else:
            res.ok(f'{f.qual}: steps present and ordered on all paths')
    if not tracers:
        raise AnalysisError('no function calls geometry.distance')
    # the aperture is applied whenever one exists (guard = truthiness)
    f = P.func('Surface._trace_real')
    guards = [n for n in ast.walk(f.node) if isinstance(n, ast.If) and
              any(isinstance(c, ast.Call) and call_name(c) == 'clip'
                  for c in ast.walk(n))]
    if guards and all(unparse(g.test) in ('self.aperture',
                                          'self.aperture is not None')
                      for g in guards):
        res.ok('clip guarded only by the existence of an aperture')
    else:
        res.fail(ctx.finding('TRACE-ORDER', f, f.node,
                             'aperture clipping is not applied whenever the '
                             'surface has an aperture',
                             construct='clip guard'))
    # paraxial twin(s)
    for g in P.all_funcs():
        if g.name != '_trace_paraxial' or g.cls is None or _abstract(g):
            continue
        res.saw(g)
        terminal = g.cls == 'ImageSurface'
        bad = None
        for p in annotate(P, g, paths(g)):
            pos = {}
            for i, e in enumerate(p.events):
                if e.kind == 'call':
                    pos.setdefault(call_attr(e), []).append(i)
                if e.kind == 'store' and isinstance(e.node, ast.Attribute) \
                        and e.node.attr == 'u':
                    pos.setdefault('#u', []).append(i)
            need = ['reset', 'localize', 'propagate', '_record']
            if not terminal:
                need += ['globalize', '#u']
            miss = [k for k in need if k not in pos]
            if miss:
                bad = (p, f'missing step(s) {miss}')
                break
            order = [('reset', 'localize'), ('localize', 'propagate'),
                     ('propagate', '_record')]
            if not terminal:
                order += [('propagate', '#u'), ('#u', 'globalize'),
                          ('globalize', '_record')]
            for a, b in order:
                if not max(pos[a]) < min(pos[b]):
                    bad = (p, f'{a} must precede {b}')
                    break
            if bad:
                break
        if bad:
            res.fail(ctx.finding('TRACE-ORDER', g, g.node,
                                 f'paraxial surface trace: {bad[1]}',
                                 construct=f'paraxial order: {bad[1]}',
                                 path=bad[0].describe()))
        else:
            res.ok(f'{g.qual}: paraxial steps ordered'
                   f'{" (terminal surface: no globalize needed)" if terminal else ""}')
    # dispatch on ray type
    d = P.func('Surface.trace')
    src = Code(P, d)
    if 'isinstance(rays, ParaxialRays)' in src and '_trace_paraxial' in src \
            and 'isinstance(rays, RealRays)' in src and '_trace_real' in src:
        res.ok('Surface.trace dispatches ParaxialRays/RealRays')
    else:
        res.fail(ctx.finding('TRACE-ORDER', d, d.node,
                             'ray-type dispatch broken',
                             construct='Surface.trace dispatch'))
    res.require(4)
    return res


def same_medium(ctx):
    P = ctx.P
    res = Result('SAME-MEDIUM', 'optical path += |t * n_pre(w)| with the same '
                 't that was propagated; refract(n1 = pre.n(w), n2 = post.n(w)); '
                 'normals come from the same geometry at the intersection')
    f = P.func('Surface._trace_real')
    res.saw(f)
    # t def-use
    tname = None
    for n in ast.walk(f.node):
        if isinstance(n, ast.Assign) and isinstance(n.value, ast.Call) and \
                call_name(n.value) == 'distance' and \
                isinstance(n.targets[0], ast.Name):
            tname = n.targets[0].id
            darg = unparse(n.value.args[0]) if n.value.args else ''
    if tname is None:
        raise AnalysisError('_trace_real: distance result not bound to a name')
    prop = [c for c in ast.walk(f.node) if isinstance(c, ast.Call) and
            call_name(c) == 'propagate']
    okp = prop and all(unparse(c.args[0]) == tname for c in prop)
    if okp:
        res.ok(f'propagate({tname}, ...) uses the distance just computed')
    else:
        res.fail(ctx.finding('SAME-MEDIUM', f, f.node,
                             'rays are not propagated by the distance returned '
                             'by the geometry', construct='propagate(t)'))
    opd = [s for s in ast.walk(f.node) if isinstance(s, ast.AugAssign) and
           isinstance(s.target, ast.Attribute) and s.target.attr == 'opd']
    ok = False
    if len(opd) == 1 and isinstance(opd[0].op, ast.Add):
        sym = Sym()
        ev = Ev(sym=sym)

        def inline(call, e):
            fn = call.func
            if isinstance(fn, ast.Attribute) and fn.attr == 'n':
                return A('n<' + unparse(fn.value) + '>(' +
                         ','.join(unparse(a) for a in call.args) + ')')
        ev.inline = inline
        try:
            v = ev.ev(opd[0].value)
            want = sym.absv(A(tname) * A('n<self.material_pre>(rays.w)'))
            ok = sym.eq(v, want)
        except Inconclusive:
            ok = False
    if ok:
        res.ok('rays.opd += |t * material_pre.n(rays.w)|')
    else:
        res.fail(ctx.finding('SAME-MEDIUM', f, opd[0] if opd else f.node,
                             'optical path increment is not |t * n| with n '
                             'the index of the medium in front of the surface '
                             'at the ray wavelength',
                             construct='opd increment'))
    g = P.func('Surface._interact')
    res.saw(g)
    env = {}
    for n in ast.walk(g.node):
        if isinstance(n, ast.Assign) and isinstance(n.targets[0], ast.Name):
            env[n.targets[0].id] = unparse(n.value)
    refr = [c for c in ast.walk(g.node) if isinstance(c, ast.Call) and
            call_name(c) == 'refract']
    okr = False
    if refr:
        a = [unparse(x) for x in refr[0].args]
        a = [env.get(x, x) for x in a]
        okr = len(a) == 5 and a[3] == 'self.material_pre.n(rays.w)' and \
            a[4] == 'self.material_post.n(rays.w)'
    if okr:
        res.ok('refract(nx, ny, nz, pre.n(w), post.n(w))')
    else:
        res.fail(ctx.finding('SAME-MEDIUM', g, refr[0] if refr else g.node,
                             'refract does not receive n1 = material_pre.n(w), '
                             'n2 = material_post.n(w)',
                             construct='refract indices'))
    # normals from self.geometry.surface_normal(rays), passed in order
    sn = [n for n in ast.walk(g.node) if isinstance(n, ast.Assign) and
          isinstance(n.value, ast.Call) and call_name(n.value) == 'surface_normal']
    okn = False
    if sn and isinstance(sn[0].targets[0], ast.Tuple):
        names = [unparse(x) for x in sn[0].targets[0].elts]
        okn = 'self.geometry' in unparse(sn[0].value.func) and all(
            [unparse(x) for x in c.args[:3]] == names
            for c in ast.walk(g.node) if isinstance(c, ast.Call) and
            call_name(c) in ('refract', 'reflect'))
    if okn:
        res.ok('normals of self.geometry passed in (x, y, z) order')
    else:
        res.fail(ctx.finding('SAME-MEDIUM', g, g.node,
                             'surface normal components are not passed in '
                             'order to refract / reflect',
                             construct='normal argument order'))
    # mirror branch
    ifs = [n for n in ast.walk(g.node) if isinstance(n, ast.If) and
           unparse(n.test) == 'self.is_reflective']
    okm = ifs and any(call_name(c) == 'reflect' for s in ifs[0].body
                      for c in ast.walk(s) if isinstance(c, ast.Call)) and \
        any(call_name(c) == 'refract' for s in ifs[0].orelse
            for c in ast.walk(s) if isinstance(c, ast.Call))
    if okm:
        res.ok('is_reflective -> reflect, else refract')
    else:
        res.fail(ctx.finding('SAME-MEDIUM', g, g.node,
                             'mirror / refraction dispatch broken',
                             construct='reflect/refract dispatch'))
    return res


def nonfinite(ctx):
    P = ctx.P
    res = Result('NONFINITE', 'negative distances are masked to nan/inf, and '
                 'no nan-masking operation sits on the flow from the '
                 'discriminant / radicand to the returned values')
    masks = 0
    # iterated surfaces: the base sphere only supplies the start point; the
    # sign test belongs to the returned distance (nan when the intersection
    # lies behind the ray)
    nrd = P.func('NewtonRaphsonGeometry.distance')
    res.saw(nrd)
    okm = False
    for r_ in ast.walk(nrd.node):
        if isinstance(r_, ast.Return) and isinstance(r_.value, ast.Call) and \
                unparse(r_.value.func) == 'np.where' and \
                len(r_.value.args) == 3 and \
                unparse(r_.value.args[2]) in ('np.nan', 'np.inf'):
            for c_ in ast.walk(r_.value.args[0]):
                if isinstance(c_, ast.Compare) and unparse(c_.left) == \
                        unparse(r_.value.args[1]) and isinstance(
                            c_.ops[0], (ast.Gt, ast.GtE)):
                    v_ = const_of(c_.comparators[0])
                    if v_ is not None and -1e-6 <= float(v_) <= 0:
                        okm = True
    if okm:
        masks += 1
        res.ok('NewtonRaphsonGeometry.distance: t behind the ray (beyond a '
               'rounding tolerance) is returned as nan')
    else:
        res.fail(ctx.finding(
            'NONFINITE', nrd, nrd.node,
            'NewtonRaphsonGeometry.distance does not report an intersection '
            'behind the ray as non-finite',
            construct='NewtonRaphsonGeometry.distance mask t'))
    for q in ('Plane.distance', 'StandardGeometry.distance'):
        f = P.func(q)
        res.saw(f)
        found = []
        for s in _flat(f.node.body):
            if isinstance(s, ast.Assign) and isinstance(s.targets[0],
                                                        ast.Subscript):
                tg = s.targets[0]
                if isinstance(tg.slice, ast.Compare) and \
                        isinstance(tg.slice.ops[0], ast.Lt) and \
                        const_of(tg.slice.comparators[0]) == 0 and \
                        unparse(tg.slice.left) == unparse(tg.value) and \
                        unparse(s.value) in ('np.nan', 'np.inf'):
                    found.append(unparse(tg.value))
        want = ['t'] if q == 'Plane.distance' else ['t1', 't2']
        for w in want:
            if w in found:
                masks += 1
                res.ok(f'{q}: {w}[{w} < 0] masked non-finite')
            else:
                res.fail(ctx.finding('NONFINITE', f, f.node,
                                     f'{q}: intersections behind the ray '
                                     f'({w} < 0) are not masked to a '
                                     f'non-finite value',
                                     construct=f'{q} mask {w}'))
    bad_calls = ('nan_to_num', 'nanmax', 'nanmin', 'nansum', 'isnan',
                 'isfinite', 'real', 'maximum', 'clip', 'abs')
    for q in ('StandardGeometry.distance', 'RealRays.refract',
              'NewtonRaphsonGeometry._intersection_sphere',
              'StandardGeometry.surface_normal'):
        f = P.func(q)
        res.saw(f)
        hit = None
        for c in ast.walk(f.node):
            if isinstance(c, ast.Call) and call_name(c) in bad_calls:
                # a test of a prescription parameter (np.isinf(self.radius))
                # is not on the flow from the radicand
                if c.args and all(
                        isinstance(a_, ast.Attribute) and
                        isinstance(a_.value, ast.Name) and
                        a_.value.id == 'self' for a_ in c.args):
                    continue
                # abs is fine when comparing |z1| <= |z2| (no masking of nan)
                if call_name(c) == 'abs' and isinstance(
                        getattr(c, 'parent', None), ast.Compare):
                    continue
                if call_name(c) == 'abs' and q != 'RealRays.refract':
                    continue
                hit = c
        # sqrt argument wrapped in a guard (np.where(d < 0, 0, d) ...)
        for c in ast.walk(f.node):
            if isinstance(c, ast.Call) and call_name(c) == 'sqrt' and c.args \
                    and isinstance(c.args[0], ast.Call) and \
                    call_name(c.args[0]) in ('where', 'maximum', 'abs', 'clip'):
                hit = c
        if hit is None:
            res.ok(f'{q}: radicand flows unmasked to the result')
        else:
            res.fail(ctx.finding('NONFINITE', f, hit,
                                 'a nan-masking / clamping operation sits on '
                                 'the flow from the radicand to the result: '
                                 'rays without intersection or beyond total '
                                 'internal reflection would become finite'))
    return res


def no_stale(ctx):
    from .common import stale_cache
    return stale_cache(ctx, 'NO-STALE-STATE', ['Plane', 'StandardGeometry', 'NewtonRaphsonGeometry', 'EvenAsphere', 'PolynomialGeometry', 'ChebyshevPolynomialGeometry', 'CoordinateSystem'],
                       'the intersection / normal no longer belongs to the current prescription', min_methods=10)


RECORD_MAP = {'x': 'x', 'y': 'y', 'z': 'z', 'L': 'L', 'M': 'M', 'N': 'N',
              'intensity': 'i', 'opd': 'opd', 'u': 'u'}


def records(ctx):
    P = ctx.P
    res = Result('RECORDS', 'each surface record holds the same-named ray '
                 'quantity; the per-lens record arrays list every surface in '
                 'order; the object surface records the launched rays')
    f = P.func('Surface._record')
    res.saw(f)
    n = 0
    for s_ in ast.walk(f.node):
        if isinstance(s_, ast.Assign) and isinstance(s_.targets[0], ast.Attribute)\
                and isinstance(s_.targets[0].value, ast.Name) and \
                s_.targets[0].value.id == 'self':
            attr = s_.targets[0].attr
            src = [x for x in ast.walk(s_.value) if isinstance(x, ast.Attribute)
                   and isinstance(x.value, ast.Name) and x.value.id == 'rays']
            if attr in RECORD_MAP and len(src) == 1:
                n += 1
                v = s_.value
                fresh = isinstance(v, ast.Call) and (
                    unparse(v.func) in ('np.copy', 'np.array', 'copy.copy',
                                        'copy.deepcopy') or
                    (isinstance(v.func, ast.Attribute) and
                     v.func.attr == 'copy'))
                if src[0].attr == RECORD_MAP[attr] and not fresh:
                    res.fail(ctx.finding(
                        'RECORDS', f, s_,
                        f'the {attr} record aliases the live ray array '
                        f'({unparse(v)}): operations that update the rays in '
                        f'place (reflect, rotate, propagate, clip) rewrite '
                        f'what was recorded at earlier surfaces',
                        construct=f'record {attr} not a copy'))
                elif src[0].attr == RECORD_MAP[attr]:
                    res.ok(f'_record: self.{attr} <- rays.{src[0].attr}')
                else:
                    res.fail(ctx.finding(
                        'RECORDS', f, s_,
                        f'the {attr} record is filled from rays.{src[0].attr} '
                        f'instead of rays.{RECORD_MAP[attr]}',
                        construct=f'record {attr} source'))
    # every arm of _record stores every quantity of its ray type
    for arm, attrs in (('RealRays', ('x', 'y', 'z', 'L', 'M', 'N',
                                     'intensity', 'opd')),
                       ('ParaxialRays', ('y', 'u'))):
        arms = [st for st in ast.walk(f.node) if isinstance(st, ast.If) and
                f'isinstance(rays, {arm})' in unparse(st.test)]
        got_ = set()
        for st in arms[:1]:
            for b in st.body:
                if isinstance(b, ast.Assign) and isinstance(
                        b.targets[0], ast.Attribute):
                    got_.add(b.targets[0].attr)
        miss = [a_ for a_ in attrs if a_ not in got_]
        if not arms or miss:
            res.fail(ctx.finding('RECORDS', f, f.node,
                                 f'_record does not store {miss or attrs} for '
                                 f'{arm}: that record keeps the value of an '
                                 f'earlier trace (or stays empty)',
                                 construct=f'record coverage {arm}'))
        else:
            res.ok(f'_record stores {", ".join(attrs)} for {arm}')
    from ..match import find
    g = P.classes['SurfaceGroup']
    for attr in ('x', 'y', 'z', 'L', 'M', 'N', 'opd', 'u', 'intensity'):
        pr = g.props.get(attr)
        if pr is None:
            raise AnalysisError(f'SurfaceGroup.{attr} not found')
        res.saw(pr)
        pat = (f'np.array([$s.{attr} for $s in self.surfaces '
               f'if $s.{attr}.size > 0])')
        if find(pr, pat):
            res.ok(f'SurfaceGroup.{attr}: every surface, in order')
        else:
            res.fail(ctx.finding(
                'RECORDS', pr, pr.node,
                f'SurfaceGroup.{attr} is not the list of the {attr} records '
                f'of all surfaces in order: record index k no longer means '
                f'surface k', construct=f'SurfaceGroup.{attr} accessor'))
    o = P.func('ObjectSurface.trace')
    res.saw(o)
    ok = False
    for p_ in annotate(P, o, paths(o)):
        seq = [call_attr(e) for e in p_.events if e.kind == 'call']
        ok = 'reset' in seq and '_record' in seq and \
            seq.index('reset') < seq.index('_record') and p_.exit == 'return'
        if not ok:
            break
    rets = [r_ for r_ in ast.walk(o.node) if isinstance(r_, ast.Return)]
    if ok and rets and unparse(rets[0].value) == 'rays':
        res.ok('ObjectSurface.trace: reset, record the launched rays, return '
               'them unchanged')
    else:
        res.fail(ctx.finding('RECORDS', o, o.node,
                             'the object surface does not record the launched '
                             'rays (record index 0 is the launch state)',
                             construct='ObjectSurface.trace record'))
    return res


def scatter_unit(ctx):
    """surface scatter replaces the direction by a unit vector in the
    hemisphere of the surface normal (and touches nothing else)."""
    from ..vec import VecEv, V, dot
    from ..rat import Rat, Sym, ONE as _ONE
    P = ctx.Pall if hasattr(ctx, 'Pall') else ctx.P
    P = ctx.P
    res = Result('SCATTER-UNIT', 'scatter(): the scattered direction is a '
                 'unit vector whose component along the unit surface normal '
                 'is the non-negative root sqrt(1 - sx^2 - sy^2); '
                 'BaseBSDF.scatter writes only the direction cosines')
    f = None
    for g in P.all_funcs():
        if g.cls is None and g.name == 'scatter' and \
                g.module.endswith('scatter.py'):
            f = g
    if f is None:
        raise AnalysisError('scatter() not found')
    res.saw(f)
    A = Rat.atom
    for arb in (True, False):
        sym = Sym()
        sym.rel['nz'] = _ONE - A('nx') * A('nx') - A('ny') * A('ny')

        def scenario(q, arb=arb):
            kind, txt = q
            if kind == 'if' and txt.startswith('L <'):
                return arb
            if kind == 'if' and 'radicand' in txt and '< 0' in txt:
                return False
            return None
        ev = VecEv(sym=sym, scenario=scenario)
        for nm in ('L', 'M', 'N', 'nx', 'ny', 'nz'):
            ev.env[nm] = A(nm)
        ev.opaque_calls['get_point'] = lambda e, ev_: (A('px'), A('py'))
        try:
            ev.run(f.node.body)
        except Inconclusive as e:
            raise AnalysisError(f'scatter(): {e}')
        s_ = ev.returned
        if not isinstance(s_, V):
            raise AnalysisError('scatter(): no vector returned')
        n = V((A('nx'), A('ny'), A('nz')))
        sz = ev.env.get('s_loc_z')
        if sym.eq(dot(s_, s_), _ONE) and sz is not None and \
                sym.eq(dot(s_, n), sz):
            res.ok(f'scatter (reference axis {"x" if arb else "y"}): |s| = 1, '
                   f's . n = +sqrt(radicand)')
        else:
            res.fail(ctx.finding('SCATTER-UNIT', f, f.node,
                                 'the scattered direction is not a unit '
                                 'vector in the hemisphere of the normal',
                                 construct='scatter unit vector'))
    b = P.func('BaseBSDF.scatter')
    res.saw(b)
    stores = sorted({unparse(t) for st in ast.walk(b.node)
                     if isinstance(st, (ast.Assign, ast.AugAssign))
                     for t in (st.targets if isinstance(st, ast.Assign)
                               else [st.target])
                     if isinstance(t, ast.Attribute)})
    from ..match import find_seq
    if stores == ['rays.L', 'rays.M', 'rays.N'] and find_seq(b, [
            '$v = scatter_parallel(rays.L, rays.M, rays.N, nx, ny, nz, '
            'self.scattering_function)', 'rays.L = $v[:, 0]',
            'rays.M = $v[:, 1]', 'rays.N = $v[:, 2]']):
        res.ok('BaseBSDF.scatter: direction components taken in order from '
               'the scattered vectors; nothing else written')
    else:
        res.fail(ctx.finding('SCATTER-UNIT', b, b.node,
                             f'BaseBSDF.scatter writes {stores}',
                             construct='BaseBSDF.scatter stores'))
    sp = None
    for g in P.all_funcs():
        if g.cls is None and g.name == 'scatter_parallel':
            sp = g
    if sp is None:
        raise AnalysisError('scatter_parallel not found')
    res.saw(sp)
    from ..match import find
    if find(sp, '$v[$i] = scatter(L[$i], M[$i], N[$i], nx[$i], ny[$i], '
                'nz[$i], get_point)'):
        res.ok('scatter_parallel: ray i gets its own direction and normal')
    else:
        res.fail(ctx.finding('SCATTER-UNIT', sp, sp.node,
                             'scatter_parallel mixes rays',
                             construct='scatter_parallel indexing'))
    return res


def c01_media_chain(ctx):
    """shared with C01: the prescription this property reads (media on both
    sides of each surface, placement and tilt of the surface frames) is the
    one the editing API was given."""
    from .C01 import media_chain as _r
    return _r(ctx)


def newton_unconverged(ctx):
    """'rays with no intersection ... are reported as non-finite, never as
    finite numbers': the iterative solver runs a fixed number of steps; a ray
    whose residual is still above the tolerance afterwards has no valid
    intersection and must not be returned as one"""
    P = ctx.P
    res = Result('NEWTON-UNCONVERGED', 'after the last iteration rays whose '
                 'residual exceeds the tolerance are marked non-finite')
    f = P.func('NewtonRaphsonGeometry.distance')
    res.saw(f)
    loops = [i for i, st in enumerate(f.node.body)
             if isinstance(st, (ast.For, ast.While))]
    if not loops:
        raise AnalysisError('NewtonRaphsonGeometry.distance: loop not found')
    after = f.node.body[loops[-1] + 1:]
    # names that carry "residual compared with the tolerance" after the loop,
    # with polarity: True = the ray converged, False = it did not
    flags, resid = {}, set()

    def _names(n):
        return {x.id for x in ast.walk(n) if isinstance(x, ast.Name)}

    def _polarity(e):
        """+1 converged / -1 unconverged / None for a boolean expression"""
        if isinstance(e, ast.Name):
            return flags.get(e.id)
        if isinstance(e, ast.UnaryOp) and isinstance(e.op, (ast.Invert,
                                                            ast.Not)):
            p = _polarity(e.operand)
            return -p if p else None
        if isinstance(e, ast.BinOp) and isinstance(e.op, ast.BitAnd):
            # converged & (another requirement): still 'converged' rays only
            a_, b_ = _polarity(e.left), _polarity(e.right)
            if 1 in (a_, b_) and -1 not in (a_, b_):
                return 1
            return None
        if isinstance(e, ast.BoolOp) and isinstance(e.op, ast.And):
            ps = [_polarity(v) for v in e.values]
            if 1 in ps and -1 not in ps:
                return 1
            return None
        if isinstance(e, ast.Compare) and len(e.ops) == 1:
            l, r = e.left, e.comparators[0]
            lt = 'tol' in unparse(l)
            rt = 'tol' in unparse(r)
            other = r if lt else l
            if lt == rt or not (_names(other) & resid or
                                'sag(' in unparse(other)):
                return None
            small = isinstance(e.ops[0], (ast.Lt, ast.LtE))
            big = isinstance(e.ops[0], (ast.Gt, ast.GtE))
            if not (small or big):
                return None
            if lt:                      # tol > |res|  <=>  |res| < tol
                small, big = big, small
            return 1 if small else -1
        return None

    masked = False
    for st in after:
        if isinstance(st, ast.Assign) and len(st.targets) == 1 and \
                isinstance(st.targets[0], ast.Name):
            if 'sag(' in unparse(st.value) or _names(st.value) & resid:
                resid.add(st.targets[0].id)
            p = _polarity(st.value)
            if p:
                flags[st.targets[0].id] = p
        for c in ast.walk(st):
            if isinstance(c, ast.Call) and unparse(c.func) == 'np.where' and \
                    len(c.args) == 3:
                p = _polarity(c.args[0])
                bad = {1: c.args[2], -1: c.args[1]}.get(p)
                if bad is not None and unparse(bad) in ('np.nan', 'np.inf'):
                    masked = True
        if isinstance(st, ast.Assign) and isinstance(st.targets[0],
                                                     ast.Subscript) and \
                unparse(st.value) in ('np.nan', 'np.inf') and \
                _polarity(st.targets[0].slice) == -1:
            masked = True
    if masked:
        res.ok('unconverged rays are masked after the loop')
    else:
        res.fail(ctx.finding(
            'NEWTON-UNCONVERGED', f, f.node.body[loops[-1]],
            'NewtonRaphsonGeometry.distance returns the iterate of every ray '
            'after max_iter steps (or when the batch maximum converged) '
            'without looking at its own residual: where the fixed-point step '
            'dz / N stalls (steep asphere, oblique ray) the recorded point '
            'is millimetres off the surface and still finite',
            construct='no convergence check after the iteration'))
    return res


def const_str(n):
    return n.value if isinstance(n, ast.Constant) and \
        isinstance(n.value, str) else None


def flat_base(ctx):
    """'each valid ray's recorded intersection point lies on that surface's
    prescribed shape' for even asphere, polynomial and Chebyshev surfaces:
    their documented default base radius is infinite, so the start point of
    the iteration, the sag and the normal must be finite numbers for
    radius = inf.  Decided in the domain {FIN, INF, NAN} (sa/infdom.py)."""
    from ..infdom import InfEv, FIN, INF
    P = ctx.P
    res = Result('FLAT-BASE', 'start point, sag and normal of the iterated '
                 'surfaces are finite for an infinite base radius (the '
                 'factory default)')
    fac = [f for f in P.all_funcs()
           if f.qual.startswith('SurfaceFactory._configure_') and
           'geometry' in f.qual]
    n_def = 0
    for f in fac:
        for c in ast.walk(f.node):
            if isinstance(c, ast.Call) and isinstance(c.func, ast.Attribute) \
                    and c.func.attr == 'get' and len(c.args) == 2 and \
                    const_str(c.args[0]) == 'radius' and \
                    unparse(c.args[1]) == 'np.inf':
                n_def += 1
    res.ok(f'{n_def} factory branches default the base radius to np.inf')

    def choose(test):
        src = unparse(test)
        if isinstance(test, ast.UnaryOp) and isinstance(test.op, ast.Not):
            d = choose(test.operand)
            return None if d is None else not d
        if 'self.radius' in src and 'isinf' in src:
            return True
        if 'self.radius' in src and 'isfinite' in src:
            return False
        if isinstance(test, ast.Compare) and len(test.ops) == 1 and \
                {unparse(test.left), unparse(test.comparators[0])} == \
                {'self.radius', 'np.inf'}:
            return isinstance(test.ops[0], ast.Eq)
        return None

    def all_fin(v):
        if isinstance(v, tuple):
            return all(all_fin(x) for x in v)
        return v == FIN

    targets = [('NewtonRaphsonGeometry._intersection_sphere', {})]
    for cls in ('EvenAsphere', 'PolynomialGeometry',
                'ChebyshevPolynomialGeometry'):
        for m in ('sag', '_surface_normal'):
            q = f'{cls}.{m}'
            if P.has(q):
                targets.append((q, {'x': FIN, 'y': FIN}))
    for q, env in targets:
        f = P.func(q)
        res.saw(f)
        ev = InfEv(attr={'self.radius': INF}, env=dict(env), choose=choose)
        try:
            ev.run(f.node.body)
        except Inconclusive as e:
            raise AnalysisError(f'FLAT-BASE {q}: {e}')
        if ev.returned is None:
            raise AnalysisError(f'FLAT-BASE {q}: no return')
        if all_fin(ev.returned):
            res.ok(f'{q}: finite for radius = inf')
        else:
            res.fail(ctx.finding(
                'FLAT-BASE', f, f.node,
                f'{q} evaluates to {ev.returned} for radius = inf (inf - inf '
                f'or inf / inf): a surface on a flat base - the default of '
                f'even asphere, polynomial and Chebyshev surfaces - turns '
                f'every ray into NaN',
                construct=f'{q} with an infinite base radius'))
    res.require(4)
    return res


def quadratic_stable(ctx):
    """'each valid ray's recorded intersection point lies on that surface's
    prescribed shape' for conics with any k: the leading coefficient of the
    ray-conic quadratic, a = 1 + k N^2, tends to 0 for a paraboloid hit by
    rays nearly parallel to its axis.  Computing both roots as
    (-b +- sqrt(d)) / (2 a) subtracts two numbers that agree in almost all
    digits and divides the rounding error by the tiny 2a.  Structural rule:
    where a depends on the conic constant, the roots must come from the
    cancellation-free form q = -(b + sgn(b) sqrt(d)) / 2, t1 = q / a,
    t2 = c / q (or an equivalent that never forms -b + sgn(b) sqrt(d))."""
    from ..match import find, parse, match
    P = ctx.P
    res = Result('QUADRATIC-STABLE', 'the conic intersection does not form '
                 '-b + sgn(b) sqrt(b^2 - 4ac) when the leading coefficient '
                 'can vanish (k = -1)')
    f = P.func('StandardGeometry.distance')
    res.saw(f)
    defs = {}
    for st in sorted((n_ for n_ in ast.walk(f.node)
                      if isinstance(n_, ast.Assign)), key=lambda n_: n_.lineno):
        if len(st.targets) == 1 and isinstance(st.targets[0], ast.Name):
            defs.setdefault(st.targets[0].id, st.value)    # first in the text
    a_def = defs.get('a')
    if a_def is None:
        raise AnalysisError('StandardGeometry.distance: coefficient a not '
                            'found')
    a_vanishes = 'self.k' in unparse(a_def)
    naive = []
    for nm in ('t1', 't2'):
        v = defs.get(nm)
        if v is None:
            continue
        for pat in ('(-$B + np.sqrt($D)) / (2 * $A)',
                    '(-$B - np.sqrt($D)) / (2 * $A)'):
            b_ = match(parse(pat), v, {})
            if b_ and unparse(b_['A']) == 'a':
                naive.append(nm)
    if a_vanishes and len(naive) == 2:
        res.fail(ctx.finding(
            'QUADRATIC-STABLE', f, defs['t1'],
            'both roots are computed as (-b +- sqrt(d)) / (2a) with '
            'a = 1 + k N^2: for a paraboloid (k = -1) and a field angle of '
            '1e-3 deg the recorded point leaves the surface by 4.9e-4 mm '
            '(0.9 waves of OPD), for 1e-5 deg by 5.5 mm; the bundled '
            'HubbleTelescope (k = -1.0023) carries 1.1e-9 mm',
            construct='textbook quadratic with vanishing leading '
                      'coefficient'))
    else:
        res.ok('roots of the conic quadratic are not formed by the '
               'cancelling difference')
    return res


def lossless_without_k(ctx):
    """quantifier 'ideal and catalogue media': many catalogue files give a
    dispersion formula and no extinction table; MaterialFile.k raises for
    them (pinned by the unit tests), so the bulk-absorption step of the trace
    must treat 'no data' as lossless instead of aborting the trace."""
    from .C18 import _scan_data
    P = ctx.P
    res = Result('NO-K-DATA', 'media without extinction data can be traced: '
                 'the absorption step catches the ValueError of '
                 'MaterialFile.k (or k() does not raise)')
    rows, files, types, counts, per_file, missing = _scan_data(ctx)
    nok = [fn for fn, ts in per_file.items()
           if any(t.startswith('formula') or t == 'tabulated n' for t in ts)
           and not any(t in ('tabulated k', 'tabulated nk') for t in ts)]
    res.ok(f'{len(nok)} of {len(per_file)} catalogue files define an index '
           f'relation and no extinction table')
    mk = P.func('MaterialFile.k')
    pr = P.func('RealRays.propagate')
    res.saw(mk), res.saw(pr)
    raises = any(isinstance(n, ast.Raise) for n in ast.walk(mk.node))
    guarded = False
    for n in ast.walk(pr.node):
        if isinstance(n, ast.Try) and any(
                isinstance(c, ast.Call) and isinstance(c.func, ast.Attribute)
                and c.func.attr == 'k' for b in n.body for c in ast.walk(b)):
            for h in n.handlers:
                names = []
                if h.type is None:
                    names = ['*']
                elif isinstance(h.type, ast.Tuple):
                    names = [unparse(x) for x in h.type.elts]
                else:
                    names = [unparse(h.type)]
                zero = any(isinstance(st, ast.Assign) and
                           const_of(st.value) == 0 for st in h.body)
                if set(names) & {'ValueError', 'Exception', '*'} and zero:
                    guarded = True
    if not nok or not raises or guarded:
        res.ok('the trace does not abort on media without extinction data')
    else:
        res.fail(ctx.finding(
            'NO-K-DATA', pr, pr.node,
            f'RealRays.propagate calls material.k() unconditionally and '
            f'MaterialFile.k raises ValueError when the file has no '
            f'extinction table ({len(nok)} catalogue files, e.g. '
            f'{sorted(nok)[0]}): Optic.trace raises for every lens that '
            f'contains such a glass (bundled TelescopeObjective48Inch: '
            f'CaF2 Daimon-20)',
            construct='trace aborts on media without extinction data'))
    return res


# META update: declined clause 'Newton-Raphson convergence' re-worded
META['declined'] = [
    'whether the surface iteration converges and how fast (that unconverged rays are reported non-finite is decided: NEWTON-UNCONVERGED; that start point, sag and normal survive a flat base: FLAT-BASE)' if _d.startswith('Newton-Raphson convergence') else _d
    for _d in META['declined']]


def conic_branch(ctx):
    """'each valid ray's recorded intersection point lies on that surface's
    prescribed shape': the sag z = r^2 / (R (1 + sqrt(1 - (1+k) r^2/R^2)))
    describes one branch of the conic (the near half of an ellipsoid, the
    near sheet of a hyperboloid), on which 1 - (1+k) z / R >= 0.  Both roots
    of the quadratic must be tested against it before one is selected."""
    P = ctx.P
    res = Result('CONIC-BRANCH', 'StandardGeometry.distance discards roots '
                 'off the branch of the conic that the sag describes, before '
                 'selecting the root')
    f = P.func('StandardGeometry.distance')
    res.saw(f)
    sym = Sym()
    want_of = {}
    found = {}
    sel_line = None
    for st in ast.walk(f.node):
        if isinstance(st, ast.Assign) and isinstance(st.targets[0], ast.Name) \
                and st.targets[0].id == 't' and isinstance(st.value, ast.Call) \
                and unparse(st.value.func) == 'np.where':
            sel_line = st.lineno
    for st in ast.walk(f.node):
        if not (isinstance(st, ast.Assign) and isinstance(
                st.targets[0], ast.Name) and st.targets[0].id in ('t1', 't2')
                and isinstance(st.value, ast.Call) and
                unparse(st.value.func) == 'np.where' and
                len(st.value.args) == 3):
            continue
        nm = st.targets[0].id
        cond, a1, a2 = st.value.args
        if not (unparse(a1) in ('np.inf', 'np.nan') and unparse(a2) == nm):
            continue
        if not (isinstance(cond, ast.Compare) and
                isinstance(cond.ops[0], (ast.Lt, ast.LtE))):
            continue
        lim = const_of(cond.comparators[0])
        if lim is None or not (-1e-6 <= float(lim) <= 0):
            continue
        ev = Ev(sym=sym)
        z = A('Z' + nm[1])
        ev.env['z' + nm[1]] = z
        try:
            lhs = ev.ev(cond.left)
        except Inconclusive:
            continue
        want = ONE - (ONE + A('self.k')) * z / A('self.radius')
        if rat_eq(lhs, want) and (sel_line is None or st.lineno < sel_line):
            found[nm] = st
    # the z used for the branch test and for the selection is the z of the
    # ray at that root: z_i = rays.z + t_i rays.N (last definition before the
    # selection), and the selection takes the root with the smaller |z|
    zdefs = {'z1': [], 'z2': []}
    for st in ast.walk(f.node):
        if isinstance(st, ast.Assign) and isinstance(
                st.targets[0], ast.Name) and st.targets[0].id in zdefs:
            zdefs[st.targets[0].id].append(st.value)
    okz = all(zdefs.values())
    for i_ in '12':
        for v_ in zdefs['z' + i_]:      # every definition (branch test, pick)
            try:
                got = Ev(sym=sym, env={'t' + i_: A('T' + i_)}).ev(v_)
            except Inconclusive:
                got = None
            if got is None or not rat_eq(got, A('rays.z') + A('T' + i_) *
                                         A('rays.N')):
                okz = False
    sel = [st for st in ast.walk(f.node) if isinstance(st, ast.Assign) and
           isinstance(st.targets[0], ast.Name) and st.targets[0].id == 't' and
           isinstance(st.value, ast.Call) and
           unparse(st.value.func) == 'np.where']
    oks = bool(sel) and unparse(sel[0].value).replace(' ', '') in (
        'np.where(np.abs(z1)<=np.abs(z2),t1,t2)',
        'np.where(np.abs(z1)<np.abs(z2),t1,t2)',
        'np.where(np.abs(z2)<np.abs(z1),t2,t1)',
        'np.where(np.abs(z2)<=np.abs(z1),t2,t1)')
    if okz and oks:
        res.ok('z_i = z + t_i N; the root nearer the vertex plane is taken')
    else:
        res.fail(ctx.finding(
            'CONIC-BRANCH', f, f.node,
            'the z of the ray at the two roots is not rays.z + t_i rays.N, '
            'or the selection does not take the root with the smaller |z|: '
            'the wrong intersection of the conic is recorded',
            construct='root selection by |z|'))
    # a = 0 (paraboloid, ray parallel to the axis): the quadratic degenerates
    # to b t + c = 0 and both roots above are nan; the linear solution has to
    # be written for those rays
    lin_arm = [st for st in ast.walk(f.node) if isinstance(st, ast.Assign) and
               isinstance(st.targets[0], ast.Subscript) and
               unparse(st.targets[0].value) == 't' and
               'a==0' in unparse(st.targets[0].slice).replace(' ', '')]
    if lin_arm:
        res.ok('a == 0: linear solution written (its value is checked by '
               'ON-SURFACE)')
    else:
        res.fail(ctx.finding(
            'CONIC-BRANCH', f, f.node,
            'no branch for a = 0: a ray parallel to the axis of a paraboloid '
            '(k = -1) makes the quadratic linear, (-b +- sqrt(d)) / (2a) is '
            '0/0 and the ray is lost', construct='a == 0 arm missing'))
    if set(found) == {'t1', 't2'}:
        res.ok('t1, t2 with 1 - (1 + k) z / R < 0 are set to inf before the '
               'root nearest the vertex plane is taken')
    else:
        res.fail(ctx.finding(
            'CONIC-BRANCH', f, f.node,
            'the root with the smaller |z| is taken without a test that it '
            'lies on the branch the sag describes: a steep ray on an '
            'ellipsoid / hyperboloid is recorded on the far half / second '
            'sheet (hyperboloid R = 10, k = -5, 45 deg ray: (11.31, -8.69) '
            'instead of (35.35, 15.35); UVReflectingMicroscope: 48 of 217 '
            'axial rays 4.07 mm off surface 7)',
            construct='root selection ignores the conic branch'))
    return res


def chebyshev_edge(ctx):
    """the Chebyshev surface admits |x| = norm_x (the domain check is
    inclusive): T_n'(x) = n sin(n acos x) / sqrt(1 - x^2) is 0/0 there, the
    limit is (+-1)^(n+1) n^2"""
    from ..match import find
    P = ctx.P
    res = Result('CHEBYSHEV-EDGE', 'the Chebyshev derivative is defined on '
                 'the closed domain the validity check admits')
    f = P.func('ChebyshevPolynomialGeometry._chebyshev_derivative')
    v = P.func('ChebyshevPolynomialGeometry._validate_inputs')
    res.saw(f), res.saw(v)
    inclusive = not any(isinstance(c, ast.Compare) and isinstance(
        c.ops[0], (ast.GtE, ast.LtE)) and '1' in unparse(c)
        for c in ast.walk(v.node))
    divides = any(isinstance(b, ast.BinOp) and isinstance(b.op, ast.Div) and
                  'sqrt' in unparse(b.right) or
                  (isinstance(b, ast.BinOp) and isinstance(b.op, ast.Div) and
                   isinstance(b.right, ast.Name))
                  for b in ast.walk(f.node))
    edge = [c for c in ast.walk(f.node) if isinstance(c, ast.Call) and
            unparse(c.func) == 'np.where' and len(c.args) == 3 and
            isinstance(c.args[0], ast.Compare)]
    ok_edge = False
    for c in edge:
        lim = unparse(c.args[1]).replace(' ', '')
        if lim in ('np.sign(x)**(n+1)*n**2', 'n**2*np.sign(x)**(n+1)',
                   'x**(n+1)*n**2', 'n**2*x**(n+1)'):
            ok_edge = True
    if not inclusive or not divides or ok_edge:
        res.ok("T_n'(+-1) = (+-1)^(n+1) n^2 at the edge of the domain")
    else:
        res.fail(ctx.finding(
            'CHEBYSHEV-EDGE', f, f.node,
            "_chebyshev_derivative divides by sqrt(1 - x^2), which is 0 at "
            "|x| = 1 - points the domain check admits (Py = +-1 ends of a "
            "fan, marginal rays when the normalisation radius equals the "
            "semi-aperture): the normal and the outgoing direction are nan",
            construct='Chebyshev derivative at the domain edge'))
    return res


def contact_tolerance(ctx):
    """sequential tracing allows coincident surfaces (a stop on a lens face,
    a zero air gap): the distance to the next surface is then 0 up to
    rounding, of either sign.  The 'behind the ray' masks (t < 0 -> nan / inf)
    must not act on rounding noise: either t is snapped to 0 inside a
    tolerance before the mask, or the mask compares with a negative
    tolerance."""
    P = ctx.P
    res = Result('CONTACT-TOLERANCE', 'a ray that already lies on the next '
                 'surface (|t| below a rounding tolerance) is not discarded '
                 'as lying behind the ray')
    for q, names in (('Plane.distance', ['t']),
                     ('StandardGeometry.distance', ['t1', 't2'])):
        f = P.func(q)
        res.saw(f)
        stmts = sorted((n_ for n_ in ast.walk(f.node)
                        if isinstance(n_, ast.Assign)),
                       key=lambda n_: n_.lineno)
        for nm in names:
            mask = [st for st in stmts if isinstance(
                st.targets[0], ast.Subscript) and
                unparse(st.targets[0].value) == nm and isinstance(
                    st.targets[0].slice, ast.Compare) and
                isinstance(st.targets[0].slice.ops[0], (ast.Lt, ast.LtE))]
            if not mask:
                res.ok(f'{q}: no sign mask on {nm}')
                continue
            m0 = mask[0]
            lim = const_of(m0.targets[0].slice.comparators[0])
            tolerant = lim is not None and float(lim) < 0
            snapped = any(
                st.lineno < m0.lineno and isinstance(st.targets[0], ast.Name)
                and st.targets[0].id == nm and isinstance(st.value, ast.Call)
                and unparse(st.value.func) == 'np.where' and
                len(st.value.args) == 3 and
                f'np.abs({nm})' in unparse(st.value.args[0]) and
                const_of(st.value.args[1]) == 0 and
                unparse(st.value.args[2]) == nm for st in stmts)
            if tolerant or snapped:
                res.ok(f'{q}: rounding noise in {nm} is not "behind the ray"')
            else:
                res.fail(ctx.finding(
                    'CONTACT-TOLERANCE', f, m0,
                    f'{q} discards {nm} < 0 exactly: on a surface coincident '
                    f'with the previous one {nm} is +-1e-16, and the rays '
                    f'with a negative rounding error are lost (contact '
                    f'doublet with zero air gap: 12 of 127 rays; stop on a '
                    f'tilted plate face: 24 of 127) or sent to the far side '
                    f'of the sphere',
                    construct=f'{q}: exact sign mask on {nm}'))
    return res



def c01_setters(ctx):
    """shared with C01: the editing operations leave the geometry object that
    carries the prescribed shape (a radius edit does not replace an asphere
    by a plane) - the traced surface is the prescribed one"""
    from .C01 import setter_writes as _r
    return _r(ctx)

RULES = [c01_setters, contact_tolerance, conic_branch, chebyshev_edge, lossless_without_k, quadratic_stable, flat_base, newton_unconverged, c01_media_chain, no_stale, records, scatter_unit, snell_law, reflect_law, align_normal, on_surface, normal_gradient,
         frames, trace_order, same_medium, nonfinite]

"""C09 -- reported OPD is the path difference to the chief-ray reference sphere."""
import ast
from ..core import Result
from ..pm import AnalysisError, unparse
from ..match import Code
from ..paths import paths, annotate, callee_names, call_attr
from ..rat import (Ev, Rat, Sym, Poly, fn_eval, rat_eq, Inconclusive, ONE,
                   ZERO, const_of)

META = {
    'explanation': (
        'OPD-FORMULA: the value returned per pupil sample is (reference path - '
        'ray path) / (wavelength * 1e-3) in normal form, with the intensity '
        'record next to it. SPHERE-ID: the quadratic solved for the distance '
        'from the image point back to the reference sphere has the '
        'coefficients of |p + t d - c|^2 - R^2 with d the reversed ray '
        'direction, both branches are roots, R^2 = xc^2+yc^2+(zc-pupil_z)^2, '
        'pupil_z = XPL + image vertex. PATH: path length = recorded optical '
        'path at the image surface minus that distance. SAME-PIPELINE / '
        'CHIEF-FIRST (paths): chief ray traced alone, sphere and reference '
        'path derived from it before the pupil trace, reference and sample go '
        'through the same two functions with the same sphere; single-ray '
        'guard. CONSUMERS: rms / fans / rms-vs-field / operand read data[i][j]'
        '[0] and rms is sqrt(mean(x^2)).'),
    'declined': ['tilt correction for arbitrary field angle and finite '
                 'objects (numeric)', 'choice between the two sphere roots',
                 'Gaussian-quadrature weights'],
    'trusted': ['ring axioms, sqrt(d)^2 = d', 'surface record layout '
                '[surface, ray]'],
}

A = Rat.atom
C = Rat.const


def _wf(P):
    if 'Wavefront' not in P.classes:
        raise AnalysisError('Wavefront not found')
    return P.classes['Wavefront']


def _method_calling(c, name):
    out = [m for m in c.methods.values() if any(
        isinstance(n, ast.Call) and isinstance(n.func, ast.Attribute) and
        n.func.attr == name for n in ast.walk(m.node))]
    return out


def opd_formula(ctx):
    P = ctx.P
    res = Result('OPD-FORMULA', 'OPD = (reference path - ray path) / '
                 '(wavelength[um] * 1e-3) and the intensity record',
                 level='proof')
    c = _wf(P)
    # the per-field function: the one that calls optic.trace and returns a pair
    cands = [m for m in c.methods.values() if any(
        isinstance(n, ast.Call) and unparse(n.func) == 'self.optic.trace'
        for n in ast.walk(m.node))]
    if not cands:
        raise AnalysisError('Wavefront: no method traces the pupil rays')
    f = cands[0]
    res.saw(f)
    got = {}

    def inline(call, ev):
        nm = call.func.attr if isinstance(call.func, ast.Attribute) else None
        if nm == 'trace':
            got['trace_args'] = [unparse(a) for a in call.args]
            return ZERO
        if nm is not None and isinstance(call.func.value, ast.Name) and \
                call.func.value.id == 'self':
            got.setdefault('calls', []).append((nm, [unparse(a)
                                                     for a in call.args]))
            if len(got['calls']) == 1:
                return A('PATH')
            return A('PATH_TILT') if call.args and \
                unparse(call.args[-1]) == 'opd' or (
                    len(call.args) > 1 and unparse(call.args[1]) == 'opd') \
                else A('PATH2')
        return None
    ev = Ev(inline=inline)
    for p in f.params:
        ev.env[p] = A(p)
    try:
        ev.run(f.node.body)
    except Inconclusive as e:
        raise AnalysisError(f'{f.qual} outside fragment: {e}')
    out = ev.returned
    if not (isinstance(out, tuple) and len(out) == 2):
        raise AnalysisError(f'{f.qual}: does not return (opd, intensity)')
    opd_final = ev.env.get('opd')
    ref = [p for p in f.params if 'ref' in p]
    wl = [p for p in f.params if 'wave' in p]
    if not ref or not wl:
        raise AnalysisError(f'{f.qual}: parameters changed')
    want = (A(ref[0]) - opd_final) / (A(wl[0]) * Rat.const('0.001'))
    if rat_eq(out[0], want):
        res.ok('opd_waves == (opd_ref - opd) / (wavelength * 1e-3)')
    else:
        res.fail(ctx.finding(
            'OPD-FORMULA', f, f.node,
            f'reported OPD is {out[0]}, expected (reference path - ray path)/'
            f'(wavelength in mm)', construct='OPD formula'))
    if 'intensity[-1' in repr(out[1]).replace(' ', '') or \
            'intensity' in repr(out[1]):
        res.ok('second element: image-surface intensity record')
    else:
        res.fail(ctx.finding('OPD-FORMULA', f, f.node,
                             'the intensity returned with the OPD is not the '
                             'image-surface intensity record',
                             construct='OPD intensity'))
    # the pupil rays are the samples of THIS object's distribution (the same
    # object the tilt correction and the consumers read x / y from)
    tcalls = [c_ for c_ in ast.walk(f.node) if isinstance(c_, ast.Call) and
              unparse(c_.func) == 'self.optic.trace']
    ta = [unparse(a) for a in tcalls[0].args] if tcalls else []
    kw = {k.arg: unparse(k.value) for k in tcalls[0].keywords} if tcalls else {}
    # Optic.trace(Hx, Hy, wavelength, num_rays, distribution); *field = 2 args
    pos = 4 - (1 if ta and ta[0].startswith('*') else 0)
    dist = ta[pos] if len(ta) > pos else kw.get('distribution')
    if ta and ta[0] == '*field' and wl[0] in ta and \
            dist == 'self.distribution':
        res.ok('pupil rays: optic.trace(*field, wavelength, ., '
               'self.distribution)')
    else:
        res.fail(ctx.finding(
            'OPD-FORMULA', f, tcalls[0] if tcalls else f.node,
            f'the pupil trace receives distribution={dist} instead of this '
            f'object\'s own sampling object: the rays traced are not the '
            f'documented pupil samples that the tilt correction, maps and fits '
            f'use (they differ for unseeded random sampling)',
            construct='pupil trace distribution argument'))
    return res


def sphere(ctx):
    P = ctx.P
    res = Result('SPHERE-ID', 'distance from the image point back to the '
                 'reference sphere solves |p + t d - c|^2 = R^2 with d the '
                 'reversed ray direction; R reaches the axial exit-pupil '
                 'point; pupil_z = XPL + image vertex', level='proof')
    c = _wf(P)
    # the method that solves the quadratic: has locals a, b, c
    qf = None
    for m in c.methods.values():
        names = {t.id for n in ast.walk(m.node) if isinstance(n, ast.Assign)
                 for t in n.targets if isinstance(t, ast.Name)}
        if {'a', 'b', 'c'} <= names:
            qf = m
    if qf is None:
        raise AnalysisError('Wavefront: quadratic method not found')
    res.saw(qf)
    sym = Sym()
    ev = Ev(sym=sym)
    for p in qf.params:
        ev.env[p] = A(p)
    masked = None
    for s in qf.node.body:
        if isinstance(s, ast.Assign) and isinstance(s.targets[0], ast.Subscript)\
                and isinstance(s.targets[0].value, ast.Name):
            try:
                masked = ev.ev(s.value)
            except Inconclusive as e:
                raise AnalysisError(f'{qf.qual}: masked arm: {e}')
            continue
        if isinstance(s, ast.Return):
            break
        try:
            ev.stmt(s)
        except Inconclusive as e:
            raise AnalysisError(f'{qf.qual} outside fragment: {e}')
    E = ev.env
    need = ['a', 'b', 'c', 't']
    if any(k not in E for k in need):
        raise AnalysisError(f'{qf.qual}: locals a, b, c, t not found')
    sg = 'self.optic.surface_group.'
    px, py, pz = A(sg + 'x[-1,:]'), A(sg + 'y[-1,:]'), A(sg + 'z[-1,:]')
    # direction of the ray ARRIVING at the image surface: the record of the
    # surface before it (the image surface's own record is the direction
    # after it, refracted into its post medium)
    dx, dy, dz = -A(sg + 'L[-2,:]'), -A(sg + 'M[-2,:]'), -A(sg + 'N[-2,:]')
    cx, cy, cz, R = (A(p) for p in qf.params[:4])
    t = A('t')
    F = (px + t * dx - cx) ** 2 + (py + t * dy - cy) ** 2 + \
        (pz + t * dz - cz) ** 2 - R * R
    quad = E['a'] * t * t + E['b'] * t + E['c']
    if rat_eq(quad, F):
        res.ok('a t^2 + b t + c == |p - t (L,M,N) - c|^2 - R^2')
    else:
        res.fail(ctx.finding(
            'SPHERE-ID', qf, qf.node,
            'the quadratic for the distance back to the reference sphere is '
            'not |p + t d - centre|^2 - R^2 with d the reversed direction of '
            'the ray arriving at the image surface (record [-2])',
            construct='sphere quadratic'))
    for name, val in (('t', E['t']), ('masked t', masked)):
        if val is None:
            continue
        if sym.is_zero(E['a'] * val * val + E['b'] * val + E['c']):
            res.ok(f'{name} is a root of the quadratic')
        else:
            res.fail(ctx.finding('SPHERE-ID', qf, qf.node,
                                 f'{name} does not solve the quadratic',
                                 construct=f'sphere root {name}'))
    if masked is not None and sym.eq(E['t'] + masked, -E['b'] / E['a']):
        res.ok('the two arms are the two distinct roots')
    # what is returned is an OPTICAL length: n(image space) * t
    rets = [s_ for s_ in qf.node.body if isinstance(s_, ast.Return)]

    def inl_n(call, ev_):
        fn = call.func
        if isinstance(fn, ast.Attribute) and fn.attr == 'n' and \
                'image_surface.material_pre' in unparse(fn.value):
            return A('N_IMAGE')
    okn = False
    if rets:
        ev.inline = inl_n
        try:
            rv = ev.ev(rets[0].value)
            ncall = [a_ for a_, d_ in sym.defs.items()
                     if d_[0].startswith('call:') and d_[0].endswith(
                         'image_surface.material_pre.n')]
            okn = rat_eq(rv, A('N_IMAGE') * E['t']) or (
                len(ncall) == 1 and rat_eq(rv, A(ncall[0]) * E['t']))
        except Inconclusive:
            okn = False
    if okn:
        res.ok('returned leg = n(image medium) * t')
    else:
        res.fail(ctx.finding(
            'SPHERE-ID', qf, rets[0] if rets else qf.node,
            'the leg from the image surface back to the reference sphere is '
            'returned as a geometric length: in an image space of index n it '
            'must count n times',
            construct='sphere leg optical length'))
    # reference sphere
    rf = None
    for m in c.methods.values():
        if any(isinstance(n, ast.Raise) for n in ast.walk(m.node)) and \
                'pupil_z' in m.params:
            rf = m
    if rf is None:
        raise AnalysisError('Wavefront: reference sphere method not found')
    res.saw(rf)
    sym2 = Sym()
    ev2 = fn_eval(P, rf, [A('pupil_z')], sym=sym2)
    out = ev2.returned
    if not (isinstance(out, tuple) and len(out) == 4):
        raise AnalysisError(f'{rf.qual}: does not return (xc, yc, zc, R)')
    xc, yc, zc, Rr = out
    okc = rat_eq(xc, px) and rat_eq(yc, py) and rat_eq(zc, pz)
    if okc:
        res.ok('sphere centre = image-surface intersection of the traced ray')
    else:
        res.fail(ctx.finding('SPHERE-ID', rf, rf.node,
                             'sphere centre is not the (x, y, z) record of the '
                             'image surface', construct='sphere centre'))
    if sym2.eq(Rr * Rr, xc * xc + yc * yc + (zc - A('pupil_z')) ** 2):
        res.ok('R^2 == xc^2 + yc^2 + (zc - pupil_z)^2')
    else:
        res.fail(ctx.finding('SPHERE-ID', rf, rf.node,
                             'sphere radius does not reach the axial '
                             'exit-pupil point', construct='sphere radius'))
    guard = [n for n in ast.walk(rf.node) if isinstance(n, ast.If) and
             any(isinstance(b, ast.Raise) for b in n.body)]
    if guard and 'size != 1' in unparse(guard[0].test) and \
            rf.node.body.index(guard[0]) <= 1:
        res.ok('single-ray guard precedes the reads')
    else:
        res.fail(ctx.finding('SPHERE-ID', rf, rf.node,
                             'the chief ray is not required to be traced '
                             'alone', construct='single-ray guard'))
    # pupil_z
    gd = [m for m in c.methods.values() if any(
        isinstance(n, ast.Assign) and isinstance(n.targets[0], ast.Name) and
        n.targets[0].id == 'pupil_z' for n in ast.walk(m.node))]
    if not gd:
        raise AnalysisError('pupil_z assignment not found')
    g = gd[0]
    res.saw(g)
    for n in ast.walk(g.node):
        if isinstance(n, ast.Assign) and isinstance(n.targets[0], ast.Name) and \
                n.targets[0].id == 'pupil_z':
            def inline(call, ev):
                if isinstance(call.func, ast.Attribute) and \
                        call.func.attr == 'XPL':
                    return A('XPL')
            v = Ev(inline=inline).ev(n.value)
            if rat_eq(v, A('XPL') + A('self.optic.surface_group.positions[-1]')):
                res.ok('pupil_z == XPL() + positions[-1]')
            else:
                res.fail(ctx.finding('SPHERE-ID', g, n,
                                     f'pupil_z = {v}: the exit pupil position '
                                     f'relative to the image surface is not '
                                     f'made absolute with the image vertex',
                                     construct='pupil_z'))
    return res


def pipeline(ctx):
    P = ctx.P
    res = Result('SAME-PIPELINE / CHIEF-FIRST', 'chief ray traced alone first; '
                 'sphere and reference path derived from it before the pupil '
                 'trace; reference and sample use the same functions, order '
                 'and sphere; path = recorded optical path - distance to '
                 'sphere')
    c = _wf(P)
    g = [m for m in c.methods.values() if any(
        isinstance(n, ast.Assign) and isinstance(n.targets[0], ast.Name) and
        n.targets[0].id == 'pupil_z' for n in ast.walk(m.node))][0]
    res.saw(g)
    bad = None
    for p in annotate(P, g, paths(g, loop_iters=(1,))):
        seq = [call_attr(e) for e in p.events if e.kind == 'call' and
               isinstance(e.node.func, ast.Attribute) and
               isinstance(e.node.func.value, ast.Name) and
               e.node.func.value.id == 'self']
        seq = [s for s in seq if s.startswith('_')]
        want = ['_trace_chief_ray', '_get_reference_sphere',
                '_get_path_length', '_correct_tilt', '_generate_field_data']
        # order by role, tolerant to renames: positions of distinct calls
        if len(seq) < 5:
            bad = (p, f'steps missing: {seq}')
            break
        if len(set(seq[:5])) != 5:
            bad = (p, f'steps repeated / missing: {seq}')
            break
    if bad:
        res.fail(ctx.finding('CHIEF-FIRST', g, g.node,
                             f'chief-ray / sphere / reference-path / pupil '
                             f'trace sequence broken: {bad[1]}',
                             construct='wavefront sequence',
                             path=bad[0].describe()))
    else:
        res.ok('per field and wavelength: chief trace, sphere, reference '
               'path, tilt, pupil data')
    # roles of the five steps
    order = []
    for n in ast.walk(g.node):
        if isinstance(n, ast.For):
            for s in ast.walk(n):
                if isinstance(s, ast.Call) and isinstance(s.func, ast.Attribute)\
                        and isinstance(s.func.value, ast.Name) and \
                        s.func.value.id == 'self' and \
                        s.func.attr.startswith('_') and \
                        s.func.attr not in order:
                    order.append(s.func.attr)
    # chief ray: trace_generic with zero pupil coordinates
    chief = P.lookup('Wavefront', order[0]) if order else None
    if chief is None:
        raise AnalysisError('chief-ray step not found')
    res.saw(chief)
    tg = [x for x in ast.walk(chief.node) if isinstance(x, ast.Call) and
          isinstance(x.func, ast.Attribute) and x.func.attr == 'trace_generic']
    ok = False
    if tg:
        kw = {k.arg: k.value for k in tg[0].keywords}
        a = tg[0].args
        ok = a and unparse(a[0]) == '*field' and \
            const_of(kw.get('Px', ast.Constant(1))) == 0 and \
            const_of(kw.get('Py', ast.Constant(1))) == 0 and \
            'wavelength' in kw and unparse(kw['wavelength']) == 'wavelength'
    if ok:
        res.ok('chief ray = trace_generic(*field, Px=0, Py=0, wavelength)')
    else:
        res.fail(ctx.finding('CHIEF-FIRST', chief, chief.node,
                             'the reference (chief) ray is not the zero-pupil '
                             'ray of the same field and wavelength',
                             construct='chief ray definition'))
    # path length: opd[-1,:] - distance
    pl = None
    for m in c.methods.values():
        src = Code(P, m)
        if 'surface_group.opd[-1, :]' in src:
            pl = m
    if pl is None:
        raise AnalysisError('path-length method not found')
    res.saw(pl)

    def inline(call, ev):
        if isinstance(call.func, ast.Attribute) and isinstance(
                call.func.value, ast.Name) and call.func.value.id == 'self':
            ev._args = [unparse(a) for a in call.args]
            return A('DIST')
    ev = Ev(inline=inline)
    for p_ in pl.params:
        ev.env[p_] = A(p_)
    ev.run(pl.node.body)
    if isinstance(ev.returned, Rat) and rat_eq(
            ev.returned, A('self.optic.surface_group.opd[-1,:]') - A('DIST')) \
            and getattr(ev, '_args', None) == pl.params[:4]:
        res.ok('path = opd record at the image surface - distance to sphere')
    else:
        res.fail(ctx.finding('SAME-PIPELINE', pl, pl.node,
                             'path length is not (recorded optical path at '
                             'the image surface) - (distance back to the '
                             'sphere)', construct='path length'))
    # reference and sample pass the same sphere to the same function
    fds = [m for m in c.methods.values() if any(
        isinstance(n, ast.Call) and unparse(n.func) == 'self.optic.trace'
        for n in ast.walk(m.node))]
    if not fds:
        res.fail(ctx.finding('SAME-PIPELINE', pl, pl.node,
                             'no method of Wavefront traces the sample rays '
                             '(self.optic.trace): the OPD is computed from '
                             'whatever records an earlier trace left',
                             construct='sample trace'))
        return res
    fd = fds[0]
    calls_ref = [x for x in ast.walk(g.node) if isinstance(x, ast.Call) and
                 isinstance(x.func, ast.Attribute) and x.func.attr == pl.name]
    calls_smp = [x for x in ast.walk(fd.node) if isinstance(x, ast.Call) and
                 isinstance(x.func, ast.Attribute) and x.func.attr == pl.name]
    if calls_ref and calls_smp and \
            [unparse(a) for a in calls_ref[0].args] == \
            [unparse(a) for a in calls_smp[0].args]:
        res.ok('reference and sample use the same sphere arguments')
    else:
        res.fail(ctx.finding('SAME-PIPELINE', fd, fd.node,
                             'reference and sample paths are not measured to '
                             'the same sphere', construct='same sphere'))
    # sphere tuple forwarded in order to the per-field data
    un = [n for n in ast.walk(g.node) if isinstance(n, ast.Assign) and
          isinstance(n.targets[0], ast.Tuple) and
          isinstance(n.value, ast.Call)]
    fwd = [x for x in ast.walk(g.node) if isinstance(x, ast.Call) and
           isinstance(x.func, ast.Attribute) and x.func.attr == fd.name]
    if un and fwd:
        names = [unparse(t) for t in un[0].targets[0].elts]
        args = [unparse(a) for a in fwd[0].args]
        if args[-4:] == names and fd.params[-4:] == calls_smp[0].args and False:
            pass
        if args[-len(names):] == names:
            res.ok('sphere (xc, yc, zc, R) forwarded in order')
        else:
            res.fail(ctx.finding('SAME-PIPELINE', g, fwd[0],
                                 'sphere parameters not forwarded in order',
                                 construct='sphere forwarding'))
    # tilt applied to both, chief at pupil centre
    tl = [m for m in c.methods.values() if 'tilt_correction' in
          unparse(m.node, 4000)]
    if tl:
        t = tl[0]
        res.saw(t)
        r_calls = [x for x in ast.walk(g.node) if isinstance(x, ast.Call) and
                   isinstance(x.func, ast.Attribute) and x.func.attr == t.name]
        s_calls = [x for x in ast.walk(fd.node) if isinstance(x, ast.Call) and
                   isinstance(x.func, ast.Attribute) and x.func.attr == t.name]
        okt = r_calls and s_calls
        if okt:
            kw = {k.arg: const_of(k.value) for k in r_calls[0].keywords}
            okt = kw.get('x') == 0 and kw.get('y') == 0 and \
                not s_calls[0].keywords
        if okt:
            res.ok('tilt correction applied to reference (pupil centre) and '
                   'sample (own pupil coordinates)')
        else:
            res.fail(ctx.finding('SAME-PIPELINE', g, g.node,
                                 'tilt correction not applied alike to '
                                 'reference and sample',
                                 construct='tilt both'))
        # returns opd - correction, correction zero unless angular field
        sym = Sym()

        def choose(test, ev):
            s = unparse(test)
            if "field_type == 'angle'" in s:
                return False
            return None
        ev = fn_eval(P, t, [A('field'), A('opd')], sym=sym, choose=choose)
        if isinstance(ev.returned, Rat) and rat_eq(ev.returned, A('opd')):
            res.ok('no tilt correction for height fields')
            # angular fields: the launch points lie on a plane; a ray launched
            # at pupil height y = Py EPD/2 is ahead of the oblique wavefront by
            # y sin(theta): path from the common wavefront = opd + Py EPD/2
            # sin(theta_y)  (up to a constant of the field)
            sym2 = Sym()

            def inl2(call, ev):
                fn = call.func
                if isinstance(fn, ast.Attribute) and fn.attr == 'EPD':
                    return A('EPD')
                if isinstance(fn, ast.Attribute) and fn.attr == 'n' and \
                        'object_surface.material_post' in unparse(fn.value):
                    return A('N_OBJECT')
                if isinstance(fn, ast.Attribute) and \
                        fn.attr == 'get_vig_factor':
                    return (A('VX'), A('VY'))
                return None

            # The rays of an infinitely distant field point are launched
            # from a plane, parallel to the direction (L, M, N) the ray
            # generator gives that field; measured from a common wavefront a
            # ray launched at (x, y) EPD/2 has the extra optical path
            # -n_object (L x + M y) EPD/2 (up to a constant of the field).
            # (L, M) are taken from the generator itself (C03.launch_signs):
            # M = sy tan(ty) / norm, L = sx tan(tx) / norm,
            # norm = sqrt(1 + tan(tx)^2 + tan(ty)^2).
            from .C03 import launch_signs
            try:
                sx_, sy_ = launch_signs(P)
            except Inconclusive as e:
                raise AnalysisError(f'launch direction of the generator: {e}')
            if sx_ is None or sy_ is None:
                raise AnalysisError('launch direction of the generator is '
                                    'not at the field angle (see C03 AIM)')
            for given in (True, False):
                def ch2(test, ev, given=given):
                    s_ = unparse(test)
                    if "field_type == 'angle'" in s_ or 'is_infinite' in s_:
                        return True
                    if 'is None' in s_:
                        return not given
                    return None
                e2 = Ev(sym=sym2, inline=inl2, choose=ch2)
                e2.env['field'] = (A('Hx'), A('Hy'))
                e2.env['opd'] = A('opd')
                e2.env['x'], e2.env['y'] = A('PX'), A('PY')
                try:
                    e2.run(t.node.body)
                except Inconclusive as e:
                    raise AnalysisError(f'_correct_tilt: {e}')
                r2 = e2.returned
                ay = A('self.optic.fields.max_field') * A('Hy') * A('pi') / \
                    C(180)
                ax = A('self.optic.fields.max_field') * A('Hx') * A('pi') / \
                    C(180)
                tany = sym2.sin(ay) / sym2.cos(ay)
                tanx = sym2.sin(ax) / sym2.cos(ax)
                nrm = sym2.sqrt(ONE + tanx * tanx + tany * tany)
                half = A('N_OBJECT') * A('EPD') / C(2)
                basey = half * C(sy_) * tany / nrm
                basex = half * C(sx_) * tanx / nrm
                if given:
                    dy_ = sym2.diff(r2, 'PY')
                    dx_ = sym2.diff(r2, 'PX')
                    wy, wx, var = basey, basex, 'the launch coordinates'
                else:
                    # default samples: the pupil distribution compressed by
                    # the vignetting factors of the field (the launch points)
                    dy_ = sym2.diff(r2, 'self.distribution.y')
                    dx_ = sym2.diff(r2, 'self.distribution.x')
                    wy = basey * (ONE - A('VY'))
                    wx = basex * (ONE - A('VX'))
                    var = 'distribution.x / .y'
                if sym2.eq(dy_, wy) and sym2.eq(dx_, wx) and \
                        sym2.eq(sym2.diff(r2, 'opd'), ONE):
                    res.ok(f'angular fields at infinity: d(path)/d({var}) = '
                           f'n_object EPD/2 (L, M) of the launched bundle'
                           f'{"" if given else " x (1 - v)"}')
                else:
                    res.fail(ctx.finding(
                        'SAME-PIPELINE', t, t.node,
                        f'oblique-wavefront correction: d(path)/d({var}) = '
                        f'({dx_}, {dy_}), expected n_object EPD/2 times the '
                        f'direction cosines of the bundle the ray generator '
                        f'launches for this field (x sign {sx_:+d}, y sign '
                        f'{sy_:+d}, normalised by sqrt(1 + tan^2 + tan^2)), '
                        f'launch points compressed by the vignetting '
                        f'factors: paths are not measured from a common '
                        f'wavefront in object space',
                        construct='tilt derivative' if given else
                        'tilt derivative default samples'))
            # a finite object point needs no correction, whatever the field
            # type: the rays start on the object point itself
            def ch3(test, ev):
                s_ = unparse(test)
                if 'is_infinite' in s_ and "field_type == 'angle'" in s_:
                    return False        # angle and not infinite
                if 'is_infinite' in s_:
                    return False
                if "field_type == 'angle'" in s_:
                    return True
                if 'is None' in s_:
                    return False
                return None
            e3 = Ev(sym=Sym(), inline=inl2, choose=ch3)
            e3.env['field'] = (A('Hx'), A('Hy'))
            e3.env['opd'] = A('opd')
            e3.env['x'], e3.env['y'] = A('PX'), A('PY')
            try:
                e3.run(t.node.body)
                fin_ok = isinstance(e3.returned, Rat) and \
                    rat_eq(e3.returned, A('opd'))
            except Inconclusive as e:
                raise AnalysisError(f'_correct_tilt (finite object): {e}')
            if fin_ok:
                res.ok('finite object with angular fields: no correction')
            else:
                res.fail(ctx.finding(
                    'SAME-PIPELINE', t, t.node,
                    'the plane-wave tilt correction is applied to a finite '
                    'object with angular fields, whose rays start on the '
                    'object point: f/50 singlet at 2 deg reports 246 waves '
                    'PV instead of 0.08',
                    construct='tilt correction for a finite object'))
        else:
            res.fail(ctx.finding('SAME-PIPELINE', t, t.node,
                                 'tilt correction alters height-field paths',
                                 construct='tilt height fields'))
    return res


def consumers(ctx):
    P = ctx.P
    res = Result('CONSUMERS', 'rms, fans, rms-vs-field and the OPD operand '
                 'read the OPD element data[i][j][0]; rms = sqrt(mean(x^2))')
    items = [('OPD.rms', 'self.data[0][0][0]'),
             ('RmsWavefrontErrorVsField._rms_wavefront_error',
              'self.data[i][j][0]')]
    for q, src in items:
        f = P.func(q)
        res.saw(f)
        s = Code(P, f)
        if f'np.sqrt(np.mean({src} ** 2))' in s:
            res.ok(f'{q}: sqrt(mean({src}^2))')
        else:
            res.fail(ctx.finding('CONSUMERS', f, f.node,
                                 f'{q} is not sqrt(mean(OPD^2)) of {src}',
                                 construct=q))
    f = P.func('RayOperand.OPD_difference')
    res.saw(f)
    s = Code(P, f)
    if 'wf.data[0][0][0] - np.mean(wf.data[0][0][0])' in s and \
            'Wavefront(optic, [(Hx, Hy)], [wavelength], num_rays, distribution)'\
            in s and 'np.mean(np.abs(delta))' in s:
        res.ok('OPD_difference: mean |(opd - mean opd) * weights| of the '
               'requested field / wavelength')
    else:
        res.fail(ctx.finding('CONSUMERS', f, f.node,
                             'OPD_difference does not evaluate the OPD of the '
                             'requested field / wavelength',
                             construct='OPD_difference'))
    f = P.func('OPDFan.view')
    s = Code(P, f)
    if 'self.data[i][j][0][self.num_rays:]' in s and \
            'self.data[i][j][0][:self.num_rays]' in s:
        res.ok('OPDFan reads the two halves of the cross distribution')
    f = P.func('OPDFan.__init__')
    if "distribution='cross'" in unparse(f.node, 2000):
        res.ok("OPDFan samples the 'cross' distribution")
    else:
        res.fail(ctx.finding('CONSUMERS', f, f.node,
                             'OPD fan does not sample the pupil axes',
                             construct='OPDFan distribution'))
    f = P.func('OPD.__init__')
    s = Code(P, f)
    if 'fields=[field]' in s and 'wavelengths=[wavelength]' in s:
        res.ok('OPD map: the requested field and wavelength')
    else:
        res.fail(ctx.finding('CONSUMERS', f, f.node,
                             'OPD map is not for the requested field / '
                             'wavelength', construct='OPD.__init__'))
    f = P.func('ZernikeOPD.__init__')
    s = Code(P, f)
    if 'x = self.distribution.x' in s and 'y = self.distribution.y' in s and \
            'z = self.data[0][0][0]' in s and \
            'ZernikeFit.__init__(self, x, y, z, zernike_type, num_terms)' in s:
        res.ok('ZernikeOPD fits the sampled OPD at its own sample points')
    else:
        res.fail(ctx.finding('CONSUMERS', f, f.node,
                             'ZernikeOPD does not fit (x, y, opd) of its own '
                             'samples', construct='ZernikeOPD.__init__'))
    # data layout: fields outer, wavelengths inner
    g = [m for m in _wf(P).methods.values() if any(
        isinstance(n, ast.Assign) and isinstance(n.targets[0], ast.Name) and
        n.targets[0].id == 'pupil_z' for n in ast.walk(m.node))][0]
    loops = [n for n in ast.walk(g.node) if isinstance(n, ast.For)]
    if len(loops) >= 2 and unparse(loops[0].iter) == 'fields' and \
            unparse(loops[1].iter) == 'wavelengths':
        res.ok('data[i][j]: i over fields, j over wavelengths')
    else:
        res.fail(ctx.finding('CONSUMERS', g, g.node,
                             'data is not laid out [field][wavelength]',
                             construct='data layout'))
    return res


def no_stale(ctx):
    from .common import stale_cache
    return stale_cache(ctx, 'NO-STALE-STATE', ['Wavefront', 'OPD', 'OPDFan', 'ZernikeOPD'],
                       'the OPD refers to an earlier lens state', min_methods=1)


def gauss_quad(ctx):
    """The Gaussian-quadrature pupil sampling (Forbes 1988) used by the
    OPD-difference operand: ring radii are sqrt((1 + x_j) / 2) and ring
    weights w_j / 4 for the Gauss-Legendre nodes x_j and weights w_j of order
    n; the tables are compared with nodes recomputed here."""
    from ..match import find, find_seq
    import numpy as _np
    P = ctx.P
    res = Result('GAUSS-QUAD', 'Gaussian quadrature sampling: radii and '
                 'weights tables equal the Gauss-Legendre values for 1..6 '
                 'rings (to 5e-5: the outer radius for 6 rings is tabulated as 0.98300 against 0.98297); points are ring-major over 3 (or 1) arms '
                 'and the operand repeats each ring weight over the arms in '
                 'the same order')
    fr = P.func('GaussianQuadrature._get_radius')
    fw = P.func('GaussianQuadrature.get_weights')
    fg = P.func('GaussianQuadrature.generate_points')
    res.saw(fr), res.saw(fw), res.saw(fg)

    def table(f):
        for st in ast.walk(f.node):
            if isinstance(st, ast.Dict) and st.keys and all(
                    isinstance(k, ast.Constant) for k in st.keys):
                out = {}
                for k, v in zip(st.keys, st.values):
                    if isinstance(v, ast.Call) and v.args and isinstance(
                            v.args[0], ast.List):
                        out[k.value] = [float(ast.literal_eval(x))
                                        for x in v.args[0].elts]
                return out
        return None
    tr, tw = table(fr), table(fw)
    if not tr or not tw:
        raise AnalysisError('GAUSS-QUAD: tables not found')
    for n in range(1, 7):
        x, w = _np.polynomial.legendre.leggauss(n)
        rad = _np.sqrt((1 + x) / 2)
        wt = w / 4
        okr = n in tr and len(tr[n]) == n and \
            max(abs(a - b) for a, b in zip(tr[n], rad)) < 5e-5
        okw = n in tw and len(tw[n]) == n and \
            max(abs(a - b) for a, b in zip(tw[n], wt)) < 2e-5
        if okr and okw:
            res.ok(f'{n} rings: radii and weights are the Gauss-Legendre '
                   f'values')
        else:
            res.fail(ctx.finding(
                'GAUSS-QUAD', fr if not okr else fw, None,
                f'{n} rings: ' + ('radii ' if not okr else 'weights ') +
                f'{(tr if not okr else tw).get(n)} differ from the '
                f'Gauss-Legendre values '
                f'{[round(float(v), 5) for v in (rad if not okr else wt)]}',
                construct=f'gaussian quadrature table n={n}'))
    if set(tr) == set(tw) == set(range(1, 7)):
        res.ok('both tables cover 1..6 rings')
    else:
        res.fail(ctx.finding('GAUSS-QUAD', fw, None,
                             'radius and weight tables cover different ring '
                             'counts', construct='table keys'))
    # ring-major point order, three arms at -60, 0, +60 degrees
    arms = None
    for nd, b in find(fg, 'np.array([$a, $b, $c])'):
        try:
            arms = [float(ast.literal_eval(b[k])) for k in 'abc']
        except Exception:
            pass
    import math
    if arms and all(abs(a - t) < 1e-6 for a, t in
                    zip(arms, (-math.pi / 3, 0.0, math.pi / 3))) and \
            find_seq(fg, ['$r = self._get_radius(num_rings)',
                          'self.x = np.outer($r, np.cos($t)).flatten() * '
                          '(1 - vx)',
                          'self.y = np.outer($r, np.sin($t)).flatten() * '
                          '(1 - vy)']):
        res.ok('points: outer(radius, cos/sin theta).flatten() (ring-major), '
               'arms at -60, 0, 60 degrees')
    else:
        res.fail(ctx.finding('GAUSS-QUAD', fg, fg.node,
                             'Gaussian quadrature points are not ring-major '
                             'over the arms -60, 0, 60 degrees',
                             construct='generate_points layout'))
    # weights scaled by the number of arm repetitions: 6 / arms
    sw = Code(P, fw)
    if 'weights *= 6.0' in sw and 'weights *= 2.0' in sw and \
            sw.index('weights *= 6.0') < sw.index('weights *= 2.0') and \
            find(fw, 'if self.is_symmetric:\n    weights *= 6.0\nelse:\n'
                     '    weights *= 2.0'):
        res.ok('weights x 6 (one arm) or x 2 (three arms)')
    else:
        res.fail(ctx.finding('GAUSS-QUAD', fw, fw.node,
                             'weight scaling per arm changed',
                             construct='weights scaling'))
    od = P.func('RayOperand.OPD_difference')
    res.saw(od)
    if find(od, 'np.repeat($d.get_weights(num_rays), 3)') and \
            find(od, '$d.generate_points(num_rings=num_rays)'):
        res.ok('operand: each ring weight repeated over its 3 arms '
               '(ring-major), same ring count for points and weights')
    else:
        res.fail(ctx.finding('GAUSS-QUAD', od, od.node,
                             'operand weights are not laid out like the '
                             'points', construct='OPD_difference weights'))
    return res


def arg_forward_rule(ctx):
    from .common import arg_forward
    return arg_forward(ctx, 'ARG-FORWARD', 30)


def c03_fields(ctx):
    """shared with C03: normalised field coordinates of fields='all' and the
    wavelength unit table (the documented samples of every analysis)"""
    from .C03 import field_wiring as _r
    return _r(ctx)

def c03_trace_entry(ctx):
    """shared with C03: the pupil samples requested are the ones traced
    (vignetting factors applied exactly once on the way to the generator)"""
    from .C03 import trace_entry as _r
    return _r(ctx)

RULES = [c03_trace_entry, c03_fields, arg_forward_rule, no_stale, gauss_quad, opd_formula, sphere, pipeline, consumers]

"""C20 -- Zemax import reproduces the prescription written in the file."""
import ast
from ..core import Result
from ..pm import AnalysisError, Missing, unparse
from ..match import Code

META = {
    'explanation': (
        'ZMX-DISPATCH: every keyword of the operand table maps to an existing '
        'reader method; each reader parses the documented token. ZMX-KEYS: the '
        'keys the converter consumes per surface / aperture / fields / '
        'wavelengths are written by the reader (defaults in the SURF handler '
        'plus CURV, DISZ, CONI, GLAS, STOP, TYPE, PARM). ZMX-VOCAB: the names '
        'the reader emits (aperture kinds, field types, surface types) are '
        'names the lens model accepts. PARM-OFFSET: PARM n -> coefficient n-1 '
        '-> r^(2n) through reader, converter and EvenAsphere.sag. MODE-RAISES: '
        'the ValueError for non-sequential files is not caught on its way to '
        'load_zemax_file. ENCODINGS: utf-16 and utf-8 are both tried. WIRING: '
        'converter passes each stored quantity to the matching add_surface / '
        'set_aperture / add_field / add_wavelength parameter; primary index '
        'PWAV n -> n-1; image surface appended.'),
    'declined': ['numeric equality of radii / thicknesses / indices with the '
                 'file (float parsing)', 'catalogue glass lookup (C18)'],
    'trusted': ['Zemax keyword semantics as documented in the property '
                '(CURV = curvature, DISZ = thickness, PARM n of EVENASPH = '
                'coefficient of r^(2n), PWAV 1-based)'],
}


def _cls(P, name):
    if name not in P.classes:
        raise AnalysisError(f'class {name} not found')
    return P.classes[name]


def _keys_written(fn, base_src):
    """string keys stored into <base_src>[...] in function fn"""
    out = {}
    for n in ast.walk(fn.node):
        if isinstance(n, ast.Assign):
            for t in n.targets:
                if isinstance(t, ast.Subscript) and \
                        unparse(t.value) == base_src:
                    if isinstance(t.slice, ast.Constant):
                        out[t.slice.value] = n
                    else:
                        out['#dynamic:' + unparse(t.slice)] = n
    return out


def dispatch(ctx):
    P = ctx.P
    res = Result('ZMX-DISPATCH', 'operand table keyword -> existing reader '
                 'method reading the documented token')
    c = _cls(P, 'ZemaxFileReader')
    init = c.methods['__init__']
    table = None
    for n in ast.walk(init.node):
        if isinstance(n, ast.Dict) and len(n.keys) >= 10 and all(
                isinstance(k, ast.Constant) for k in n.keys):
            table = n
    if table is None:
        raise Missing('ZMX-DISPATCH', init, 'operand table',
                      'ZemaxFileReader.__init__ does not build the table that '
                      'maps the keywords of the file to their handlers')
    expect = {  # keyword -> (quantity key written, token index / form)
        'CURV': ('radius', '1 / float(data[1])'),
        'DISZ': ('thickness', 'float(data[1])'),
        'CONI': ('conic', 'float(data[1])'),
        'ENPD': ('EPD', 'float(data[1])'),
        'FNUM': ('imageFNO', 'float(data[1])'),
        'OBNA': ('objectNA', 'float(data[1])'),
        'WAVM': (None, 'float(data[2])'),
        'PWAV': ('primary_index', 'int(data[1]) - 1'),
        'STOP': ('is_stop', 'True'),
        'PARM': (None, 'float(data[2])'),
    }
    for k, v in zip(table.keys, table.values):
        kw = k.value
        m = c.methods.get(v.attr) if isinstance(v, ast.Attribute) else None
        if m is None:
            res.fail(ctx.finding('ZMX-DISPATCH', init, v,
                                 f'keyword {kw} is dispatched to a missing '
                                 f'method', construct=f'table {kw}'))
            continue
        res.saw(m)
        if kw in expect:
            key, form = expect[kw]
            src = Code(P, m)
            stores = {}
            for n in ast.walk(m.node):
                if isinstance(n, ast.Assign) and isinstance(n.targets[0],
                                                            ast.Subscript):
                    t = n.targets[0]
                    if isinstance(t.slice, ast.Constant):
                        stores.setdefault(t.slice.value, []).append(
                            unparse(n.value))
            if key is not None:
                ok = key in stores and form in stores[key]
            else:
                ok = form in src
            if ok:
                res.ok(f'{kw} -> {m.name}: {key or "value"} := {form}')
            else:
                res.fail(ctx.finding(
                    'ZMX-DISPATCH', m, m.node,
                    f'{kw} handler {m.name} does not store {key or "its value"}'
                    f' := {form}', construct=f'{kw} handler'))
        else:
            res.ok(f'{kw} -> {m.name}')
    res.require(19, 'keywords')
    # thickness INFINITY and zero curvature
    m = c.methods['_read_thickness']
    if "data[1] == 'INFINITY'" in unparse(m.node, 999) and 'np.inf' in \
            unparse(m.node, 999):
        res.ok('DISZ INFINITY -> inf')
    else:
        res.fail(ctx.finding('ZMX-DISPATCH', m, m.node,
                             'INFINITY thickness not mapped to inf',
                             construct='DISZ INFINITY'))
    m = c.methods['_read_radius']
    hs = [h for n in ast.walk(m.node) if isinstance(n, ast.Try)
          for h in n.handlers]
    if hs and 'ZeroDivisionError' in unparse(hs[0].type) and \
            'np.inf' in ' '.join(unparse(s) for s in hs[0].body):
        res.ok('CURV 0 -> radius inf')
    else:
        res.fail(ctx.finding('ZMX-DISPATCH', m, m.node,
                             'zero curvature is not mapped to an infinite '
                             'radius', construct='CURV zero'))
    # FNUM / OBNA flag 0 selects the supported kind
    for mn, key in (('_read_fno', 'imageFNO'), ('_read_object_na', 'objectNA')):
        m = c.methods[mn]
        ok = False
        for n in ast.walk(m.node):
            if isinstance(n, ast.If) and unparse(n.test) == 'int(data[2]) == 0':
                ok = any(key in unparse(s) for s in n.body)
        if ok:
            res.ok(f'{mn}: flag 0 -> {key}')
        else:
            res.fail(ctx.finding('ZMX-DISPATCH', m, m.node,
                                 f'{mn}: flag 0 does not select {key}',
                                 construct=f'{mn} flag'))
    # field type codes
    m = c.methods['_read_config_data']
    codes = {}
    for n in ast.walk(m.node):
        if isinstance(n, ast.If) and isinstance(n.test, ast.Compare) and \
                unparse(n.test.left) == 'int(data[1])':
            for s in n.body:
                if isinstance(s, ast.Assign) and "['type']" in unparse(
                        s.targets[0]):
                    codes[unparse(n.test.comparators[0])] = unparse(s.value)
    if codes.get('0') == "'angle'" and codes.get('1') == "'object_height'":
        res.ok("FTYP 0 -> 'angle', 1 -> 'object_height'")
    else:
        res.fail(ctx.finding('ZMX-DISPATCH', m, m.node,
                             f'field type codes mapped as {codes}',
                             construct='FTYP codes'))
    src = Code(P, m)
    if "['num_fields'] = int(data[3])" in src and \
            "['num_wavelengths'] = int(data[4])" in src:
        res.ok('FTYP: num_fields <- token 3, num_wavelengths <- token 4')
    else:
        res.fail(ctx.finding('ZMX-DISPATCH', m, m.node,
                             'field / wavelength counts read from the wrong '
                             'token', construct='FTYP counts'))
    for mn, key in (('_read_x_fields', 'x'), ('_read_y_fields', 'y')):
        mm = c.methods[mn]
        s2 = Code(P, mm)
        if f"['fields']['{key}'] = [float(value) for value in " \
                f"data[1:num_fields + 1]]" in s2:
            res.ok(f'{mn}: {key} <- tokens 1..num_fields')
        else:
            res.fail(ctx.finding('ZMX-DISPATCH', mm, mm.node,
                                 f'{mn} does not read tokens 1..num_fields '
                                 f'into {key}', construct=mn))
    return res


def keys_and_wiring(ctx):
    P = ctx.P
    res = Result('ZMX-KEYS / WIRING', 'what the converter consumes is what the '
                 'reader stores, and each quantity reaches the matching '
                 'parameter of the lens-building API')
    r = _cls(P, 'ZemaxFileReader')
    cv = _cls(P, 'ZemaxToOpticConverter')
    # per-surface keys written
    written = set()
    for m in r.methods.values():
        for k in _keys_written(m, 'self._current_surf_data'):
            written.add(k)
    cs = cv.methods['_configure_surface']
    res.saw(cs)
    call = [c for c in ast.walk(cs.node) if isinstance(c, ast.Call) and
            isinstance(c.func, ast.Attribute) and c.func.attr == 'add_surface']
    if not call:
        raise Missing('ZMX-KEYS', cs, 'add_surface call',
                      'the converter does not add the surfaces it has read to '
                      'the lens (_configure_surface has no add_surface call)')
    kw = {k.arg: unparse(k.value) for k in call[0].keywords}
    want = {'index': 'index', 'surface_type': "data['type']",
            'radius': "data['radius']", 'conic': "data['conic']",
            'thickness': "data['thickness']", 'is_stop': "data['is_stop']",
            'material': "data['material']", 'coefficients': 'coefficients'}
    for p, src in want.items():
        if kw.get(p) == src:
            res.ok(f'add_surface({p}={src})')
        else:
            res.fail(ctx.finding('ZMX-KEYS', cs, call[0],
                                 f'add_surface parameter {p} receives '
                                 f'{kw.get(p)}, expected {src}',
                                 construct=f'add_surface {p}'))
    for n in ast.walk(cs.node):
        if isinstance(n, ast.Subscript) and isinstance(n.value, ast.Name) and \
                n.value.id == 'data' and isinstance(n.slice, ast.Constant):
            k = n.slice.value
            if k in written:
                res.ok(f'surface key {k!r} written by the reader')
            else:
                res.fail(ctx.finding('ZMX-KEYS', cs, n,
                                     f'converter reads surface key {k!r} that '
                                     f'the reader never stores',
                                     construct=f'surface key {k!r}'))
    # the lens-building API accepts those parameter names
    add = P.func('SurfaceGroup.add_surface')
    fac = P.func('SurfaceFactory.create_surface')
    accepted = set(add.params) | {'radius', 'conic', 'coefficients'}
    for p in want:
        if p in accepted:
            res.ok(f'add_surface accepts {p}')
        else:
            res.fail(ctx.finding('ZMX-KEYS', add, None,
                                 f'add_surface has no parameter {p}',
                                 construct=f'add_surface accepts {p}'))
    # defaults in the SURF handler cover keys without their own keyword
    sh = r.methods['_read_surface']
    res.saw(sh)
    dk = _keys_written(sh, 'self._current_surf_data')
    for k in ('type', 'is_stop', 'conic', 'material'):
        if k in dk:
            res.ok(f'SURF default for {k!r}')
        else:
            res.fail(ctx.finding('ZMX-KEYS', sh, sh.node,
                                 f'no default for surface key {k!r}: a '
                                 f'surface without that keyword raises '
                                 f'KeyError in the converter',
                                 construct=f'SURF default {k!r}'))
    from ..match import find as _find
    want_defaults = {'type': "'standard'", 'is_stop': 'False',
                     'conic': ('0.0', '0'), 'material': "'air'"}
    for k_, v_ in want_defaults.items():
        hits = [st for st in ast.walk(sh.node) if isinstance(st, ast.Assign)
                and unparse(st.targets[0]) ==
                f"self._current_surf_data['{k_}']"]
        vals = (v_,) if isinstance(v_, str) else v_
        if hits and unparse(hits[0].value) in vals:
            res.ok(f'SURF default {k_!r} = {unparse(hits[0].value)}')
        else:
            res.fail(ctx.finding(
                'ZMX-KEYS', sh, hits[0] if hits else sh.node,
                f'a new surface block starts with {k_!r} = '
                f'{unparse(hits[0].value) if hits else "nothing"}, not '
                f'{vals[0]}: surfaces without that keyword in the file get a '
                f'value that was not written',
                construct=f'SURF default value {k_!r}'))
    if _find(sh, 'self._current_surf_data = {}'):
        res.ok('every SURF block starts a fresh dictionary')
    else:
        res.fail(ctx.finding('ZMX-KEYS', sh, sh.node,
                             'surface blocks share one dictionary: every '
                             'stored surface ends up with the data of the '
                             'last one', construct='SURF fresh dictionary'))
    src = Code(P, sh)
    if "self.data['surfaces'][self._current_surf] = self._current_surf_data" \
            in src and 'self._current_surf += 1' in src and \
            'self._current_surf >= 0' in src:
        res.ok('SURF: previous surface stored under its index, counter '
               'advanced')
    else:
        res.fail(ctx.finding('ZMX-KEYS', sh, sh.node,
                             'surfaces are not stored under consecutive '
                             'indices', construct='SURF bookkeeping'))
    # every SURF block of the file becomes a surface: a block is stored when
    # the next SURF line arrives, so the LAST block (the image surface) has to
    # be stored when the file ends, and the converter adds exactly the stored
    # surfaces (no blank surface in place of the written image surface)
    from ..match import find
    rf_ = _cls(P, 'ZemaxFileReader').methods['_read_file']
    flush = [st for st in rf_.node.body if isinstance(st, ast.If) and
             any("self.data['surfaces'][self._current_surf] = "
                 "self._current_surf_data" in unparse(b) for b in st.body)] + \
        [st for st in rf_.node.body if isinstance(st, ast.Assign) and
         "self.data['surfaces'][self._current_surf]" in unparse(st.targets[0])]
    loops = [st for st in rf_.node.body if isinstance(st, (ast.For, ast.While))]
    if flush and loops and flush[0].lineno > loops[0].lineno:
        res.ok('the last SURF block is stored when the file has been read')
    else:
        res.fail(ctx.finding(
            'ZMX-KEYS', rf_, rf_.node,
            'the last SURF block of the file (the image surface) is never '
            'stored: its radius, conic and other data are dropped',
            construct='last SURF block'))
    cfs = cv.methods['_configure_surfaces']
    s2 = Code(P, cfs)
    extra = [c for c in ast.walk(cfs.node) if isinstance(c, ast.Call) and
             isinstance(c.func, ast.Attribute) and
             c.func.attr == 'add_surface']
    if extra:
        res.fail(ctx.finding(
            'ZMX-KEYS', cfs, extra[0],
            'the converter appends a default surface of its own: with the '
            'last SURF block stored, the lens would have one surface more '
            'than the file (or, without it, a blank image surface instead of '
            'the written one)', construct='converter extra surface'))
    if "for idx, surf_data in self.data['surfaces'].items()" in s2 and \
            'self._configure_surface(idx, surf_data)' in s2:
        res.ok('all stored surfaces added in file order')
    else:
        res.fail(ctx.finding('ZMX-KEYS', cfs, cfs.node,
                             'surface count / order not preserved',
                             construct='_configure_surfaces'))
    # aperture / fields / wavelengths
    ca = cv.methods['_configure_aperture']
    s3 = Code(P, ca)
    if 'set_aperture(aperture_type=ap_type, value=value)' in s3 and \
            "next(iter(aperture_data.items()))" in s3:
        res.ok('aperture: first stored (kind, value) -> set_aperture')
    else:
        res.fail(ctx.finding('ZMX-KEYS', ca, ca.node,
                             'aperture kind / value not forwarded',
                             construct='_configure_aperture'))
    cf = cv.methods['_configure_fields']
    s4 = Code(P, cf)
    if "set_field_type(field_type=self.data['fields']['type'])" in s4 and \
            "zip(self.data['fields']['x'], self.data['fields']['y'])" in s4 \
            and 'add_field(x=fx, y=fy)' in s4:
        res.ok('fields: type, then (x, y) pairs -> add_field(x=, y=)')
    else:
        res.fail(ctx.finding('ZMX-KEYS', cf, cf.node,
                             'field type / coordinates not forwarded in order',
                             construct='_configure_fields'))
    cw = cv.methods['_configure_wavelengths']
    s5 = Code(P, cw)
    if "primary_idx = self.data['wavelengths']['primary_index']" in s5 and \
            "enumerate(self.data['wavelengths']['data'])" in s5 and \
            'add_wavelength(value=value, is_primary=idx == primary_idx)' in s5:
        res.ok('wavelengths: value, is_primary = (idx == primary index)')
    else:
        res.fail(ctx.finding('ZMX-KEYS', cw, cw.node,
                             'wavelengths / primary flag not forwarded',
                             construct='_configure_wavelengths'))
    conv = cv.methods['convert']
    order = [unparse(c.func) for c in ast.walk(conv.node)
             if isinstance(c, ast.Call) and 'self._configure' in unparse(c.func)]
    if order[:2] == ['self._configure_surfaces', 'self._configure_aperture'] \
            and 'self._configure_fields' in order and \
            order.index('self._configure_fields') < len(order) and \
            set(order) == {'self._configure_surfaces',
                           'self._configure_aperture',
                           'self._configure_fields',
                           'self._configure_wavelengths'}:
        res.ok('convert(): surfaces, aperture, fields, wavelengths')
    else:
        res.fail(ctx.finding('ZMX-KEYS', conv, conv.node,
                             'convert() does not configure all four groups',
                             construct='convert order'))
    # field type must be set before fields are added (Field captures it)
    if s4.index('set_field_type') < s4.index('add_field'):
        res.ok('field type set before fields are added')
    # wavelength reader: token 2, bounded by num_wavelengths
    wv = r.methods['_read_wavelength']
    s6 = Code(P, wv)
    if 'float(data[2])' in s6 and '< num_wavelengths' in s6 and \
            ".append(value)" in s6:
        res.ok('WAVM: token 2 appended while fewer than num_wavelengths')
    else:
        res.fail(ctx.finding('ZMX-KEYS', wv, wv.node,
                             'wavelength list not bounded by the declared '
                             'count', construct='_read_wavelength'))
    return res


def vocab(ctx):
    P = ctx.P
    res = Result('ZMX-VOCAB', 'names emitted by the reader are names the lens '
                 'model accepts')
    r = _cls(P, 'ZemaxFileReader')
    ap = P.func('Aperture.__init__')
    accepted = set()
    for n in ast.walk(ap.node):
        if isinstance(n, ast.List):
            for e in n.elts:
                if isinstance(e, ast.Constant) and isinstance(e.value, str):
                    accepted.add(e.value)
    emitted = {}
    for mn in ('_read_epd', '_read_fno', '_read_object_na'):
        m = r.methods[mn]
        ks = _keys_written(m, "self.data['aperture']")
        emitted[mn] = sorted(ks)
    primary = {'_read_epd': 'EPD', '_read_fno': 'imageFNO',
               '_read_object_na': 'objectNA'}
    for mn, k in primary.items():
        if k in emitted[mn] and k in accepted:
            res.ok(f'{mn} emits {k!r}, accepted by Aperture')
        else:
            res.fail(ctx.finding('ZMX-VOCAB', r.methods[mn], None,
                                 f'{mn} emits {emitted[mn]}; Aperture accepts '
                                 f'{sorted(accepted)}',
                                 construct=f'aperture vocabulary {mn}'))
    # field types consumed by the ray generator / paraxial code
    consumers = set()
    for f in P.all_funcs():
        for n in ast.walk(f.node):
            if isinstance(n, ast.Compare) and 'field_type' in unparse(n.left) \
                    and isinstance(n.comparators[0], ast.Constant):
                consumers.add(n.comparators[0].value)
    for t in ('angle', 'object_height'):
        if t in consumers:
            res.ok(f'field type {t!r} is compared against by the lens model')
        else:
            res.fail(ctx.finding('ZMX-VOCAB', r.methods['_read_config_data'],
                                 None, f'field type {t!r} has no consumer',
                                 construct=f'field vocabulary {t}'))
    # surface types
    st = r.methods['_read_surf_type']
    tm = None
    for n in ast.walk(st.node):
        if isinstance(n, ast.Dict):
            tm = {k.value: v.value for k, v in zip(n.keys, n.values)
                  if isinstance(k, ast.Constant) and isinstance(v, ast.Constant)}
    fac = P.func('SurfaceFactory.create_surface')
    cfg = set()
    for n in ast.walk(fac.node):
        if isinstance(n, ast.Dict):
            for k, v in zip(n.keys, n.values):
                if isinstance(k, ast.Constant) and isinstance(v, ast.Dict):
                    cfg.add(k.value)
    cvm = _cls(P, 'ZemaxToOpticConverter').methods[
        '_configure_surface_coefficients']
    handled = {n.comparators[0].value for n in ast.walk(cvm.node)
               if isinstance(n, ast.Compare) and
               isinstance(n.comparators[0], ast.Constant)}
    if tm is None:
        raise AnalysisError('surface type map not found')
    for z, o in tm.items():
        if o in cfg and o in handled:
            res.ok(f'{z} -> {o!r}: known to the factory and the converter')
        else:
            res.fail(ctx.finding('ZMX-VOCAB', st, None,
                                 f'surface type {z} -> {o!r} is not known to '
                                 f'the surface factory {sorted(cfg)} / '
                                 f'converter {sorted(handled)}',
                                 construct=f'surface vocabulary {z}'))
    if tm.get('STANDARD') == 'standard' and tm.get('EVENASPH') == 'even_asphere':
        res.ok('STANDARD -> standard, EVENASPH -> even_asphere')
    else:
        res.fail(ctx.finding('ZMX-VOCAB', st, None,
                             f'surface type map is {tm}',
                             construct='surface type map'))
    return res


def parm_offset(ctx):
    P = ctx.P
    res = Result('PARM-OFFSET', 'PARM n -> key param_(n-1) -> coefficient '
                 'index n-1 -> term c[i] r^(2(i+1)) = r^(2n)')
    r = _cls(P, 'ZemaxFileReader').methods['_read_surface_parameter']
    s = Code(P, r)
    ok1 = "f'param_{int(data[1]) - 1}'" in s and 'float(data[2])' in s
    cv = _cls(P, 'ZemaxToOpticConverter').methods[
        '_configure_surface_coefficients']
    s2 = Code(P, cv)
    ok2 = 'for k in range(8)' in s2 and "coefficients.append(data[f'param_{k}'])" \
        in s2
    sag = P.func('EvenAsphere.sag')
    s3 = Code(P, sag)
    ok3 = 'for i, Ci in enumerate(self.c)' in s3 and 'Ci * r2 ** (i + 1)' in s3
    fac = P.func('SurfaceFactory._configure_even_asphere_geometry')
    s4 = Code(P, fac)
    ok4 = "coefficients = kwargs.get('coefficients', [])" in s4 and \
        'EvenAsphere(cs, radius, conic, tol, max_iter, coefficients)' in s4
    for name, ok, f in (('reader: PARM n -> param_(n-1) := float(token 2)',
                         ok1, r),
                        ('converter: coefficients[k] := param_k, k = 0..7',
                         ok2, cv),
                        ('factory forwards coefficients to EvenAsphere', ok4,
                         fac),
                        ('sag: c[i] * r^(2(i+1))', ok3, sag)):
        res.saw(f)
        if ok:
            res.ok(name)
        else:
            res.fail(ctx.finding('PARM-OFFSET', f, f.node,
                                 f'aspheric coefficient chain broken at: {name}',
                                 construct=name.split(':')[0]))
    return res


def mode_raises(ctx):
    P = ctx.P
    res = Result('MODE-RAISES / ENCODINGS', 'non-sequential mode raises '
                 'ValueError and no handler between the reader and '
                 'load_zemax_file catches it; utf-16 and utf-8 are both tried')
    c = _cls(P, 'ZemaxFileReader')
    m = c.methods['_read_mode']
    res.saw(m)
    src = Code(P, m)
    if "data[1] != 'SEQ'" in src and 'raise ValueError' in src:
        res.ok("MODE != SEQ raises ValueError")
    else:
        res.fail(ctx.finding('MODE-RAISES', m, m.node,
                             'non-sequential mode is not rejected',
                             construct='_read_mode raise'))
    rf = c.methods['_read_file']
    res.saw(rf)
    catchers = []
    for n in ast.walk(rf.node):
        if isinstance(n, ast.Try):
            # does this try enclose the operand dispatch call?
            encl = any(isinstance(x, ast.Call) and
                       '_operand_table' in unparse(x.func)
                       for b in n.body for x in ast.walk(b))
            if not encl:
                continue
            for h in n.handlers:
                names = []
                if h.type is None:
                    names = ['<bare>']
                else:
                    for e in ast.walk(h.type):
                        if isinstance(e, ast.Name):
                            names.append(e.id)
                catchers.append((h, names))
    bad = [(h, ns) for h, ns in catchers
           if set(ns) & {'<bare>', 'Exception', 'BaseException', 'ValueError'}]
    if not catchers:
        raise AnalysisError('_read_file: handlers around the dispatch not found')
    if bad:
        for h, ns in bad:
            res.fail(ctx.finding(
                'MODE-RAISES', rf, h,
                f'handler `except {", ".join(ns)}` around the keyword dispatch '
                f'swallows the ValueError raised for non-sequential files: '
                f'such files are imported instead of rejected',
                construct=f'except {", ".join(ns)} around dispatch'))
    else:
        res.ok(f'handlers around the dispatch catch only '
               f'{[ns for h, ns in catchers]}')
    for q in ('ZemaxFileReader.__init__', 'ZemaxFileReader.generate_lens'):
        f = P.func(q)
        if any(isinstance(n, ast.Try) for n in ast.walk(f.node)):
            res.fail(ctx.finding('MODE-RAISES', f, f.node,
                                 f'{q} wraps reading in a try block',
                                 construct=f'{q} try'))
    lf = [f for (rel, n), f in P.funcs.items() if n == 'load_zemax_file']
    if not lf:
        raise AnalysisError('load_zemax_file not found')
    if any(isinstance(n, ast.Try) for n in ast.walk(lf[0].node)):
        res.fail(ctx.finding('MODE-RAISES', lf[0], lf[0].node,
                             'load_zemax_file catches exceptions of the reader',
                             construct='load_zemax_file try'))
    else:
        res.ok('load_zemax_file lets reader errors propagate')
    encs = [e.value for n in ast.walk(rf.node) if isinstance(n, ast.List)
            for e in n.elts if isinstance(e, ast.Constant)]
    if 'utf-16' in encs and 'utf-8' in encs:
        res.ok("encodings tried: 'utf-16', 'utf-8'")
    else:
        res.fail(ctx.finding('MODE-RAISES', rf, rf.node,
                             f'encodings tried: {encs}',
                             construct='encodings'))
    s = Code(P, rf)
    if 'encoding=encoding' in s and 'for encoding in encodings' in s:
        res.ok('each encoding is used to open the file')
    else:
        res.fail(ctx.finding('MODE-RAISES', rf, rf.node,
                             'the encodings are not applied when opening',
                             construct='encoding applied'))
    if "raise ValueError('Failed to read Zemax file.')" in s and \
            'if not success' in s:
        res.ok('nothing parsed -> ValueError')
    # "fields ... are exactly those written in the file": the x and y lists
    # (each already cut to the declared number of fields) are kept in the
    # written order - no sorting, no set
    fsrc = [st for st in ast.walk(rf.node)
            if isinstance(st, ast.Assign) and "['fields']" in unparse(st)]
    reorder = any(isinstance(c_, ast.Call) and unparse(c_.func) in (
        'sorted', 'set', 'np.unique', 'np.sort') and
        ('field' in unparse(c_) or 'pair' in unparse(c_))
        for c_ in ast.walk(rf.node)) or any(
        isinstance(c_, ast.Call) and isinstance(c_.func, ast.Attribute) and
        c_.func.attr in ('sort', 'add') and 'field' in unparse(c_.func.value)
        for c_ in ast.walk(rf.node))
    kept = all(
        any(unparse(st.targets[0]) == f"self.data['fields']['{ax}']" and
            f"self.data['fields']['{ax}'][:" in unparse(st.value)
            for st in fsrc) for ax in 'xy')
    if not reorder and kept:
        res.ok('field points kept in the written order (prefix of the x and '
               'y lists of equal length)')
    else:
        res.fail(ctx.finding(
            'MODE-RAISES', rf, rf.node,
            'the field points are collected in a set and re-sorted by y: '
            'YFLN 0 10 -10 7 -7 loads as -10 -7 0 7 10, equal-y points come '
            'out in set order and a point listed twice is dropped (4 fields '
            'become 3)', construct='field order / duplicates'))
    return res


def glass(ctx):
    P = ctx.P
    res = Result('GLASS', 'GLAS: catalogue name first, then vendor catalogues, '
                 'then the model glass built from the index and Abbe number '
                 'written in the file (tokens 4 and 5)')
    m = _cls(P, 'ZemaxFileReader').methods['_read_glass']
    res.saw(m)
    s = Code(P, m)
    checks = [
        ("['index'] = float(data[4])" in s, 'index <- token 4'),
        ("['abbe'] = float(data[5])" in s, 'abbe <- token 5'),
        ("Material(material)" in s or "self._exact_material(material)" in s,
         'catalogue lookup by name'),
        ("Material(material, manufacturer.lower())" in s or
         "self._exact_material(material, manufacturer.lower())" in s,
         'vendor catalogue fallback'),
        ("AbbeMaterial(n, v)" in s and "n = self._current_surf_data['index']"
         in s and "v = self._current_surf_data['abbe']" in s,
         'model glass AbbeMaterial(index, abbe)'),
        ("not isinstance(self._current_surf_data['material'], BaseMaterial)"
         in s, 'model glass only when no catalogue entry was found'),
    ]
    for ok, name in checks:
        if ok:
            res.ok(name)
        else:
            res.fail(ctx.finding('GLASS', m, m.node,
                                 f'glass resolution: {name} violated',
                                 construct='glass ' + name))
    # every value stored as the surface material is built from this line's
    # own tokens (no memo keyed by name: model glasses share one name), and no
    # path leaves before the fallback chain has run
    from ..match import match, parse
    if 'material = data[1]' not in s:
        res.fail(ctx.finding('GLASS', m, m.node, 'glass name is not token 1',
                             construct='glass name token'))
    # 'material' alone: the placeholder name, replaced below unless no
    # catalogue knows it (then the isinstance test sends it to the model glass)
    # "the catalogue glass of that name when there is one": the catalogue
    # search returns the nearest name whatever its distance (SF3 -> LASF35),
    # so a hit may only be stored after a test that the entry's own name is
    # the GLAS name; a bare Material(material) store is a finding
    allowed = [parse(x) for x in ('material', "'mirror'",
                                  'self._exact_material(material)',
                                  'self._exact_material(material, '
                                  'manufacturer.lower())',
                                  'AbbeMaterial(n, v)')]
    bare = [st for st in ast.walk(m.node) if isinstance(st, ast.Assign) and
            unparse(st.targets[0]) == "self._current_surf_data['material']"
            and isinstance(st.value, ast.Call) and
            unparse(st.value.func) == 'Material']
    ex = _cls(P, 'ZemaxFileReader').methods.get('_exact_material')
    ex_ok = False
    if ex is not None:
        res.saw(ex)
        es = unparse(ex.node, 100000)
        ctor = any(isinstance(c_, ast.Call) and unparse(c_.func) == 'Material'
                   and [unparse(a_) for a_ in c_.args] == list(ex.params[:2])
                   for c_ in ast.walk(ex.node))
        guard = any(isinstance(n_, ast.If) and isinstance(
            n_.test, ast.Compare) and isinstance(n_.test.ops[0], ast.NotIn)
            and unparse(n_.test.left) == f'{ex.params[0]}.lower()' and
            any(isinstance(b_, ast.Raise) for b_ in n_.body)
            for n_ in ast.walk(ex.node))
        own = "found['name']" in es and '.lower()' in es
        ex_ok = ctor and guard and own
    if bare or not ex_ok:
        res.fail(ctx.finding(
            'GLASS', m, bare[0] if bare else m.node,
            'a catalogue hit is stored without a test that the entry found '
            'is named like the GLAS line: the catalogue search returns the '
            'nearest name whatever its distance - SF3 becomes LASF35 (n_d '
            '1.740 -> 2.022, EFL 34.5 -> 25.1), SK1 becomes SK16, LF3 a '
            'polymer, PC becomes PCD4 - and the written n_d / V_d are '
            'discarded', construct='glass nearest-name substitution'))
    else:
        res.ok('catalogue hits are accepted only when the entry\'s own name '
               'is the GLAS name (else the model glass of the written n_d, '
               'V_d)')
    nst = 0
    for st in ast.walk(m.node):
        if isinstance(st, (ast.Assign, ast.AugAssign)):
            tg = st.targets[0] if isinstance(st, ast.Assign) else st.target
            if unparse(tg) == "self._current_surf_data['material']":
                nst += 1
                if not any(match(a, st.value, {}) is not None for a in allowed):
                    res.fail(ctx.finding(
                        'GLASS', m, st,
                        f'surface material taken from {unparse(st.value)}: not '
                        f'built from the name, index and Abbe number of this '
                        f'GLAS line', construct='glass material source'))
        if isinstance(st, ast.Return):
            # the only early exit: the MIRROR keyword (a reflecting surface
            # has no glass to resolve)
            par = [p_ for p_ in ast.walk(m.node) if isinstance(p_, ast.If) and
                   st in p_.body]
            if par and unparse(par[0].test) in (
                    "material.upper() == 'MIRROR'", "material == 'MIRROR'"):
                continue
            res.fail(ctx.finding('GLASS', m, st,
                                 'a path leaves _read_glass before the '
                                 'catalogue / model-glass chain',
                                 construct='glass early return'))
    if nst < 4:
        raise AnalysisError('_read_glass: material stores not found')
    res.ok(f'{nst} material stores, each built from this line\'s tokens')
    # GLAS MIRROR: a mirror is not a glass
    mir = [p_ for p_ in ast.walk(m.node) if isinstance(p_, ast.If) and
           unparse(p_.test) in ("material.upper() == 'MIRROR'",
                                "material == 'MIRROR'") and
           any("self._current_surf_data['material'] = 'mirror'" in unparse(b)
               for b in p_.body)]
    if mir:
        res.ok("GLAS MIRROR -> material 'mirror' (reflecting surface)")
    else:
        res.fail(ctx.finding(
            'GLASS', m, m.node,
            'the MIRROR keyword of a GLAS line is not recognised: a mirror '
            'is imported as a refracting model glass built from the dummy '
            'index and Abbe number on the line',
            construct='glass MIRROR keyword'))
    ab = P.func('AbbeMaterial.__init__')
    if ab.params[:2] == ['n', 'abbe']:
        res.ok('AbbeMaterial(n, abbe) parameter order')
    else:
        res.fail(ctx.finding('GLASS', ab, ab.node,
                             'AbbeMaterial parameter order changed',
                             construct='AbbeMaterial params'))
    return res


def c01_wiring(ctx):
    """shared with C01: what the converter hands to add_surface reaches the
    geometry (surface-type table, keyword filtering, constructor order)"""
    from .C01 import arg_wiring_rule as _r
    return _r(ctx)

def c04_vertex_curvature(ctx):
    """shared with C04: PARM 1 of an EVENASPH surface is the r^2 coefficient"""
    from .C04 import vertex_curvature as _r
    return _r(ctx)

def c18_exact_name_first(ctx):
    """shared with C18: GLAS names are resolved through Material(name)"""
    from .C18 import exact_name_first as _r
    return _r(ctx)

def model_anchor(ctx):
    """'otherwise the model glass with the file's index and Abbe number':
    the medium that is traced for an unknown GLAS name must have n(d) = n_d
    and (n_d - 1) / (n_F - n_C) = V_d.  AbbeMaterial.n is evaluated
    symbolically at the d, F and C lines with np.polyval opaque: the two
    identities must hold for every coefficient vector (a regression on
    (n, V) alone constrains neither)."""
    from ..rat import Ev, Rat, Sym, rat_eq, Inconclusive, ONE
    A = Rat.atom
    P = ctx.P
    res = Result('MODEL-ANCHOR', 'AbbeMaterial: n(lambda_d) = index and '
                 '(index - 1) / (n(lambda_F) - n(lambda_C)) = abbe identically')
    gn = P.func('AbbeMaterial.n')
    res.saw(gn)
    lines = {'d': 0.5875618, 'F': 0.4861327, 'C': 0.6562725}
    used = {}
    for c in ast.walk(gn.node):
        if isinstance(c, ast.Constant) and isinstance(c.value, float):
            for k, v in lines.items():
                if abs(c.value - v) < 1e-3:
                    used[k] = c.value
    vals = {}
    for k, v in lines.items():
        lam = used.get(k, v)
        sym = Sym()

        def inline(call, ev, sym=sym):
            if unparse(call.func) == 'np.polyval' and len(call.args) == 2:
                x = ev.ev(call.args[1])
                return sym.opaque('polyval', (x,))
            return None
        ev = Ev(sym=sym, inline=inline)
        from fractions import Fraction
        ev.env[gn.params[0]] = Rat.const(Fraction(str(lam)))
        try:
            ev.run(gn.node.body)
        except Inconclusive as e:
            raise AnalysisError(f'AbbeMaterial.n: {e}')
        vals[k] = (ev.returned, sym)
    nd, symd = vals['d']
    idx, ab = A('self.index'), A('self.abbe')
    ok_d = isinstance(nd, Rat) and symd.eq(nd, idx)
    # opaque atoms are named by their arguments, so values of different runs
    # can be combined
    nF, nC = vals['F'][0], vals['C'][0]
    ok_v = ok_d and isinstance(nF, Rat) and isinstance(nC, Rat) and \
        rat_eq((nF - nC) * ab, idx - ONE)
    if ok_d and ok_v:
        res.ok('n(d) = index, (index - 1) / (n_F - n_C) = abbe')
    else:
        res.fail(ctx.finding(
            'MODEL-ANCHOR', gn, gn.node,
            'n(lambda) is the bare regression polynomial '
            'polyval([n, V, n^2, ...] @ coefficients, lambda): nothing makes '
            'it pass through n_d at the d line or have the dispersion '
            '(n_d - 1) / V_d; for GLAS ___BLANK 1 0 1.80518 25.43 the traced '
            'medium has n(d) = n_d - 4.8e-4 and V = 25.93 (EFL of a biconvex '
            'singlet +5.9e-4 relative), for 1.95 / 18.0 V = 20.79',
            construct='model glass not anchored to (n_d, V_d)'))
    return res


def c01_flat_conic(ctx):
    """shared with C01: CONI written for a surface of zero curvature"""
    from .C01 import flat_conic as _r
    return _r(ctx)



def no_stale(ctx):
    from .common import stale_cache
    return stale_cache(ctx, 'NO-STALE-STATE', [],
                       'the imported lens depends on what was imported before', min_methods=0)


def c18_model_glass(ctx):
    """shared with C18: the model glass an unknown name is replaced by has the
    index and Abbe number of the file (no clamping of the inputs)"""
    from .C18 import model_glass as _r
    return _r(ctx)

RULES = [c18_model_glass, no_stale, c01_flat_conic, model_anchor, c18_exact_name_first, c04_vertex_curvature, c01_wiring, dispatch, keys_and_wiring, vocab, parm_offset, mode_raises, glass]

"""C14 -- optimisers leave the lens at the returned solution (structural)."""
import ast
from ..core import Result
from ..pm import AnalysisError, unparse
from ..pm import base_name
from ..match import Code
from ..paths import ipaths, paths, annotate, callee_names, call_attr
from ..rat import Ev, Rat, Sym, fn_eval, rat_eq, Inconclusive, ONE

META = {
    'explanation': (
        'APPLY-RESULT / UNDO-UPDATES / PUSH-BEFORE-RUN are path rules over every '
        'optimiser front end (discovered: methods that hand self._fun to '
        'scipy.optimize); MERIT compares the normal forms of Operand.fun, '
        'OptimizerGeneric._fun and OptimizationProblem.sum_squared; '
        'SCALE-INVERSE proves inverse_scale(scale(v)) = v for every variable '
        'behaviour by rational normal form; GET-SET-SYMMETRY, BOUNDS-UNITS and '
        'VAR-DISPATCH compare guards, locations and dispatch tables.'),
    'declined': ['objective not worse than at the start (depends on scipy)',
                 'bounds honoured by scipy', 'differential-evolution worker '
                 'schedules'],
    'trusted': ['scipy.optimize returns an OptimizeResult whose .x is the '
                'solution vector', 'call resolution (E0)',
                'ring axioms of exact rational arithmetic'],
}

UPDATE = 'Variable.update'
UPD_OPT = 'OptimizationProblem.update_optics'


def _front_ends(P):
    """methods that call scipy optimize.* with the objective self._fun."""
    out = []
    for f in P.all_funcs():
        for n in ast.walk(f.node):
            if isinstance(n, ast.Call) and base_name(n.func) == 'optimize' and \
                    any(isinstance(a, ast.Attribute) and a.attr == '_fun'
                        for a in list(n.args) + [k.value for k in n.keywords]):
                out.append((f, n))
                break
    return out


def _same_class(f):
    return lambda c: c.cls is not None and (c.cls == f.cls or
                                             c.name == '_fun')


def apply_result(ctx):
    P = ctx.P
    res = Result('APPLY-RESULT', 'between the scipy call and the return of its '
                 'result every path applies result.x through Variable.update '
                 'and then updates the optics (pickups/solves)')
    fes = _front_ends(P)
    for f, scipy_call in fes:
        res.saw(f)
        # name bound to the scipy result
        rname = None
        for n in ast.walk(f.node):
            if isinstance(n, ast.Assign) and n.value is scipy_call and \
                    isinstance(n.targets[0], ast.Name):
                rname = n.targets[0].id
        bad = None
        # loops taken once: an update loop over zero variables is vacuous
        for p in annotate(P, f, paths(f, loop_iters=(1,))):
            if p.exit == 'raise':
                continue
            idx = [i for i, e in enumerate(p.events)
                   if e.kind == 'call' and e.node is scipy_call]
            if not idx:
                continue
            after = p.events[idx[-1] + 1:]
            applied = False
            updated = False
            for e in after:
                if e.kind != 'call':
                    continue
                names = callee_names(e)
                src = unparse(e.node)
                if any(n.endswith('._fun') for n in names) and rname and \
                        f'{rname}.x' in src:
                    applied = updated = True
                elif UPDATE in names and rname and f'{rname}.x' in src:
                    applied = True
                elif UPD_OPT in names and applied:
                    updated = True
            if not (applied and updated):
                bad = p
                break
        if bad is not None:
            res.fail(ctx.finding(
                'APPLY-RESULT', f, scipy_call,
                'optimize() returns without applying result.x to the '
                'variables (and re-applying pickups/solves): the lens is left '
                'at the last evaluated point, not at the returned solution',
                construct='return of scipy result without Variable.update('
                'result.x[i]) + update_optics()', path=bad.describe()))
        else:
            res.ok(f'{f.qual}: result.x applied and optics updated before '
                   f'return')
    res.require(4, 'optimiser front ends')
    return res


def push_before_run(ctx):
    P = ctx.P
    res = Result('PUSH-BEFORE-RUN', 'the starting vector (current variable '
                 'values) is pushed on the undo history before scipy runs')
    for f, scipy_call in _front_ends(P):
        res.saw(f)
        bad = None
        for p in annotate(P, f, paths(f)):
            idx = [i for i, e in enumerate(p.events)
                   if e.kind == 'call' and e.node is scipy_call]
            if not idx:
                continue
            before = p.events[:idx[-1]]
            pushes = [e for e in before if e.kind == 'call' and
                      call_attr(e) == 'append' and
                      unparse(e.node.func.value).endswith('._x')]
            if not pushes:
                bad = p
                break
            # pushed value derives from var.value of the problem variables
            arg = pushes[-1].node.args[0]
            src = None
            if isinstance(arg, ast.Name):
                for n in ast.walk(f.node):
                    if isinstance(n, ast.Assign) and \
                            isinstance(n.targets[0], ast.Name) and \
                            n.targets[0].id == arg.id:
                        src = unparse(n.value)
            else:
                src = unparse(arg)
            if not src or '.value' not in src or 'variables' not in src:
                bad = p
                break
        if bad is not None:
            res.fail(ctx.finding(
                'PUSH-BEFORE-RUN', f, scipy_call,
                'the optimiser runs without first recording the current '
                'variable values for undo()',
                construct='scipy call not preceded by self._x.append(values)',
                path=bad.describe()))
        else:
            res.ok(f'{f.qual}: self._x.append([var.value ...]) precedes scipy')
    res.require(4)
    return res


def undo_updates(ctx):
    P = ctx.P
    res = Result('UNDO-UPDATES', 'undo() restores every variable from the last '
                 'history entry, pops it, and updates the optics')
    f = P.func('OptimizerGeneric.undo')
    res.saw(f)
    bad = None
    n_paths = 0
    for p in annotate(P, f, paths(f)):
        ups = [e for e in p.events if e.kind == 'call' and
               UPDATE in callee_names(e)]
        if not ups:
            continue
        n_paths += 1
        last = p.events.index(ups[-1])
        after = p.events[last + 1:]
        if not any(e.kind == 'call' and UPD_OPT in callee_names(e)
                   for e in after):
            bad = (p, 'variables restored but update_optics() not called: '
                   'pickups and solves are left stale after undo()')
            break
        if not any(e.kind == 'call' and call_attr(e) == 'pop'
                   for e in p.events):
            bad = (p, 'history entry not popped')
            break
        # restored values come from the last history entry
        src = unparse(ups[0].node)
        ok_src = False
        for n in ast.walk(f.node):
            if isinstance(n, ast.Assign) and isinstance(n.targets[0], ast.Name)\
                    and n.targets[0].id in src and \
                    unparse(n.value).replace(' ', '') == 'self._x[-1]':
                ok_src = True
        if not ok_src and 'self._x[-1]' not in src:
            bad = (p, 'restored values are not taken from self._x[-1]')
            break
    if n_paths == 0:
        bad = (None, 'undo() never calls Variable.update')
    if bad:
        res.fail(ctx.finding('UNDO-UPDATES', f, f.node, bad[1],
                             construct='undo: ' + bad[1].split(':')[0],
                             path=bad[0].describe() if bad[0] else None))
    else:
        res.ok('undo: update from self._x[-1], pop, update_optics')
    return res


# --------------------------------------------------------------- merit
def _comp_sum_form(P, func, sym):
    """normal form of `sum over operands of g(op)` -> (iter source, Rat of the
    summand with op.fun() as atom) for _fun (non-NaN arm) / sum_squared."""
    raise NotImplementedError


def merit(ctx):
    P = ctx.P
    res = Result('MERIT', 'Operand.fun = weight*(value-target); _fun and '
                 'sum_squared are both sum over operands of fun()**2')
    # Operand.fun / delta
    sym = Sym()
    fd = P.func('Operand.delta')
    ff = P.func('Operand.fun')
    res.saw(fd), res.saw(ff)

    def inline(call, ev):
        f = call.func
        if isinstance(f, ast.Attribute) and f.attr == 'delta' and \
                isinstance(f.value, ast.Name) and f.value.id == 'self':
            return fn_eval(P, fd, sym=sym).returned
    try:
        v = fn_eval(P, ff, sym=sym, inline=inline).returned
        want = Rat.atom('self.weight') * (Rat.atom('self.value') -
                                          Rat.atom('self.target'))
        if v is not None and rat_eq(v, want):
            res.ok('Operand.fun() == weight * (value - target)')
        else:
            res.fail(ctx.finding('MERIT', ff, ff.node,
                                 f'Operand.fun() is {v}, expected '
                                 f'weight*(value-target)',
                                 construct='Operand.fun normal form'))
    except Inconclusive as e:
        raise AnalysisError(f'MERIT: Operand.fun outside fragment: {e}')

    # summand forms
    def summand(func):
        """find `np.sum(X)` where X is array([E for op in OPS]) ** k or an alias
        thereof; return (OPS source, normal form of summand in atom F=op.fun())"""
        env_defs = {}
        for n in ast.walk(func.node):
            if isinstance(n, ast.Assign) and isinstance(n.targets[0], ast.Name):
                env_defs[n.targets[0].id] = n.value
        target = None
        for n in ast.walk(func.node):
            if isinstance(n, ast.Call) and isinstance(n.func, ast.Attribute) \
                    and n.func.attr == 'sum' and base_name(n.func) == 'np':
                target = n.args[0]
        if target is None:
            return None

        def form(e, depth=0):
            if depth > 6:
                return None
            if isinstance(e, ast.Name) and e.id in env_defs:
                return form(env_defs[e.id], depth + 1)
            if isinstance(e, ast.Call) and isinstance(e.func, ast.Attribute) \
                    and e.func.attr in ('array', 'asarray') and e.args:
                return form(e.args[0], depth + 1)
            if isinstance(e, ast.Call) and isinstance(e.func, ast.Attribute) \
                    and isinstance(e.func.value, ast.Name) and \
                    e.func.value.id == 'self':
                g = P.lookup(func.cls, e.func.attr)
                if g is not None:
                    rets = [n for n in ast.walk(g.node)
                            if isinstance(n, ast.Return)]
                    if len(rets) == 1:
                        return form(rets[0].value, depth + 1)
            if isinstance(e, ast.BinOp) and isinstance(e.op, ast.Pow):
                b = form(e.left, depth + 1)
                if b and isinstance(e.right, ast.Constant):
                    return (b[0], b[1] ** int(e.right.value))
                return None
            if isinstance(e, ast.ListComp) and len(e.generators) == 1:
                g = e.generators[0]
                ev = Ev()
                ev.env[g.target.id] = Rat.atom('op')
                s = unparse(e.elt)
                # op.fun() as an opaque atom
                class E2(Ev):
                    def call(self2, c):
                        if isinstance(c.func, ast.Attribute) and \
                                c.func.attr == 'fun' and not c.args:
                            return Rat.atom('F')
                        return super().call(c)
                try:
                    v = E2().ev(e.elt)
                except Inconclusive:
                    return None
                its = unparse(g.iter).replace('self.problem.', 'self.')
                return (its, v)
            return None
        return form(target)

    f1 = P.func('OptimizerGeneric._fun')
    f2 = P.func('OptimizationProblem.sum_squared')
    res.saw(f1), res.saw(f2)
    a, b = summand(f1), summand(f2)
    F2 = Rat.atom('F') * Rat.atom('F')
    for fn, s in ((f1, a), (f2, b)):
        if s is None:
            raise AnalysisError(f'MERIT: sum form of {fn.qual} not recognised')
        if s[0] == 'self.operands' and rat_eq(s[1], F2):
            res.ok(f'{fn.qual} = sum over operands of fun()**2')
        else:
            res.fail(ctx.finding('MERIT', fn, fn.node,
                                 f'{fn.qual} sums {s[1]} over {s[0]}, expected '
                                 f'fun()**2 over the operands',
                                 construct='merit sum form'))
    # _fun applies x to the variables and updates optics before evaluating
    bad = None
    for p in annotate(P, f1, paths(f1)):
        ups = [i for i, e in enumerate(p.events) if e.kind == 'call'
               and UPDATE in callee_names(e)]
        uo = [i for i, e in enumerate(p.events) if e.kind == 'call'
              and UPD_OPT in callee_names(e)]
        fun = [i for i, e in enumerate(p.events) if e.kind == 'call'
               and call_attr(e) == 'fun']
        loops = [e for e in p.events if e.kind == 'loop' and e.extra]
        if not fun:
            continue
        if not uo or (ups and not (max(ups) < min(uo) < min(fun))) or \
                (not ups and len(loops) >= 1):
            bad = p
    # the update loop must exist syntactically
    has_update = any(isinstance(n, ast.Call) and isinstance(n.func, ast.Attribute)
                     and n.func.attr == 'update' for n in ast.walk(f1.node))
    if bad is not None or not has_update:
        res.fail(ctx.finding('MERIT', f1, f1.node,
                             '_fun does not (update variables -> update optics '
                             '-> evaluate operands) in that order',
                             construct='_fun ordering',
                             path=bad.describe() if bad else None))
    else:
        res.ok('_fun: var.update(x[i]) < update_optics < op.fun()')
    return res


# --------------------------------------------------------------- variables
def _behaviours(P):
    if 'VariableBehavior' not in P.classes:
        raise AnalysisError('VariableBehavior not found')
    return [c for c in P.subclasses('VariableBehavior')
            if c != 'VariableBehavior']


def scale_inverse(ctx):
    P = ctx.P
    res = Result('SCALE-INVERSE', 'inverse_scale(scale(v)) = v and '
                 'scale(inverse_scale(s)) = s for every variable behaviour '
                 '(rational normal form)', level='proof')
    for cn in _behaviours(P):
        sc = P.lookup(cn, 'scale')
        inv = P.lookup(cn, 'inverse_scale')
        res.saw(sc), res.saw(inv)
        try:
            sym = Sym()
            v = Rat.atom('v')
            s_of_v = fn_eval(P, sc, [v], sym=sym).returned
            back = fn_eval(P, inv, [s_of_v], sym=sym).returned
            s = Rat.atom('s')
            i_of_s = fn_eval(P, inv, [s], sym=sym).returned
            fwd = fn_eval(P, sc, [i_of_s], sym=sym).returned
        except Inconclusive as e:
            raise AnalysisError(f'SCALE-INVERSE {cn}: outside fragment: {e}')
        if back is not None and sym.eq(back, v) and sym.eq(fwd, s):
            res.ok(f'{cn}: inverse_scale(scale(v)) == v')
        else:
            res.fail(ctx.finding('SCALE-INVERSE', inv, inv.node,
                                 f'{cn}: inverse_scale(scale(v)) = {back} != v',
                                 construct=f'{cn} scale/inverse_scale pair'))
    res.require(9, 'variable behaviours')
    return res


def _guard_scaling(P, func, fname):
    """is every call to self.<fname> in func guarded by self.apply_scaling, and
    is there one on the scaling path?  returns (n_calls, n_unguarded)."""
    n = un = 0

    def rec(body, guarded):
        nonlocal n, un
        for s in body:
            if isinstance(s, ast.If):
                g = 'apply_scaling' in unparse(s.test) and \
                    not isinstance(s.test, ast.UnaryOp)
                for c in ast.walk(s.test):
                    pass
                rec(s.body, guarded or g)
                rec(s.orelse, guarded)
                continue
            for c in ast.walk(s):
                if isinstance(c, ast.IfExp) and 'apply_scaling' in unparse(c.test):
                    for d in ast.walk(c.body):
                        if isinstance(d, ast.Call) and isinstance(
                                d.func, ast.Attribute) and d.func.attr == fname:
                            n += 1
                            d._seen = True
            for c in ast.walk(s):
                if isinstance(c, ast.Call) and isinstance(c.func, ast.Attribute)\
                        and c.func.attr == fname and not getattr(c, '_seen', 0):
                    n += 1
                    if not guarded:
                        un += 1
            for fld in ('body', 'orelse', 'finalbody'):
                v = getattr(s, fld, None)
                if isinstance(v, list) and v and isinstance(v[0], ast.stmt) \
                        and not isinstance(s, ast.If):
                    rec(v, guarded)
            if isinstance(s, ast.Try):
                for h in s.handlers:
                    rec(h.body, guarded)
    rec(func.node.body, False)
    return n, un


def get_set_symmetry(ctx):
    P = ctx.P
    res = Result('GET-SET-SYMMETRY', 'get_value scales iff update_value '
                 'inverse-scales (same apply_scaling guard), or the scale pair '
                 'is the identity; both address the same lens location')
    for cn in _behaviours(P):
        g = P.lookup(cn, 'get_value')
        u = P.lookup(cn, 'update_value')
        sc = P.lookup(cn, 'scale')
        res.saw(g), res.saw(u)
        ng, ug = _guard_scaling(P, g, 'scale')
        nu, uu = _guard_scaling(P, u, 'inverse_scale')
        # identity scale?
        try:
            v = Rat.atom('v')
            ident = rat_eq(fn_eval(P, sc, [v]).returned, v)
        except Inconclusive:
            ident = False
        ok = (ng > 0 and nu > 0 and ug == 0 and uu == 0) or \
             (ident and ng == nu == 0) or (ident and ug == uu)
        if ng > 0 and nu == 0 and not ident or nu > 0 and ng == 0 and not ident:
            ok = False
        if ok:
            res.ok(f'{cn}: scale guards agree (get {ng}/{ug} set {nu}/{uu}'
                   f'{" identity" if ident else ""})')
        else:
            res.fail(ctx.finding(
                'GET-SET-SYMMETRY', u, u.node,
                f'{cn}: get_value applies scale {ng}x ({ug} unguarded) but '
                f'update_value applies inverse_scale {nu}x ({uu} unguarded): '
                f'setting then reading does not return the value set',
                construct=f'{cn} scaling guards'))
        # location agreement: index expressions used
        gsrc = Code(P, g)
        usrc = Code(P, u)
        idx_attrs = ['surface_number']
        for extra in ('coeff_number', 'coeff_index', 'axis'):
            if extra in unparse(P.lookup(cn, '__init__').node, 2000):
                idx_attrs.append(extra)
        miss = [a for a in idx_attrs
                if ('self.' + a in gsrc) != ('self.' + a in usrc) or
                'self.' + a not in gsrc]
        if miss:
            res.fail(ctx.finding(
                'GET-SET-SYMMETRY', u, u.node,
                f'{cn}: get_value and update_value do not both address the '
                f'lens through self.{miss[0]}',
                construct=f'{cn} location index {miss[0]}'))
        else:
            res.ok(f'{cn}: both sides indexed by {idx_attrs}')
    res.require(18)
    return res


# quantity written by update_value per variable kind (public API vocabulary)
KIND_WRITES = {
    'radius': ('call', 'Optic.set_radius'),
    'conic': ('call', 'Optic.set_conic'),
    'thickness': ('call', 'Optic.set_thickness'),
    'index': ('call', 'Optic.set_index'),
    'asphere_coeff': ('call', 'Optic.set_asphere_coeff'),
    'tilt': ('store', {'rx', 'ry'}),
    'decenter': ('store', {'x', 'y'}),
    'polynomial_coeff': ('store', {'c'}),
    'chebyshev_coeff': ('store', {'c'}),
}
KIND_READS = {
    'radius': 'radii', 'conic': 'conic', 'thickness': 'get_thickness',
    'index': '.n(', 'asphere_coeff': '.c[', 'tilt': '.cs.r',
    'decenter': '.cs.', 'polynomial_coeff': '.c[', 'chebyshev_coeff': '.c[',
}


def var_dispatch(ctx):
    P = ctx.P
    res = Result('VAR-DISPATCH', 'each variable kind maps to a behaviour whose '
                 'update_value writes, and get_value reads, that quantity; '
                 'unknown kinds raise; optimiser map of the compensator')
    f = P.func('Variable._get_variable')
    res.saw(f)
    d = None
    for n in ast.walk(f.node):
        if isinstance(n, ast.Dict) and n.keys and all(
                isinstance(k, ast.Constant) for k in n.keys if k is not None) \
                and all(isinstance(v, ast.Name) and v.id in P.classes
                        for v in n.values):
            d = n
    if d is None:
        raise AnalysisError('VAR-DISPATCH: variable_types table not found')
    eff = ctx.effects
    for k, v in zip(d.keys, d.values):
        kind, cn = k.value, v.id
        if kind not in KIND_WRITES:
            res.notes.append(f'kind {kind} has no vocabulary entry (not checked)')
            continue
        u = P.lookup(cn, 'update_value')
        g = P.lookup(cn, 'get_value')
        how, what = KIND_WRITES[kind]
        fe = eff.fe[u.qual]
        if how == 'call':
            ok = any(r and any(c.qual == what for c in r)
                     for c_, r, s in fe.calls)
        else:
            ok = any(st.attr in what for st in fe.stores)
            # axis-dependent stores must pair axis value with attribute
        okr = KIND_READS[kind] in unparse(g.node, 3000)
        if ok and okr:
            res.ok(f"'{kind}' -> {cn}: writes {what}, reads "
                   f"{KIND_READS[kind]}")
        else:
            res.fail(ctx.finding(
                'VAR-DISPATCH', f, v,
                f"variable kind '{kind}' is dispatched to {cn}, whose "
                f"{'update_value does not write' if not ok else 'get_value does not read'} "
                f"that quantity", construct=f"'{kind}': {cn}"))
    # axis pairing for tilt / decenter
    for cn, pairs in (('TiltVariable', {'x': 'rx', 'y': 'ry'}),
                      ('DecenterVariable', {'x': 'x', 'y': 'y'})):
        if cn not in P.classes:
            continue
        for mname in ('get_value', 'update_value'):
            m = P.lookup(cn, mname)
            for n in ast.walk(m.node):
                if isinstance(n, ast.If) and isinstance(n.test, ast.Compare) \
                        and 'axis' in unparse(n.test.left) and \
                        isinstance(n.test.comparators[0], ast.Constant):
                    ax = n.test.comparators[0].value
                    body_src = ' '.join(unparse(s) for s in n.body)
                    want = '.cs.' + pairs.get(ax, '?')
                    if want + ' ' in body_src + ' ' or body_src.endswith(want) \
                            or (want + ' =') in body_src:
                        res.ok(f"{cn}.{mname}: axis '{ax}' -> cs.{pairs[ax]}")
                    else:
                        res.fail(ctx.finding(
                            'VAR-DISPATCH', m, n,
                            f"{cn}.{mname}: axis '{ax}' does not address "
                            f"cs.{pairs.get(ax)}",
                            construct=f"{cn}.{mname} axis '{ax}'"))
    # unknown kind raises
    raises = [n for n in ast.walk(f.node) if isinstance(n, ast.Raise)]
    if raises:
        res.ok('unknown variable kind raises')
    else:
        res.fail(ctx.finding('VAR-DISPATCH', f, f.node,
                             'unknown variable kind does not raise',
                             construct='_get_variable else-branch'))
    res.require(10)
    return res


def bounds_units(ctx):
    P = ctx.P
    res = Result('BOUNDS-UNITS', 'Variable.bounds scales the bounds iff the '
                 'value is scaled (apply_scaling)')
    f = P.func('Variable.bounds')
    res.saw(f)
    n, un = _guard_scaling(P, f, 'scale')
    if n == 0:
        # acceptable only if behaviours' get_value never scale
        res.fail(ctx.finding('BOUNDS-UNITS', f, f.node,
                             'bounds are never scaled although values are',
                             construct='Variable.bounds without scale'))
    elif un:
        res.fail(ctx.finding(
            'BOUNDS-UNITS', f, f.node,
            'Variable.bounds applies scale() to the bounds unconditionally, '
            'but get_value scales only when apply_scaling is set: with '
            'apply_scaling=False the bounds are in different units than the '
            'value', construct='unguarded self.variable.scale(bound)'))
    else:
        res.ok('bounds scaled under the apply_scaling guard')
    # absent bounds are recognised by `is None`, never by truthiness: a bound
    # of exactly 0 is a bound
    bad = None
    for nd in ast.walk(f.node):
        if isinstance(nd, (ast.If, ast.IfExp, ast.While)):
            tests = [nd.test]
        elif isinstance(nd, ast.BoolOp):
            tests = list(nd.values)
        else:
            continue
        for t in tests:
            core_t = t.operand if isinstance(t, ast.UnaryOp) and isinstance(
                t.op, ast.Not) else t
            txt = unparse(core_t)
            if isinstance(core_t, (ast.Name, ast.Attribute)) and (
                    'min_val' in txt or 'max_val' in txt):
                bad = (nd, txt)
    if bad:
        res.fail(ctx.finding(
            'BOUNDS-UNITS', f, bad[0],
            f'Variable.bounds tests the truth value of {bad[1]}: a bound of '
            f'exactly 0 is taken for "no bound" and returned unscaled while '
            f'the value is scaled', construct='bound tested by truthiness'))
    else:
        res.ok('absent bounds are detected with `is None`')
    # update() hands the optimiser's / sampler's value to the behaviour
    # unchanged: what is recorded as applied is what the lens gets
    u = P.func('Variable.update')
    res.saw(u)
    got = {}

    def inline(call, ev):
        fn = call.func
        if isinstance(fn, ast.Attribute) and fn.attr == 'update_value':
            got.setdefault('v', []).append(ev.ev(call.args[0])
                                           if call.args else None)
            return Rat.atom('DONE')
        return None
    from ..rat import explore

    def run(ch):
        got.clear()
        ev = fn_eval(P, u, inline=inline, choose=ch)
        return list(got.get('v', []))
    try:
        outs = explore(run)
    except Inconclusive as e:
        raise AnalysisError(f'Variable.update: {e}')
    okp = all(len(v) == 1 and isinstance(v[0], Rat) and
              rat_eq(v[0], Rat.atom(u.params[0])) for _, v in outs)
    if okp:
        res.ok('Variable.update passes the given value on unchanged on every '
               'path')
    else:
        res.fail(ctx.finding(
            'BOUNDS-UNITS', u, u.node,
            'Variable.update alters the value before applying it (or skips '
            'the update on some path): the value written to the lens is not '
            'the one the caller holds (optimiser vector, recorded '
            'perturbation)', construct='Variable.update value passed on'))
    return res


def operand_chain(ctx):
    """what the merit function evaluates is the registered metric of the
    operand's own type called with the operand's own inputs."""
    from .common import arg_wiring
    from ..match import find, find_seq
    P = ctx.P
    res = arg_wiring(ctx, 'OPERAND-CHAIN', [
        ('OptimizationProblem.add_operand', 'Operand.__init__',
         {'operand_type': 'operand_type', 'target': 'target',
          'weight': 'weight', 'input_data': 'input_data'}),
        ('OptimizationProblem.add_variable', 'Variable.__init__',
         {'optic': 'optic', 'variable_type': 'type_name', '**kwargs': '**'}),
    ])
    res.what = ('operands: add_operand -> Operand(type, target, weight, '
                'inputs); value = registry[type](**inputs); paraxial '
                'wrappers call the accessor of their own name')
    oi = P.func('Operand.__init__')
    res.saw(oi)
    got = {}
    for st in ast.walk(oi.node):
        if isinstance(st, ast.Assign) and isinstance(
                st.targets[0], ast.Attribute):
            got[st.targets[0].attr] = unparse(st.value)
    want = {'type': 'operand_type', 'target': 'target', 'weight': 'weight',
            'input_data': 'input_data'}
    if got == want:
        res.ok('Operand.__init__ stores type, target, weight, input_data')
    else:
        res.fail(ctx.finding('OPERAND-CHAIN', oi, oi.node,
                             f'Operand.__init__ stores {got}',
                             construct='Operand.__init__ stores'))
    ov = P.classes['Operand'].props.get('value')
    if ov is None:
        raise AnalysisError('Operand.value not found')
    res.saw(ov)
    okv = False
    for b in find_seq(ov, ['$m = operand_registry.get(self.type)']):
        for r_ in ast.walk(ov.node):
            if isinstance(r_, ast.Return) and isinstance(r_.value, ast.Call) \
                    and unparse(r_.value.func) == unparse(b['m']) and \
                    not r_.value.args and len(r_.value.keywords) == 1 and \
                    r_.value.keywords[0].arg is None:
                selfs = {unparse(x) for x in ast.walk(r_.value.keywords[0].value)
                         if isinstance(x, ast.Attribute) and
                         isinstance(x.value, ast.Name) and x.value.id == 'self'}
                okv = selfs == {'self.input_data'}
    if okv:
        res.ok('Operand.value = registry.get(self.type)(**self.input_data)')
    else:
        res.fail(ctx.finding('OPERAND-CHAIN', ov, ov.node,
                             'Operand.value is not the registered metric of '
                             'its own type applied to its own inputs',
                             construct='Operand.value'))
    rg, rr = P.func('OperandRegistry.get'), P.func('OperandRegistry.register')
    res.saw(rg), res.saw(rr)
    if (find(rg, f'return self._registry.get({rg.params[0]})') or
            find(rg, f'return self._registry[{rg.params[0]}]')) and \
            find(rr, f'self._registry[{rr.params[0]}] = {rr.params[1]}'):
        res.ok('registry: register stores func under name; get returns it')
    else:
        res.fail(ctx.finding('OPERAND-CHAIN', rg, rg.node,
                             'operand registry does not return the function '
                             'registered under the name',
                             construct='OperandRegistry get/register'))
    # module-level registration loop
    ok = False
    for rel, tree in P.modules.items():
        if not rel.endswith('operand/operand.py'):
            continue
        for st in tree.body:
            if isinstance(st, ast.For) and \
                    unparse(st.iter) == 'METRIC_DICT.items()' and \
                    unparse(st.target) == '(name, func)' and any(
                        unparse(b).startswith(
                            'operand_registry.register(name, func)')
                        for b in st.body):
                ok = True
    if ok:
        res.ok('every METRIC_DICT entry is registered under its own key')
    else:
        res.fail(ctx.finding('OPERAND-CHAIN', rr, None,
                             'METRIC_DICT is not registered key by key',
                             construct='METRIC_DICT registration loop'))
    n = 0
    for m in P.classes['ParaxialOperand'].methods.values():
        res.saw(m)
        n += 1
        if find(m, f'return optic.paraxial.{m.name}()') and \
                m.node.args.args and m.node.args.args[0].arg == 'optic':
            res.ok(f'ParaxialOperand.{m.name} -> optic.paraxial.{m.name}()')
        else:
            res.fail(ctx.finding(
                'OPERAND-CHAIN', m, m.node,
                f'ParaxialOperand.{m.name} does not return '
                f'optic.paraxial.{m.name}()',
                construct=f'ParaxialOperand.{m.name}'))
    if n < 13:
        raise AnalysisError('ParaxialOperand: fewer than 13 wrappers')
    return res


def c01_pickup(ctx):
    """shared with C01: pickups, then solves, in Optic.update (what
    update_optics relies on for 'pickups and solves are satisfied')"""
    from .C01 import pickup as _r
    return _r(ctx)

def c01_init_stores(ctx):
    """shared with C01: constructors keep private, float-typed copies of the
    coefficient containers they are given (no aliasing of caller lists or of
    the shared default, no integer tables)"""
    from .C01 import init_stores as _r
    return _r(ctx)

def c17_coating_media(ctx):
    """shared with C17: index variables go through set_index"""
    from .C17 import coating_media as _r
    return _r(ctx)

def index_edit(ctx):
    """an index variable / perturbation reads n(wavelength) of the medium and
    writes it back through Optic.set_index.  If set_index installs a new
    wavelength-independent, lossless IdealMaterial, reading and writing back
    the SAME value already changes the lens (dispersion and absorption are
    gone), and reset / undo cannot bring the glass back."""
    from ..match import find
    P = ctx.P
    res = Result('INDEX-EDIT', 'writing back the index that was read leaves '
                 'the medium as it was (dispersion, absorption): index '
                 'variables are faithful handles, reset and undo restore the '
                 'glass')
    si = P.func('Optic.set_index')
    uv = P.func('IndexVariable.update_value')
    gv = P.func('IndexVariable.get_value')
    for f in (si, uv, gv):
        res.saw(f)
    through = any(isinstance(c, ast.Call) and isinstance(c.func, ast.Attribute)
                  and c.func.attr == 'set_index' for c in ast.walk(uv.node))
    ideal = [c for c in ast.walk(si.node) if isinstance(c, ast.Call) and
             unparse(c.func) == 'IdealMaterial']
    keeps = any(isinstance(x, ast.Attribute) and x.attr in ('material_post',
                                                            'material_pre')
                and isinstance(x.ctx, ast.Load) for c in ideal
                for x in ast.walk(c))
    if through and ideal and not keeps:
        res.fail(ctx.finding(
            'INDEX-EDIT', si, ideal[0],
            'Optic.set_index replaces the medium by IdealMaterial(n=value, '
            'k=0) built from the number alone; IndexVariable.update_value '
            '(optimiser start point, undo, perturbation reset) goes through '
            'it, so a catalogue glass loses its dispersion and absorption at '
            'the first evaluation and is never restored',
            construct='index edit replaces the medium'))
    else:
        res.ok('index edits keep the dispersion and absorption of the medium')
    return res


def bounds_honoured(ctx):
    """'every bounded variable lies within its bounds' when OptimizerGeneric
    returns: scipy.optimize.minimize ignores bounds for some methods and only
    warns (the warning category is silenced around the call), so the front
    end must refuse those methods when a variable is bounded.  The set of
    methods is read from the installed scipy's own source on every run."""
    import os
    import scipy.optimize as so
    P = ctx.P
    res = Result('BOUNDS-HONOURED', 'OptimizerGeneric never runs a scipy '
                 'method that ignores bounds on a problem with bounded '
                 'variables')
    path = os.path.join(os.path.dirname(so.__file__), '_minimize.py')
    tree = ast.parse(open(path).read())
    allm, supported = None, None
    for n in ast.walk(tree):
        if isinstance(n, ast.Assign) and len(n.targets) == 1 and \
                unparse(n.targets[0]) == 'MINIMIZE_METHODS':
            allm = {e.value.lower() for e in n.value.elts}
        if isinstance(n, ast.If) and 'cannot handle bounds' in \
                unparse(n.body[0]) and isinstance(n.test, ast.BoolOp):
            for c in n.test.values:
                if isinstance(c, ast.Compare) and isinstance(
                        c.ops[0], ast.NotIn) and unparse(c.left) == 'meth':
                    supported = {e.value for e in c.comparators[0].elts}
    if not allm or not supported:
        raise AnalysisError('scipy _minimize.py: method tables not found')
    required = allm - supported
    res.ok(f'scipy {so.__name__}: methods that ignore bounds = '
           f'{sorted(required)}')
    f = P.func('OptimizerGeneric.optimize')
    res.saw(f)
    cls = P.classes['OptimizerGeneric']
    consts = {}
    for st in cls.node.body:
        if isinstance(st, ast.Assign) and isinstance(st.targets[0], ast.Name) \
                and isinstance(st.value, (ast.Tuple, ast.List, ast.Set)):
            consts[st.targets[0].id] = {
                e.value for e in st.value.elts
                if isinstance(e, ast.Constant)}
    mins = [c for c in ast.walk(f.node) if isinstance(c, ast.Call) and
            unparse(c.func).endswith('optimize.minimize')]
    if not mins:
        raise AnalysisError('OptimizerGeneric.optimize: minimize not found')
    passes_method = any(k.arg == 'method' and unparse(k.value) == 'method'
                        for k in mins[0].keywords)
    passes_bounds = any(k.arg == 'bounds' for k in mins[0].keywords)
    guard = None
    for n in ast.walk(f.node):
        if not (isinstance(n, ast.If) and n.lineno < mins[0].lineno and
                any(isinstance(b, ast.Raise) for b in n.body)):
            continue
        for c in ast.walk(n.test):
            if isinstance(c, ast.Compare) and len(c.ops) == 1 and \
                    'method' in unparse(c.left):
                coll = c.comparators[0]
                vals = None
                if isinstance(coll, (ast.Tuple, ast.List, ast.Set)):
                    vals = {e.value for e in coll.elts
                            if isinstance(e, ast.Constant)}
                elif isinstance(coll, ast.Attribute) and coll.attr in consts:
                    vals = consts[coll.attr]
                elif isinstance(coll, ast.Name) and coll.id in consts:
                    vals = consts[coll.id]
                if vals is None:
                    continue
                lower = '.lower()' in unparse(c.left)
                if isinstance(c.ops[0], ast.In) and required <= vals and lower:
                    guard = n
                if isinstance(c.ops[0], ast.NotIn) and lower and \
                        vals <= supported | {'none'}:
                    guard = n
    if not (passes_method and passes_bounds):
        res.ok('the method / bounds are not handed on as given')
    elif guard is not None:
        res.ok('a bounded problem with a method that ignores bounds raises '
               'before the solver runs')
    else:
        res.fail(ctx.finding(
            'BOUNDS-HONOURED', f, mins[0],
            f'optimize(method=...) hands any method to scipy together with '
            f'the bounds; for {sorted(required)} scipy ignores them and only '
            f'emits a RuntimeWarning, which is silenced here: radius 22.01 '
            f'-> 26.14 mm with the interval [21, 23] under method="BFGS"',
            construct='method that ignores bounds'))
    return res


def update_fixpoint(ctx):
    """'pickups and solves are satisfied' when an optimiser returns and
    're-evaluating the merit function reproduces the returned objective':
    every objective evaluation ends in Optic.update.  If that applies the
    pickups once and then the solves once, a pickup whose source is moved by
    a solve copies the value of the previous evaluation: the lens handed to
    the merit function is not a function of x alone."""
    P = ctx.P
    res = Result('UPDATE-FIXPOINT', 'Optic.update leaves pickups and solves '
                 'satisfied together (pickups re-applied after the solves, or '
                 'iterated to a fixed point)')
    f = P.func('Optic.update')
    res.saw(f)
    seq = []
    loop = False
    for n in ast.walk(f.node):
        if isinstance(n, (ast.For, ast.While)) and \
                'apply' in unparse(n, 100000):
            loop = True
    for st in f.node.body:
        for c in ast.walk(st):
            if isinstance(c, ast.Call) and isinstance(c.func, ast.Attribute) \
                    and c.func.attr == 'apply':
                seq.append(unparse(c.func.value).split('.')[-1])
    if 'pickups' not in seq or 'solves' not in seq:
        raise AnalysisError(f'Optic.update: apply sequence {seq}')
    last_solve = max(i for i, s_ in enumerate(seq) if s_ == 'solves')
    if loop or any(s_ == 'pickups' for s_ in seq[last_solve + 1:]):
        res.ok(f'apply sequence {seq}{" in a loop" if loop else ""}')
    else:
        res.fail(ctx.finding(
            'UPDATE-FIXPOINT', f, f.node,
            f'Optic.update applies {seq} once: a thickness pickup that reads '
            f'a gap set by a marginal-ray-height solve copies the gap of the '
            f'previous evaluation; the optimisers return objectives that the '
            f'returned lens does not reproduce (LeastSquares 0.04638 vs '
            f'0.05160, DifferentialEvolution 0.03232 vs 0.04228), leave '
            f'T3 - T2 = -8.30 mm (DualAnnealing), and undo() leaves the '
            f'vertices 3-7 mm off',
            construct='pickups applied once, before the solves'))
    return res


# META update: declined clause 'bounds honoured by scipy' re-worded
META['declined'] = [
    'bounds honoured inside scipy for the methods that support them (that no method which ignores bounds is run on a bounded problem is decided: BOUNDS-HONOURED)' if _d.startswith('bounds honoured by scipy') else _d
    for _d in META['declined']]


def not_worse(ctx):
    """'that objective is not worse than at the start': scipy guarantees no
    descent (bounded Powell / COBYQA defaults, SLSQP stopped early, annealing,
    differential evolution).  Necessary and, with the FINAL-APPLY rule,
    sufficient structure: every front end compares the objective of the
    solution with the objective of the starting vector and falls back to the
    start, before the lens is set from result.x."""
    from ..paths import paths, annotate, call_attr
    P = ctx.P
    res = Result('NOT-WORSE', 'every optimize() compares the solution with '
                 'the start and keeps the start when the solution is worse, '
                 'before the variables are written from result.x')
    h = P.classes['OptimizerGeneric'].methods.get('_keep_start_if_better')
    helper_ok = False
    if h is not None:
        res.saw(h)
        src = unparse(h.node, 100000)
        evals0 = any(isinstance(c_, ast.Call) and
                     unparse(c_.func) == 'self._fun' and
                     [unparse(a_) for a_ in c_.args] == [h.params[1]]
                     for c_ in ast.walk(h.node))
        evalsr = any(isinstance(c_, ast.Call) and
                     unparse(c_.func) == 'self._fun' and
                     [unparse(a_) for a_ in c_.args] ==
                     [h.params[0] + '.x'] for c_ in ast.walk(h.node))
        restores = False
        for n_ in ast.walk(h.node):
            if isinstance(n_, ast.If):
                t = n_.test
                worse = (isinstance(t, ast.UnaryOp) and isinstance(
                    t.op, ast.Not) and isinstance(t.operand, ast.Compare) and
                    isinstance(t.operand.ops[0], (ast.LtE, ast.Lt))) or (
                    isinstance(t, ast.Compare) and
                    isinstance(t.ops[0], (ast.Gt, ast.GtE)))
                sets = any(isinstance(st, ast.Assign) and
                           unparse(st.targets[0]) == h.params[0] + '.x' and
                           h.params[1] in unparse(st.value)
                           for st in n_.body)
                if worse and sets:
                    restores = True
        helper_ok = evals0 and evalsr and restores
    n = 0
    for cn in ('OptimizerGeneric', 'LeastSquares', 'DualAnnealing',
               'DifferentialEvolution'):
        f = P.classes[cn].methods.get('optimize')
        if f is None:
            raise AnalysisError(f'{cn}.optimize not found')
        res.saw(f)
        n += 1
        bad = None
        for p in annotate(P, f, paths(f, loop_iters=(1,))):
            if p.exit == 'raise':
                continue
            solve = [i for i, e in enumerate(p.events) if e.kind == 'call'
                     and call_attr(e) in ('minimize', 'least_squares',
                                          'dual_annealing',
                                          'differential_evolution')]
            keep = [i for i, e in enumerate(p.events) if e.kind == 'call' and
                    call_attr(e) == '_keep_start_if_better' and
                    [unparse(a_) for a_ in e.node.args] == ['result', 'x0']]
            upd = [i for i, e in enumerate(p.events) if e.kind == 'call' and
                   call_attr(e) == 'update' and 'result.x' in unparse(e.node)]
            if not solve:
                continue
            if not (keep and upd and solve[-1] < keep[0] < upd[0]):
                bad = p
        if bad is None and helper_ok:
            res.ok(f'{cn}.optimize: start kept when the solution is worse')
        else:
            res.fail(ctx.finding(
                'NOT-WORSE', f, f.node,
                f'{cn}.optimize writes result.x into the lens without '
                f'comparing its objective with the start: scipy does not '
                f'guarantee a descent (Cooke triplet, Powell with defaults: '
                f'merit 0.05359 -> 0.05672; COBYQA -> 0.4922; SLSQP, '
                f'maxiter=5: 25.05 -> 31.39)',
                construct=f'{cn}: no comparison with the start'))
    return res


# META update: declined clause 'objective not worse' re-worded
META['declined'] = [
    'descent inside scipy (that the lens returned is never worse than the '
    'start is decided structurally: NOT-WORSE)'
    if _d.startswith('objective not worse') else _d
    for _d in META['declined']]


def var_pairing(ctx):
    """'leaves the lens at the returned solution': entry k of the solver's
    vector belongs to variable k.  Every loop `for i, var in
    enumerate(self.problem.variables)` that writes the variables must pair
    var with element i of the vector (result.x, x0, x), and the start vector /
    bounds must be built in the same order."""
    P = ctx.P
    res = Result('VAR-PAIRING', 'variable k <-> entry k of the solver vector '
                 'in every write-back, undo and objective evaluation')
    n = 0
    for f in P.all_funcs():
        if not f.module.endswith('optimization/optimization.py'):
            continue
        for lp in ast.walk(f.node):
            if not (isinstance(lp, ast.For) and isinstance(lp.iter, ast.Call)
                    and unparse(lp.iter.func) == 'enumerate' and
                    'variables' in unparse(lp.iter) and
                    isinstance(lp.target, ast.Tuple) and
                    len(lp.target.elts) == 2):
                continue
            i_, v_ = (unparse(x) for x in lp.target.elts)
            for c in ast.walk(lp):
                if isinstance(c, ast.Call) and isinstance(
                        c.func, ast.Attribute) and c.func.attr == 'update' \
                        and unparse(c.func.value) == v_ and c.args:
                    n += 1
                    a = c.args[0]
                    ok = isinstance(a, ast.Subscript) and \
                        unparse(a.slice) == i_
                    if ok:
                        res.ok(f'{f.qual}: {v_}.update({unparse(a)})')
                    else:
                        res.saw(f)
                        res.fail(ctx.finding(
                            'VAR-PAIRING', f, c,
                            f'{f.qual} writes {unparse(a)} into variable '
                            f'number {i_}: the entries of the solver vector '
                            f'are handed to the wrong variables (with two or '
                            f'more variables the lens is not the returned '
                            f'solution)',
                            construct=f'{f.qual}: {unparse(c)[:40]}'))
        # vectors built from the variables keep their order
        for c in ast.walk(f.node):
            if isinstance(c, ast.ListComp) and len(c.generators) == 1 and \
                    'self.problem.variables' in unparse(c.generators[0].iter):
                it = unparse(c.generators[0].iter)
                if it != 'self.problem.variables':
                    res.saw(f)
                    res.fail(ctx.finding(
                        'VAR-PAIRING', f, c,
                        f'{f.qual} builds {unparse(c)[:50]} over {it}: not '
                        f'the variable order used for the write-back',
                        construct=f'{f.qual}: vector order'))
    if n < 6:
        raise AnalysisError(f'VAR-PAIRING: only {n} write-back loops found')
    return res


def problem_updates(ctx):
    """'pickups and solves are satisfied' at every objective evaluation and at
    the returned solution: OptimizationProblem.update_optics applies
    Optic.update to the optic of every variable; the least-squares front end
    hands scipy (lower, upper) built from bounds[0] / bounds[1]."""
    P = ctx.P
    res = Result('PROBLEM-UPDATES', 'update_optics updates the optic of every '
                 'variable; least-squares bounds are (lower = bounds[0], '
                 'upper = bounds[1])')
    f = P.func('OptimizationProblem.update_optics')
    res.saw(f)
    src = unparse(f.node, 100000)
    collects = any(isinstance(c, ast.Call) and isinstance(
        c.func, ast.Attribute) and c.func.attr in ('add', 'append') and
        c.args and unparse(c.args[0]).endswith('.optic')
        for lp in ast.walk(f.node) if isinstance(lp, ast.For) and
        'self.variables' in unparse(lp.iter) for c in ast.walk(lp))
    direct = any(isinstance(c, ast.Call) and
                 unparse(c.func).endswith('.optic.update')
                 for c in ast.walk(f.node))
    def uncond(stmts):
        """calls executed on every pass: statements of the loop body itself
        (and of nested for / with), not those under a condition"""
        for st in stmts:
            if isinstance(st, (ast.For, ast.With)):
                yield from uncond(st.body)
            elif isinstance(st, (ast.Expr, ast.Assign)):
                yield from (c for c in ast.walk(st) if isinstance(c, ast.Call))
    updates = any(isinstance(c.func, ast.Attribute) and
                  c.func.attr == 'update' and not c.args
                  for lp in ast.walk(f.node) if isinstance(lp, ast.For)
                  for c in uncond(lp.body))
    direct = direct and any(
        unparse(c.func).endswith('.optic.update')
        for lp in ast.walk(f.node) if isinstance(lp, ast.For)
        for c in uncond(lp.body))
    if (collects and updates) or direct:
        res.ok('update_optics: optic.update() for the optic of every variable')
    else:
        res.fail(ctx.finding(
            'PROBLEM-UPDATES', f, f.node,
            'OptimizationProblem.update_optics does not call Optic.update on '
            'the optics of the variables: pickups and solves are not '
            're-applied when the optimiser changes a variable, so the '
            'objective is evaluated on (and the run ends with) a lens whose '
            'pickups and solves are not satisfied',
            construct='update_optics does not update'))
    g = P.func('LeastSquares.optimize')
    res.saw(g)
    lo = hi = None
    for st in ast.walk(g.node):
        if isinstance(st, ast.Assign) and isinstance(st.targets[0], ast.Name) \
                and isinstance(st.value, ast.ListComp):
            idx = {unparse(x.slice) for x in ast.walk(st.value)
                   if isinstance(x, ast.Subscript) and
                   unparse(x.value).endswith('.bounds')}
            if st.targets[0].id == 'lower':
                lo = idx
            if st.targets[0].id == 'upper':
                hi = idx
    tup = any(isinstance(st, ast.Assign) and
              unparse(st.targets[0]) == 'bounds' and
              unparse(st.value).replace(' ', '') == '(lower,upper)'
              for st in ast.walk(g.node))
    if lo == {'0'} and hi == {'1'} and tup:
        res.ok('least squares: lower from bounds[0], upper from bounds[1]')
    else:
        res.fail(ctx.finding(
            'PROBLEM-UPDATES', g, g.node,
            f'LeastSquares.optimize builds lower from bounds{sorted(lo or [])} '
            f'and upper from bounds{sorted(hi or [])}: the interval handed to '
            f'scipy is not the one of the variable',
            construct='least-squares bounds order'))
    return res



def no_stale(ctx):
    from .common import stale_cache
    return stale_cache(ctx, 'NO-STALE-STATE', [],
                       'the optimiser works on values of an earlier state of the lens', min_methods=0)

RULES = [no_stale, problem_updates, var_pairing, not_worse, update_fixpoint, bounds_honoured, index_edit, c17_coating_media, c01_init_stores, c01_pickup, operand_chain, apply_result, push_before_run, undo_updates, merit, scale_inverse,
         get_set_symmetry, var_dispatch, bounds_units]

"""C11 -- PSF, Strehl ratio and MTF are correctly normalised transforms of the
pupil (structural clauses)."""
import ast
import re
from fractions import Fraction as Fr
from ..core import Result
from ..pm import AnalysisError, unparse
from ..match import Code
from ..paths import paths, annotate, callee_names, call_attr
from ..rat import (Ev, Rat, Sym, Poly, fn_eval, rat_eq, Inconclusive, ONE,
                   ZERO, const_of)

META = {
    'explanation': (
        'DFT-SAMPLING (law): frequency step x PSF pixel size x grid size = 1 '
        'with the pixel size of FFTPSF and the um -> mm conversion, and the '
        'cut-off 1/(lambda[mm] F#) - this fixes both the unit and the 1/N '
        'factor of the frequency axis. WORKING-FNO (sibling agreement): the '
        'working F-number correction (1 + |m|/p) is the same normal form in '
        'PSF and MTF, and every cut-off uses it. DEF-ASSIGN (paths): every '
        'attribute read while an MTF / PSF object is constructed has been '
        'stored on that path. PUPIL / PSF / MTF-SHAPE: pupil = amplitude/mean '
        'x exp(i 2 pi W) inside the unit disk; PSF = sum |FFT|^2 / '
        '(unaberrated peak x number of pupils) x 100; Strehl = centre / 100; '
        'MTF = |FFT(PSF)| sliced from the DC bin on both axes and divided by '
        'its own maximum. GEOMETRIC: sqrt(Ac^2 + As^2) of the histogram '
        'line-spread, tangential from y, sagittal from x, optional '
        'diffraction scaling (2/pi)(phi - cos phi sin phi).'),
    'declined': ['peak = 100 for the unaberrated pupil as a number',
                 'energy independent of aberration, Strehl <= 1, MTF <= '
                 'diffraction limit, analytic curve (FFT / sampling values)'],
    'trusted': ['DFT reciprocity: frequency step = 1/(N * sample spacing)',
                '|FFT| of a non-negative signal peaks at the DC bin',
                'fftshift puts the DC bin at index N//2'],
}

A = Rat.atom
C = Rat.const


def _paraxial_inline(call, ev):
    fn = call.func
    if isinstance(fn, ast.Attribute) and 'paraxial' in unparse(fn.value) and \
            not call.args:
        return A(fn.attr)
    return None


def _fno_form(P, f, sym, infinite):
    def choose(test, ev):
        if 'is_infinite' in unparse(test):
            # `if not obj.is_infinite:` -> body runs when finite
            neg = isinstance(test, ast.UnaryOp) and isinstance(test.op, ast.Not)
            return (not infinite) if neg else infinite
        return None
    ev = Ev(sym=sym, inline=_paraxial_inline, choose=choose)
    ev.heap['self.grid_size'] = A('G')
    ev.heap['self.num_rays'] = A('NR')
    for p in f.params:
        ev.env[p] = A(p)
    stop_at = None
    for s in f.node.body:
        if isinstance(s, ast.Assign) and isinstance(s.targets[0], ast.Name) and \
                s.targets[0].id == 'Q':
            break
        if isinstance(s, ast.Return):
            ev.stmt(s)
            break
        ev.stmt(s)
    return ev.env.get('FNO'), ev


def dft_sampling(ctx):
    P = ctx.P
    res = Result('DFT-SAMPLING', 'frequency step * PSF pixel size * grid size '
                 '= 1 (um -> mm), cut-off = 1/(lambda[mm] * working F#)',
                 level='proof')
    fp = P.func('FFTPSF._get_psf_units')
    fm = P.func('FFTMTF._get_mtf_units')
    res.saw(fp), res.saw(fm)
    sym = Sym()

    def mk(f, extra=None):
        ev = Ev(sym=sym, inline=_paraxial_inline,
                choose=lambda t, e: False if 'is_infinite' in unparse(t)
                and isinstance(t, ast.UnaryOp) else None)
        ev.heap.update({'self.grid_size': A('G'), 'self.num_rays': A('NR'),
                        'self.wavelength': A('LAM'),
                        'self.wavelengths[0]': A('LAM'), 'self.FNO': A('FNO')})
        for p in f.params:
            ev.env[p] = A(p)
        return ev
    evp = mk(fp)
    for s in fp.node.body:
        if isinstance(s, ast.Return):
            break
        evp.stmt(s)
    dx_psf = evp.env.get('dx')
    evm = mk(fm)
    evm.run(fm.node.body)
    df = evm.returned
    if dx_psf is None or not isinstance(df, Rat):
        raise AnalysisError('PSF pixel size / MTF frequency step not found')
    # dx_psf is in um (lambda in um); frequencies are per mm
    fno = [a for a in dx_psf.atoms() if a.startswith('FNO')]
    lhs = df * (dx_psf * Rat.const('0.001')) * A('G')
    # express both with the same F-number symbol
    for a in fno:
        lhs = Rat(lhs.n.subst(a, Poly.atom('FNO')),
                  lhs.d.subst(a, Poly.atom('FNO')))
    if rat_eq(lhs, ONE):
        res.ok('df * dx_psf[mm] * grid_size == 1')
    else:
        res.fail(ctx.finding(
            'DFT-SAMPLING', fm, fm.node,
            f'the frequency step of the MTF axis is {df}; with the PSF pixel '
            f'size {dx_psf} um the DFT relation df * dx * N = 1 (per mm) does '
            f'not hold (product = {lhs}): frequencies are not reported in '
            f'cycles/mm up to the cut-off',
            construct='MTF frequency step vs PSF pixel size'))
    # pixel size law: the pupil of diameter D is sampled by
    # linspace(-1, 1, num_rays), i.e. num_rays - 1 intervals of D/(num_rays-1);
    # after zero padding to G samples the DFT frequency step is
    # (num_rays-1)/(G D) and the image pixel lambda f (num_rays-1)/(G D)
    #   dx = lambda * F# * (num_rays - 1) / grid_size
    want = A('LAM') * A(fno[0] if fno else 'FNO') * (A('NR') - ONE) / A('G')
    if rat_eq(dx_psf, want):
        res.ok('PSF pixel size == lambda * F# * (num_rays - 1) / grid_size')
    else:
        wrong = A('LAM') * A(fno[0] if fno else 'FNO') * A('NR') / A('G')
        res.fail(ctx.finding(
            'DFT-SAMPLING', fp, fp.node,
            f'PSF pixel size is {dx_psf}: the pupil grid linspace(-1, 1, n) '
            f'has n - 1 intervals, so the pixel is lambda F# (n - 1)/grid; '
            + ('with n in place of n - 1 every PSF coordinate and every MTF '
               'frequency is off by the factor n/(n - 1) (0.8 % at n = 128, '
               '6.7 % at n = 16)' if rat_eq(dx_psf, wrong) else
               'the expression is not of that form'),
            construct='PSF pixel size'))
    # cut-offs
    for q in ('FFTMTF.__init__', 'GeometricMTF.__init__'):
        f = P.func(q)
        res.saw(f)
        n = 0
        for s in ast.walk(f.node):
            if isinstance(s, ast.Assign) and unparse(s.targets[0]) in (
                    'self.max_freq', 'self.cutoff') and \
                    isinstance(s.value, ast.BinOp):
                n += 1
                ev = Ev(inline=_paraxial_inline)
                ev.heap.update({'self.wavelength': A('LAM'),
                                'self.FNO': A('FNO')})
                ev.env['wavelength'] = A('LAM')
                v = ev.ev(s.value)
                f_at = [a for a in v.atoms() if 'FNO' in a]
                if f_at and rat_eq(v, ONE / (A('LAM') * Rat.const('0.001') *
                                             A(f_at[0]))):
                    res.ok(f'{q}: cut-off == 1/(lambda * 1e-3 * F#)')
                else:
                    res.fail(ctx.finding('DFT-SAMPLING', f, s,
                                         f'{q}: cut-off is {v}, not '
                                         f'1/(lambda[mm] F#)',
                                         construct=f'{q} cut-off'))
        if n == 0:
            res.fail(ctx.finding('DFT-SAMPLING', f, f.node,
                                 f'{q}: cut-off frequency not computed',
                                 construct=f'{q} cut-off missing'))
    # the plotted axis: arange(N//2) * step, reference ratio freq/max_freq
    v = P.func('FFTMTF.view')
    s = Code(P, v)
    if 'dx = self._get_mtf_units()' in s and \
            'freq = np.arange(self.grid_size // 2) * dx' in s:
        res.ok('plotted frequencies = bin index * frequency step')
    else:
        res.fail(ctx.finding('DFT-SAMPLING', v, v.node,
                             'plotted frequency axis is not bin index * step',
                             construct='FFTMTF.view axis'))
    return res


def working_fno(ctx):
    P = ctx.P
    res = Result('WORKING-FNO', 'finite-conjugate F-number correction F# (1 + '
                 '|m| / p), p = XPD/EPD, identical in PSF and MTF; every '
                 'cut-off uses the working F-number')
    fp = P.func('FFTPSF._get_psf_units')
    fm = P.func('FFTMTF._get_fno')
    res.saw(fp), res.saw(fm)
    for inf in (True, False):
        sym = Sym()
        a, _ = _fno_form(P, fp, sym, inf)
        b, _ = _fno_form(P, fm, sym, inf)
        if a is None or b is None:
            raise AnalysisError('working F-number not found')
        if inf:
            want = A('FNO')
        else:
            want = A('FNO') * (ONE + sym.absv(A('magnification')) /
                               (A('XPD') / A('EPD')))
        ok = sym.eq(a, b) and sym.eq(a, want)
        if ok:
            res.ok(f'{"infinite" if inf else "finite"} conjugate: PSF and MTF '
                   f'use F# {"" if inf else "(1 + |m| EPD/XPD)"}')
        else:
            res.fail(ctx.finding(
                'WORKING-FNO', fm, fm.node,
                f'{"infinite" if inf else "finite"} conjugate: PSF uses {a}, '
                f'MTF uses {b}; expected {want}',
                construct=f'working FNO inf={inf}'))
    f = P.func('FFTMTF.__init__')
    res.saw(f)
    # cut-off law on every path of the constructor on which the cut-off is
    # requested: max_freq * (wavelength[um] * 1e-3) * FNO == 1 with the
    # wavelength and F-number the object ends up holding (the ones the PSFs
    # are computed with)
    from ..rat import explore

    def run(choose_u):
        sym = Sym()

        def inline(call, ev):
            fn = call.func
            if isinstance(fn, ast.Attribute) and isinstance(
                    fn.value, ast.Name) and fn.value.id == 'self':
                if fn.attr == '_get_fno':
                    return A('WFNO')
                if fn.attr == '_generate_mtf_data':
                    return A('MTFDATA')
                g_ = P.lookup('FFTMTF', fn.attr)
                if g_ is not None and not call.args:
                    sub = fn_eval(P, g_, sym=sym, heap=ev.heap,
                                  inline=inline, choose=ch)
                    return sub.returned
            if isinstance(fn, ast.Attribute) and fn.attr == 'get_field_coords':
                return A('FIELDS')
            return None

        def ch(test, ev):
            t_ = unparse(test)
            if t_.replace(' ', '') == "max_freq=='cutoff'" or \
                    t_.replace(' ', '') == "self.max_freq=='cutoff'":
                return True
            return choose_u(test, ev)
        ev = fn_eval(P, f, sym=sym, inline=inline, choose=ch)
        return sym, ev
    try:
        outs = explore(run)
    except Inconclusive as e:
        raise AnalysisError(f'FFTMTF.__init__: {e}')
    bad = None
    for dec, (sym, ev) in outs:
        mf = ev.heap.get('self.max_freq')
        wl = ev.heap.get('self.wavelength')
        fno = ev.heap.get('self.FNO')
        if not all(isinstance(x, Rat) for x in (mf, wl, fno)):
            bad = f'max_freq / wavelength / FNO not stored on a path ({dec})'
            break
        if not sym.eq(mf * wl * Rat.const('0.001') * fno, ONE) or \
                not sym.eq(fno, A('WFNO')):
            bad = (f'on the path with decisions {dec}: max_freq = {mf} while '
                   f'the object holds wavelength {wl} and F-number {fno}')
            break
    if bad is None:
        res.ok(f'FFTMTF cut-off = 1/(wavelength[mm] x working F#) with the '
               f'wavelength the PSFs use, on {len(outs)} constructor paths')
    else:
        res.fail(ctx.finding('WORKING-FNO', f, f.node,
                             'FFTMTF cut-off is not 1 / (wavelength in mm x '
                             'working F-number) of the wavelength used: '
                             + bad, construct='FFTMTF working FNO'))
    g = P.func('GeometricMTF.__init__')
    res.saw(g)
    s = Code(P, g)
    uses_working = '_get_fno' in s or 'magnification' in s
    if uses_working:
        res.ok('GeometricMTF cut-off uses a working F-number')
    else:
        res.fail(ctx.finding(
            'WORKING-FNO', g, g.node,
            'GeometricMTF takes its cut-off from optic.paraxial.FNO() (the '
            'infinite-conjugate image F-number) while FFTMTF applies the '
            'finite-conjugate correction (1 + |m|/p): for finite objects the '
            'geometric MTF axis and its diffraction scaling end at a '
            'different cut-off than 1/(lambda * working F#)',
            construct='GeometricMTF cut-off without working F-number'))
    return res


def def_assign(ctx):
    P = ctx.P
    res = Result('DEF-ASSIGN', 'every instance attribute read while an '
                 'analysis object is constructed has been stored on that path '
                 '(no AttributeError for an accepted argument)')
    mods = ('optiland/mtf.py', 'optiland/psf.py', 'optiland/analysis/',
            'optiland/wavefront.py')
    n = 0
    for c in P.classes.values():
        if not c.module.startswith(mods):
            continue
        init = c.methods.get('__init__')
        if init is None:
            continue
        res.saw(init)
        own = set()
        for k in P.mro(c.name):
            for m in P.classes[k].methods.values():
                for x in ast.walk(m.node):
                    if isinstance(x, (ast.Assign, ast.AugAssign)):
                        tg = x.targets if isinstance(x, ast.Assign) else [x.target]
                        for t in tg:
                            for tt in ast.walk(t):
                                if isinstance(tt, ast.Attribute) and \
                                        isinstance(tt.value, ast.Name) and \
                                        tt.value.id == 'self' and \
                                        isinstance(tt.ctx, ast.Store):
                                    own.add(tt.attr)
        try:
            pl = paths(init)
        except AnalysisError:
            continue
        bad = None
        for p in pl:
            if p.exit == 'raise':
                continue
            defined = set()
            sup = False
            for e in p.events:
                if e.kind == 'call' and (call_attr(e) == '__init__'):
                    sup = True
                    # attributes stored by the parent constructors
                    for k in P.mro(c.name)[1:]:
                        pi = P.classes[k].methods.get('__init__')
                        if pi is not None:
                            for x in ast.walk(pi.node):
                                if isinstance(x, ast.Attribute) and \
                                        isinstance(x.ctx, ast.Store) and \
                                        isinstance(x.value, ast.Name) and \
                                        x.value.id == 'self':
                                    defined.add(x.attr)
                # reads in this event's expression
                nodes = []
                if e.kind == 'store':
                    nodes = list(ast.walk(e.extra)) if isinstance(
                        e.extra, ast.AST) else []
                elif e.kind == 'branch':
                    nodes = list(ast.walk(e.node))
                elif e.kind == 'call':
                    nodes = [a for arg in list(e.node.args) +
                             [k.value for k in e.node.keywords]
                             for a in ast.walk(arg)]
                    # a method of self reading attributes not yet defined
                    if isinstance(e.node.func, ast.Attribute) and isinstance(
                            e.node.func.value, ast.Name) and \
                            e.node.func.value.id == 'self':
                        callee = P.lookup(c.name, e.node.func.attr)
                        if callee is not None and callee.name != '__init__':
                            for x in ast.walk(callee.node):
                                if isinstance(x, ast.Attribute) and isinstance(
                                        x.ctx, ast.Load) and isinstance(
                                        x.value, ast.Name) and \
                                        x.value.id == 'self' and \
                                        x.attr in own and \
                                        x.attr not in defined and \
                                        not _stored_in(callee, x.attr):
                                    bad = (p, x, callee)
                for x in nodes:
                    if isinstance(x, ast.Attribute) and isinstance(
                            x.ctx, ast.Load) and isinstance(x.value, ast.Name) \
                            and x.value.id == 'self' and x.attr in own and \
                            x.attr not in defined and \
                            P.lookup(c.name, x.attr) is None:
                        bad = (p, x, init)
                if e.kind == 'store' and isinstance(e.node, ast.Attribute) and \
                        isinstance(e.node.value, ast.Name) and \
                        e.node.value.id == 'self':
                    defined.add(e.node.attr)
                if e.kind == 'store' and isinstance(e.node, ast.Tuple):
                    pass
                if bad:
                    break
            if bad:
                break
        n += 1
        if bad:
            p, x, where = bad
            res.fail(ctx.finding(
                'DEF-ASSIGN', init, x,
                f'{c.name}: self.{x.attr} is read'
                f'{" in " + where.name if where is not init else ""} during '
                f'construction on a path where it was never stored: an '
                f'accepted argument value raises AttributeError',
                construct=f'{c.name}: self.{x.attr} read before assignment',
                path=p.describe()))
        else:
            res.ok(f'{c.name}.__init__: attributes defined before use on all '
                   f'paths')
    res.require(10, 'constructors')
    return res


def _stored_in(func, attr):
    for x in ast.walk(func.node):
        if isinstance(x, ast.Attribute) and isinstance(x.ctx, ast.Store) and \
                isinstance(x.value, ast.Name) and x.value.id == 'self' and \
                x.attr == attr:
            return True
    return False


def shapes(ctx):
    P = ctx.P
    res = Result('PUPIL / PSF / MTF-SHAPE', 'pupil, PSF normalisation, Strehl '
                 'and MTF slicing / normalisation have the stated shape')
    f = P.func('FFTPSF._generate_pupils')
    res.saw(f)
    s = Code(P, f)
    checks = [
        ('P[R <= 1] = amplitude * np.exp(1j * 2 * np.pi * self.data[0][k][0])'
         in s or ('P[R <= 1] = amplitude * np.exp(1j * 2 * np.pi * phase)' in s
                  and 'opd = self.data[0][k][0]' in s and
                  'phase = np.where(lit, opd, 0)' in s),
         'pupil = amplitude exp(i 2 pi W) inside the unit disk'),
        ('x = np.linspace(-1, 1, self.num_rays)' in s,
         'pupil grid spans [-1, 1]^2'),
        ('P = np.zeros_like(x, dtype=complex)' in s, 'zero outside the disk'),
        ('np.reshape(P, (self.num_rays, self.num_rays))' in s,
         'square num_rays x num_rays pupil'),
    ]
    for ok, what in checks:
        if ok:
            res.ok('pupil: ' + what)
        else:
            res.fail(ctx.finding('PUPIL-SHAPE', f, f.node,
                                 'pupil: ' + what + ' violated',
                                 construct='pupil ' + what[:30]))
    init = P.func('FFTPSF.__init__')
    s = Code(P, init)
    if "distribution='uniform'" in s and 'fields=[field]' in s and \
            'wavelengths=[wavelength]' in s and 'num_rays=num_rays' in s:
        res.ok('PSF wavefront sampled on the uniform grid for the requested '
               'field / wavelength')
    else:
        res.fail(ctx.finding('PUPIL-SHAPE', init, init.node,
                             'PSF wavefront is not the uniform-grid wavefront '
                             'of the requested field / wavelength',
                             construct='FFTPSF init'))
    g = P.func('FFTPSF._compute_psf')
    res.saw(g)
    s = Code(P, g)
    checks = [
        ('amp = np.fft.fftshift(np.fft.fft2(pupil))' in s and
         'psf.append(amp * np.conj(amp))' in s, 'PSF_k = |FFT(pupil_k)|^2'),
        ('np.real(np.sum(psf, axis=0)) / norm_factor * 100' in s,
         'sum over pupils / normalisation * 100'),
        ('pupils = self._pad_pupils()' in s and
         'norm_factor = self._get_normalization()' in s,
         'padded pupils and unaberrated normalisation'),
    ]
    for ok, what in checks:
        if ok:
            res.ok('psf: ' + what)
        else:
            res.fail(ctx.finding('PSF-SHAPE', g, g.node,
                                 'psf: ' + what + ' violated',
                                 construct='psf ' + what[:30]))
    n = P.func('FFTPSF._get_normalization')
    res.saw(n)
    s = Code(P, n)
    if 'P_nom = self.pupils[0].copy()' in s and 'P_nom[P_nom != 0] = 1' in s \
            and 'amp_norm = np.fft.fftshift(np.fft.fft2(P_nom))' in s and \
            'psf_norm = amp_norm * np.conj(amp_norm)' in s and \
            'np.real(np.max(psf_norm) * len(self.pupils))' in s:
        res.ok('normalisation = peak of |FFT(unit-amplitude pupil)|^2 x '
               'number of pupils')
    else:
        res.fail(ctx.finding('PSF-SHAPE', n, n.node,
                             'PSF normalisation is not the unaberrated peak',
                             construct='psf normalisation'))
    # the disc test of the pupil mask is the very predicate with which the
    # 'uniform' distribution selected the samples (same expression, not just
    # an algebraically equivalent one: sqrt(r2) <= 1 and r2 <= 1 differ by
    # rounding on rim points, and the masked store then has the wrong length)
    ud = P.func('UniformDistribution.generate_points')
    res.saw(ud)

    def disc_pred(fn, base_names):
        """normal form of the left side of `<lhs> <= 1` used as a mask"""
        ev_ = Ev(sym=Sym())
        for b_ in base_names:
            ev_.env[b_] = A(b_.upper())
        out = []
        for st_ in fn.node.body:
            for sub in ast.walk(st_):
                if isinstance(sub, ast.Subscript) and isinstance(
                        sub.slice, ast.Compare) and isinstance(
                        sub.slice.ops[0], ast.LtE) and \
                        const_of(sub.slice.comparators[0]) == 1:
                    try:
                        out.append(ev_.ev(sub.slice.left))
                    except Inconclusive:
                        out.append(None)
            if isinstance(st_, ast.Assign) and isinstance(
                    st_.targets[0], ast.Name) and \
                    st_.targets[0].id not in base_names:
                try:
                    ev_.env[st_.targets[0].id] = ev_.ev(st_.value)
                except Inconclusive:
                    pass
        return ev_, out
    ev_a, pa = disc_pred(f, ('x', 'y'))
    ev_b, pb = disc_pred(ud, ('x', 'y'))
    want_r2 = A('X') * A('X') + A('Y') * A('Y')
    if pa and pb and all(p_ is not None and rat_eq(p_, want_r2)
                         for p_ in pa + pb):
        res.ok('pupil mask and uniform distribution use the same disc test '
               'x^2 + y^2 <= 1')
    else:
        res.fail(ctx.finding(
            'PUPIL-SHAPE', f, f.node,
            f'the pupil mask tests {pa} <= 1 while the uniform distribution '
            f'selected its samples with {pb} <= 1: on rim points the two can '
            f'disagree by rounding and the OPD samples no longer fit the '
            f'masked pupil (ValueError for some odd samplings)',
            construct='pupil disc predicate'))
    # zero padding: whatever the parity of grid_size - num_rays, the padded
    # pupil is grid_size x grid_size (strehl_ratio and the MTF slices index
    # grid_size // 2)
    pd_ = P.func('FFTPSF._pad_pupils')
    res.saw(pd_)
    padc = [c_ for c_ in ast.walk(pd_.node) if isinstance(c_, ast.Call) and
            unparse(c_.func) == 'np.pad']
    okp = False
    if padc and len(padc[0].args) >= 2:
        symp = Sym()
        evp = Ev(sym=symp)
        evp.env['pupil'] = 'pupil'
        try:
            for st_ in ast.walk(pd_.node):
                if isinstance(st_, ast.Assign) and isinstance(
                        st_.targets[0], ast.Name) and \
                        st_.targets[0].id != 'pupil':
                    evp.env[st_.targets[0].id] = evp.ev(st_.value)
            w = evp.ev(padc[0].args[1])
            n_ = A('pupil.shape[0]')
            g_ = A('self.grid_size')
            okp = isinstance(w, tuple) and len(w) == 2 and all(
                isinstance(ax, tuple) and len(ax) == 2 and
                symp.eq(ax[0] + n_ + ax[1], g_) for ax in w)
        except Inconclusive:
            okp = False
        kwp = {k.arg: unparse(k.value) for k in padc[0].keywords}
        okp = okp and kwp.get('constant_values', '0') in ('0', '0.0') and \
            kwp.get('mode', "'constant'") == "'constant'"
    if okp:
        res.ok('zero padding: before + num_rays + after == grid_size on both '
               'axes')
    else:
        res.fail(ctx.finding('PSF-SHAPE', pd_, pd_.node,
                             'the zero-padded pupil is not grid_size x '
                             'grid_size for every num_rays (with symmetric '
                             'padding (g - n) // 2 an odd difference gives '
                             'grid_size - 1, and the central pixel read by '
                             'strehl_ratio is no longer the peak)',
                             construct='psf padding'))
    st = P.func('FFTPSF.strehl_ratio')
    if unparse(st.node.body[-1]) == \
            'return self.psf[self.grid_size // 2, self.grid_size // 2] / 100':
        res.ok('Strehl = central PSF value / 100')
    else:
        res.fail(ctx.finding('PSF-SHAPE', st, st.node,
                             'Strehl ratio is not the central value / 100',
                             construct='strehl'))
    m = P.func('FFTMTF._generate_mtf_data')
    res.saw(m)
    s = Code(P, m)
    checks = [
        ('np.abs(np.fft.fftshift(np.fft.fft2(psf)))' in s,
         'MTF = |FFT(PSF)|'),
        ('tangential = data[self.grid_size // 2:, self.grid_size // 2]' in s,
         'tangential slice from the DC bin along axis 0'),
        ('sagittal = data[self.grid_size // 2, self.grid_size // 2:]' in s,
         'sagittal slice from the DC bin along axis 1'),
        ('mtf.append([tangential / np.max(tangential), sagittal / '
         'np.max(sagittal)])' in s, 'each slice divided by its own maximum'),
    ]
    for ok, what in checks:
        if ok:
            res.ok('mtf: ' + what)
        else:
            res.fail(ctx.finding('MTF-SHAPE', m, m.node,
                                 'mtf: ' + what + ' violated',
                                 construct='mtf ' + what[:30]))
    fi = P.func('FFTMTF.__init__')
    s = Code(P, fi)
    if 'FFTPSF(self.optic, field, self.wavelength, self.num_rays, ' \
            'self.grid_size).psf for field in self.fields' in s:
        res.ok('one PSF per field with the same sampling')
    else:
        res.fail(ctx.finding('MTF-SHAPE', fi, fi.node,
                             'MTF not built from one FFTPSF per field',
                             construct='FFTMTF psf list'))
    return res


def geometric(ctx):
    P = ctx.P
    res = Result('GEOMETRIC', 'geometric MTF = sqrt(Ac^2 + As^2) of the spot '
                 'histogram (tangential from y, sagittal from x) with the '
                 'optional diffraction-limit scaling')
    f = P.func('GeometricMTF._compute_field_data')
    res.saw(f)
    s = Code(P, f)
    # "the geometric MTF is the modulus of the Fourier transform of the
    # spot's line spread": for N rays of equal weight at coordinates x_j,
    #     MTF(v) = | (1/N) sum_j exp(2 pi i v x_j) |
    # (any common shift of the x_j leaves the modulus unchanged).  A histogram
    # of the spot with a number of bins that is not derived from the highest
    # frequency is a discrete transform that is periodic in v with period
    # (number of bins) / (spot width): the curve aliases.
    from ..match import find, find_seq
    exact = find_seq(f, ['$ph = 2 * np.pi * np.outer($v, $x - $c)',
                         '$m = np.abs(np.mean(np.exp(1j * $ph), axis=1))']) \
        or find_seq(f, ['$ph = 2 * np.pi * np.outer($v, $x)',
                        '$m = np.abs(np.mean(np.exp(1j * $ph), axis=1))'])
    hist = [c_ for c_ in ast.walk(f.node) if isinstance(c_, ast.Call) and
            unparse(c_.func) == 'np.histogram']
    if exact and not hist:
        b_ = exact[0]
        okv = unparse(b_['v']) == f.params[1] and \
            unparse(b_['x']) == f.params[0]
        if okv:
            res.ok('geometric: MTF(v) = |mean_j exp(2 pi i v x_j)|, the exact '
                   'transform of the line spread of the rays')
        else:
            res.fail(ctx.finding('GEOMETRIC', f, f.node,
                                 'geometric MTF: the transform is not taken '
                                 'over the spot coordinate at the requested '
                                 'frequencies',
                                 construct='geometric transform arguments'))
    elif hist:
        bins = [unparse(k_.value) for k_ in hist[0].keywords
                if k_.arg == 'bins'] + [unparse(a_)
                                        for a_ in hist[0].args[1:2]]
        tied = any('max' in b_ and ('freq' in b_ or 'v' in b_) for b_ in bins)
        if tied:
            res.ok('geometric: histogram with a bin width derived from the '
                   'highest frequency')
        else:
            res.fail(ctx.finding(
                'GEOMETRIC', f, hist[0],
                f'the spot is binned into {bins} bins, a number tied to the '
                f'frequency samples and not to the frequency range: the '
                f'transform of the bin centres is periodic with f = bins / '
                f'spot width and the curve returns to the diffraction limit '
                f'there (PetzvalLens with all defaults: 0.626 at 334 c/mm '
                f'where the transform of the spot gives 0.010; a 1.76 mm '
                f'blur disc reported with modulation 1 at 146 c/mm)',
                construct='geometric MTF aliased by fixed binning'))
    else:
        res.fail(ctx.finding('GEOMETRIC', f, f.node,
                             'geometric MTF: transform of the line spread not '
                             'recognised', construct='geometric transform'))
    if 'return mtf * scale_factor' in s:
        res.ok('geometric: scaled by the given factor')
    else:
        res.fail(ctx.finding('GEOMETRIC', f, f.node,
                             'geometric MTF: scaled by the given factor '
                             'violated', construct='geometric scaled'))
    g = P.func('GeometricMTF._generate_mtf_data')
    res.saw(g)
    sym = Sym()
    ok = False
    for n in ast.walk(g.node):
        if isinstance(n, ast.Assign) and unparse(n.targets[0]) == 'scale_factor' \
                and isinstance(n.value, ast.BinOp):
            ev = Ev(sym=sym)
            ev.env['phi'] = A('phi')
            try:
                v = ev.ev(n.value)
                want = C(2) / A('pi') * (A('phi') - sym.cos(A('phi')) *
                                         sym.sin(A('phi')))
                ok = sym.eq(v, want)
            except Inconclusive:
                ok = False
    s = Code(P, g)
    # phi = arccos(f / f_c) with f_c the diffraction cut-off: the attribute in
    # the denominator must only ever hold the cut-off (an attribute that can
    # also hold a frequency range chosen by the caller is not the cut-off)
    gi = P.func('GeometricMTF.__init__')
    den = None
    for n in ast.walk(g.node):
        if isinstance(n, ast.Call) and unparse(n.func) == 'np.arccos' and n.args:
            a_ = n.args[0]
            if isinstance(a_, ast.Call) and unparse(a_.func) == 'np.clip' \
                    and a_.args:
                a_ = a_.args[0]
            if isinstance(a_, ast.BinOp) and isinstance(a_.op, ast.Div) and \
                    unparse(a_.left) == 'self.freq':
                den = unparse(a_.right)
    stores = [st for st in ast.walk(gi.node) if isinstance(st, ast.Assign)
              and den is not None and unparse(st.targets[0]) == den]
    only_cutoff = den is not None and len(stores) == 1 and \
        isinstance(stores[0].value, ast.BinOp) and \
        'FNO' in unparse(stores[0].value)
    if ok and only_cutoff:
        res.ok('diffraction scaling (2/pi)(phi - cos phi sin phi), phi = '
               'arccos(f / cut-off)')
    elif ok and den is not None:
        res.fail(ctx.finding(
            'GEOMETRIC', g, g.node,
            f'the diffraction-limit scaling takes phi = arccos(f / {den}), '
            f'and {den} is also assigned a frequency range chosen by the '
            f'caller: with max_freq = 100 the diffraction limit at 100 '
            f'cycles/mm is reported as 0 whatever the true cut-off',
            construct='geometric scaling'))
    else:
        res.fail(ctx.finding('GEOMETRIC', g, g.node,
                             'diffraction-limit scaling is not (2/pi)(phi - '
                             'cos phi sin phi) with phi = arccos(f/f_c)',
                             construct='geometric scaling'))
    from ..match import find_seq
    if find_seq(g, ['$lit = $fd[0][2] > 0',
                    '$x, $y = ($fd[0][0][$lit], $fd[0][1][$lit])',
                    '$m.append([self._compute_field_data($y, self.freq, $sf), '
                    'self._compute_field_data($x, self.freq, $sf)])']):
        res.ok('tangential from y, sagittal from x of the spot data')
    else:
        res.fail(ctx.finding('GEOMETRIC', g, g.node,
                             'tangential / sagittal not taken from y / x',
                             construct='geometric axes'))
    i = P.func('GeometricMTF.__init__')
    s = Code(P, i)
    if 'self.freq = np.linspace(0, self.max_freq, num_points)' in s:
        res.ok('frequencies 0 .. cut-off')
    else:
        res.fail(ctx.finding('GEOMETRIC', i, i.node,
                             'frequency axis is not 0 .. max_freq',
                             construct='geometric freq'))
    return res


def no_stale(ctx):
    from .common import stale_cache
    return stale_cache(ctx, 'NO-STALE-STATE', ['FFTPSF', 'FFTMTF', 'GeometricMTF'],
                       'the PSF / MTF contains data of an earlier evaluation', min_methods=1)


def psf_norm(ctx):
    """Strehl <= 1 and 'unaberrated pupil peaks at 100' as a counting
    argument.  peak = |sum_j P_j|^2 <= (sum_j |P_j|)^2 and the reference peak
    is N^2 with N the number of non-zero pupil samples (P_nom[P_nom != 0] = 1).
    With |P_j| = I_j / m the bound sum_j |P_j| = N holds exactly when m is the
    mean of the intensities over the non-zero samples; a mean over all samples
    (blocked ones included) gives sum = M > N and Strehl (M/N)^2 > 1."""
    from ..match import find, find_seq
    P = ctx.P
    res = Result('PSF-NORM', 'pupil amplitude = intensity / mean intensity '
                 'over the transmitting (non-zero) samples; reference pupil '
                 '= 1 on the non-zero samples; PSF = |FFT|^2 / reference peak '
                 'x 100; Strehl = central value / 100')
    g = P.func('FFTPSF._generate_pupils')
    nrm = P.func('FFTPSF._get_normalization')
    cp = P.func('FFTPSF._compute_psf')
    sr = P.func('FFTPSF.strehl_ratio')
    for f in (g, nrm, cp, sr):
        res.saw(f)
    ok = False
    for pat in ('$a = $I / np.mean($I[$I > 0])', '$a = $I / np.mean($I[$I != 0])',
                '$a = $I / $I[$I > 0].mean()', '$a = $I / $I[$I != 0].mean()',
                '$a = $I / (np.sum($I) / np.count_nonzero($I))',
                '$a = $I * np.count_nonzero($I) / np.sum($I)'):
        for b in find_seq(g, [pat, '$P[R <= 1] = $a * np.exp($phase)']):
            ok = True
    # masked form: lit = (I > 0) & isfinite(W); a = where(lit, I, 0) /
    # mean(I[lit]); the phase of dark samples is set to 0 (their amplitude is
    # 0, and 0 * exp(i nan) would be nan)
    masked = False
    for b in find_seq(g, ['$lit = ($I > 0) & np.isfinite($W)',
                          '$a = np.where($lit, $I, 0) / np.mean($I[$lit])',
                          '$ph = np.where($lit, $W, 0)',
                          '$P[R <= 1] = $a * np.exp(1j * 2 * np.pi * $ph)']):
        ok = True
        masked = True
    whole = find_seq(g, ['$a = $I / np.mean($I)',
                         '$P[R <= 1] = $a * np.exp($phase)'])
    if ok:
        res.ok('amplitude normalised by the mean over the non-zero samples: '
               'sum |P| = N, Strehl <= 1')
    elif whole:
        res.fail(ctx.finding(
            'PSF-NORM', g, whole[0]['a'],
            'the pupil amplitude is intensity / mean(intensity) with the '
            'mean taken over all samples: when M samples are traced and only '
            'N < M transmit (obscuration, clipping) the amplitudes sum to M '
            'while the reference peak is N^2, so the unaberrated peak is '
            '100 (M/N)^2 and the Strehl ratio exceeds 1',
            construct='amplitude mean over all samples'))
    else:
        res.fail(ctx.finding('PSF-NORM', g, g.node,
                             'pupil amplitude normalisation not recognised',
                             construct='amplitude normalisation'))
    if find_seq(g, ['$I = self.data[0][k][1]']) or \
            find(g, 'self.data[0][k][1] / $m'):
        res.ok('amplitude from the intensity of the traced pupil samples')
    else:
        res.fail(ctx.finding('PSF-NORM', g, g.node,
                             'amplitude is not the traced intensity',
                             construct='amplitude source'))
    if find(g, 'np.exp(1j * 2 * np.pi * self.data[0][k][0])') or (
            masked and find_seq(g, ['$W = self.data[0][k][0]'])):
        res.ok('phase = 2 pi OPD[waves]')
    else:
        res.fail(ctx.finding('PSF-NORM', g, g.node,
                             'pupil phase is not exp(i 2 pi W)',
                             construct='pupil phase'))
    if find_seq(nrm, ['$n = self.pupils[0].copy()', '$n[$n != 0] = 1',
                      '$A = np.fft.fftshift(np.fft.fft2($n))',
                      '$p = $A * np.conj($A)',
                      'return np.real(np.max($p) * len(self.pupils))']):
        res.ok('reference peak = max |FFT(1 on the non-zero samples)|^2 x '
               'number of wavelengths')
    else:
        res.fail(ctx.finding('PSF-NORM', nrm, nrm.node,
                             'reference peak is not that of the unaberrated '
                             'pupil on the same support',
                             construct='reference peak'))
    if find_seq(cp, ['$nf = self._get_normalization()',
                     '$amp = np.fft.fftshift(np.fft.fft2($pupil))',
                     '$l.append($amp * np.conj($amp))',
                     'return np.real(np.sum($l, axis=0)) / $nf * 100']):
        res.ok('PSF = sum |FFT pupil|^2 / reference peak x 100')
    else:
        res.fail(ctx.finding('PSF-NORM', cp, cp.node,
                             'PSF is not |FFT|^2 scaled by the reference '
                             'peak to 100', construct='PSF scaling'))
    # a ray that did not reach the image has intensity 0 and may have an
    # undefined (nan) path; 0 * exp(i nan) = nan would poison the whole FFT
    if masked:
        res.ok('dark samples (intensity 0 or no path) enter the pupil as 0')
    else:
        res.fail(ctx.finding(
            'PSF-NORM', g, g.node,
            'the pupil multiplies the amplitude of every sample by '
            'exp(i 2 pi W): for a ray lost to total internal reflection / a '
            'missed surface W is nan and 0 * exp(i nan) = nan, so one failed '
            'ray turns PSF, Strehl ratio and FFT MTF into nan '
            '(UVReflectingMicroscope sample)',
            construct='dark samples not masked'))
    if find(sr, 'return self.psf[self.grid_size // 2, self.grid_size // 2] '
                '/ 100'):
        res.ok('Strehl = central pixel / 100')
    else:
        res.fail(ctx.finding('PSF-NORM', sr, sr.node,
                             'Strehl ratio is not the central PSF value / 100',
                             construct='strehl'))
    return res


def c04_marginal(ctx):
    """shared with C04: the marginal ray and magnification behind XPD and the
    working F-number"""
    from .C04 import mag_inv as _r
    return _r(ctx)


def c03_trace_entry(ctx):
    """shared with C03: the pupil samples requested are the ones traced
    (vignetting factors applied exactly once on the way to the generator)"""
    from .C03 import trace_entry as _r
    return _r(ctx)

INTENSITY_CONSUMERS = ('GeometricMTF._generate_mtf_data',)


def intensity_used(ctx):
    """spot data are [x, y, intensity]; a ray stopped by an aperture keeps
    finite coordinates and gets intensity 0.  A statistic over x, y that never
    looks at the intensity counts blocked rays as if they had arrived."""
    P = ctx.P
    res = Result('INTENSITY-USED', 'statistics of the traced spot (centroid, '
                 'RMS / geometric radius, line spread) weight or mask the rays '
                 'with the recorded intensity')
    for q in INTENSITY_CONSUMERS:
        f = P.func(q)
        res.saw(f)
        uses_i = False
        for x in ast.walk(f.node):
            if isinstance(x, ast.Subscript) and const_of(x.slice) == 2:
                uses_i = True
            if isinstance(x, ast.Attribute) and x.attr in ('intensity', 'i'):
                uses_i = True
            if isinstance(x, ast.Name) and x.id in ('intensity', 'weights',
                                                    'energy'):
                uses_i = True
        # statistics delegated to a sibling that does look at the intensity
        if uses_i:
            res.ok(f'{q}: uses the intensity record')
        else:
            res.fail(ctx.finding(
                'INTENSITY-USED', f, f.node,
                f'{q} averages / bins the x, y records of all launched rays '
                f'and never reads their intensity: rays blocked by an '
                f'aperture or obscuration (intensity 0, coordinates finite) '
                f'count like transmitted ones',
                construct=f'{q}: intensity ignored'))
    return res


def vignetted_pupil(ctx):
    """'Every MTF curve ... is reported against spatial frequencies whose
    cut-off is 1 / (wavelength x working F-number)' and 'the PSF equals the
    squared modulus of the DFT of the sampled complex pupil': the wavefront
    behind FFTPSF / FFTMTF is sampled at pupil points compressed by the
    vignetting factors of the field ((1 - vx), (1 - vy), applied by the ray
    generator), i.e. on an ellipse.  Laying those samples out on the unit disc
    with one pixel size / one frequency step for both axes is only right when
    the factors are zero; the units must know the factors."""
    P = ctx.P
    res = Result('VIGNETTED-PUPIL', 'PSF pixel size and MTF frequency axes '
                 'account for the (1 - vx), (1 - vy) compression of the '
                 'sampled pupil')
    gen = P.func('RayGenerator.generate_rays')
    res.saw(gen)
    compress = 'get_vig_factor' in unparse(gen.node, 100000)
    users = [P.func(q) for q in ('FFTPSF._generate_pupils',
                                 'FFTPSF._get_psf_units',
                                 'FFTMTF._generate_mtf_data',
                                 'FFTMTF._get_mtf_units',
                                 'FFTPSF._get_effective_FNO',
                                 'FFTMTF._get_effective_FNO') if P.has(q)]
    if len(users) < 4:
        raise AnalysisError('VIGNETTED-PUPIL: FFT unit functions not found')
    for f in users:
        res.saw(f)
    aware = [f.qual for f in users
             if re.search(r'get_vig_factor|\bv[xy]\b|vignett',
                          unparse(f.node, 100000))]
    if not compress:
        res.ok('pupil coordinates are not compressed by vignetting factors')
    elif aware:
        res.ok(f'vignetting factors enter {aware}')
    else:
        res.fail(ctx.finding(
            'VIGNETTED-PUPIL', users[0], users[0].node,
            'the OPD of rays traced at pupil points (x (1 - vx), y (1 - vy)) '
            'is written to the nodes (x, y) of the unit disc and both axes '
            'get the same pixel size / frequency step: for a field with '
            'vy = 0.5 the tangential MTF is reported up to 363.6 c/mm where '
            'the beam cut-off is 90.9 c/mm (values up to 0.66 beyond the '
            'cut-off, identical to the sagittal curve)',
            construct='FFT units ignore the vignetted pupil'))
    return res


def mtf_no_alias(ctx):
    """'Every MTF curve never exceeds the diffraction-limited curve': the FFT
    MTF is |DFT(PSF)|, the *circular* autocorrelation of the zero-padded
    pupil; it is the linear autocorrelation (the OTF) only if the padded grid
    is at least twice as wide as the pupil.  A necessary structural
    condition: FFTMTF never works with grid_size < 2 num_rays."""
    P = ctx.P
    res = Result('MTF-NO-ALIAS', 'FFTMTF uses a grid of at least twice the '
                 'pupil width (no wrap-around in the autocorrelation)')
    f = P.func('FFTMTF.__init__')
    res.saw(f)
    ok = False
    for st in ast.walk(f.node):
        if isinstance(st, ast.Assign) and \
                unparse(st.targets[0]) == 'self.grid_size':
            v = unparse(st.value).replace(' ', '')
            if v in ('max(grid_size,2*num_rays)', 'max(2*num_rays,grid_size)',
                     'max(grid_size,num_rays*2)'):
                ok = True
        if isinstance(st, ast.If) and any(isinstance(b, ast.Raise)
                                          for b in st.body):
            t = unparse(st.test).replace(' ', '')
            if t in ('grid_size<2*num_rays', '2*num_rays>grid_size'):
                ok = True
    uses = [c for c in ast.walk(P.classes['FFTMTF'].node)
            if isinstance(c, ast.Call) and unparse(c.func) == 'FFTPSF']
    passes = all(any(unparse(a_) == 'self.grid_size' for a_ in
                     list(c.args) + [k.value for k in c.keywords])
                 for c in uses) and bool(uses)
    if ok and passes:
        res.ok('grid_size >= 2 num_rays is enforced and handed to the PSF')
    else:
        res.fail(ctx.finding(
            'MTF-NO-ALIAS', f, f.node,
            'FFTMTF accepts num_rays <= grid_size < 2 num_rays: the negative '
            'lobe of the pupil autocorrelation wraps around and the MTF of an '
            'unaberrated paraboloid exceeds the analytic diffraction limit by '
            'up to 0.38 (0.77 against 0.39 for num_rays = grid_size = 128)',
            construct='grid smaller than twice the pupil'))
    return res



def c04_fno_epd(ctx):
    """shared with C04: the F-number behind the cut-off 1 / (wavelength x
    working F-number) is f2 / EPD in every aperture arm (a conjugate-corrected
    value would be corrected twice by the MTF / PSF front ends)"""
    from .C04 import fno_epd as _r
    return _r(ctx)

RULES = [c04_fno_epd, mtf_no_alias, vignetted_pupil, intensity_used, c03_trace_entry, c04_marginal, no_stale, psf_norm, dft_sampling, working_fno, def_assign, shapes, geometric]

"""C17 -- Fresnel coefficients conserve energy; polarization element algebra."""
import ast
from fractions import Fraction as Fr
from ..core import Result
from ..pm import AnalysisError, unparse
from ..match import Code
from ..rat import (Ev, Rat, Sym, Poly, fn_eval, rat_eq, Inconclusive, ONE,
                   ZERO, const_of)

META = {
    'explanation': (
        'FRESNEL-ENERGY: from the expressions of JonesFresnel.calculate_matrix, '
        'R + T = 1 for s and p with T = (root/cos) |t|^2, the normal-incidence '
        'reflectance ((1-n)/(1+n))^2 and the Brewster zero of r_p (relation '
        'cos^2 = 1/(1+n^2)); matrix slots s, p, k. ROTATION-LAW: for every '
        'element with an angle, J(theta) = R(theta) J(0) R(-theta) entry by '
        'entry (J(0) obtained from the same source with theta = 0), J(0) '
        'diagonal. RETARDER-UNITARY: J J^dagger = 1 and the retardance between '
        'the eigen-axes. PROJECTORS: the six fixed polarizers are idempotent, '
        'Hermitian, of trace one, and fix the state that create_polarization '
        'builds for their name. AOI: angle of incidence from the pre-surface '
        'direction, passed to the Jones calculation by both coating arms.'),
    'declined': ['intensity preservation and transversality through a lens',
                 'mean-of-two-states identity of the unpolarized trace'],
    'trusted': ['ring axioms with I^2 = -1, sin^2+cos^2 = 1, exp(ix) = cos x + '
                'i sin x, sin 2x = 2 sin x cos x', 'indices positive (sqrt of '
                'a square of an index is the index)'],
}

A = Rat.atom
C = Rat.const


def _eval_matrix(P, f, reflect=None, aoi=None, heap=None, sym=None,
                 theta_zero=False):
    sym = sym or Sym()
    sym.rel.setdefault('I', -ONE)
    heap = heap if heap is not None else {}

    def inline(call, ev):
        fn = call.func
        if isinstance(fn, ast.Attribute) and fn.attr == 'n' and call.args:
            return A('n1') if 'pre' in unparse(fn.value) else A('n2')
        if isinstance(fn, ast.Attribute) and fn.attr == 'zeros':
            return ZERO
        return None

    def choose(test, ev):
        if unparse(test) == 'reflect':
            return reflect
        return None
    args = [A('rays'), None, aoi if aoi is not None else A('aoi')]
    ev = fn_eval(P, f, args, sym=sym, heap=heap, inline=inline, choose=choose)
    return ev, sym


def _slot(ev, i, j):
    for k in (f'jones_matrix[:,{i},{j}]', f'jones_matrix[:, {i}, {j}]'):
        if k in ev.heap:
            return ev.heap[k]
    return ZERO


def fresnel(ctx):
    P = ctx.P
    res = Result('FRESNEL-ENERGY', 'R + T = 1 for s and p; normal-incidence '
                 'reflectance ((n1-n2)/(n1+n2))^2; r_p = 0 at Brewster angle',
                 level='proof')
    f = P.func('JonesFresnel.calculate_matrix')
    res.saw(f)
    try:
        evR, symR = _eval_matrix(P, f, True)
        evT, symT = _eval_matrix(P, f, False)
    except Inconclusive as e:
        raise AnalysisError(f'JonesFresnel outside fragment: {e}')
    # r, t from the slots (the p reflection slot carries a sign convention)
    rs, rp_slot = _slot(evR, 0, 0), _slot(evR, 1, 1)
    ts, tp = _slot(evT, 0, 0), _slot(evT, 1, 1)
    n = A('n2') / A('n1')

    def pieces(sym):
        cs = [a for a, (k, x) in sym.defs.items() if k == 'cos']
        rt = [a for a, (k, x) in sym.defs.items() if k == 'sqrt']
        if len(cs) != 1 or len(rt) != 1:
            raise AnalysisError('Fresnel: cos / sqrt atoms not unique')
        return A(cs[0]), A(rt[0]), sym.defs[rt[0]][1]
    cR, rR, radR = pieces(symR)
    cT, rT, radT = pieces(symT)
    # same atoms in both symbol tables? evaluate energy in each own table
    # R + T with T = (root / cos) t^2 -- need r and t over common atoms: build
    # both in one symbol context
    sym = Sym()
    sym.rel['I'] = -ONE
    evR, _ = _eval_matrix(P, f, True, sym=sym)
    evT, _ = _eval_matrix(P, f, False, sym=sym)
    rs, rp_slot = _slot(evR, 0, 0), _slot(evR, 1, 1)
    ts, tp = _slot(evT, 0, 0), _slot(evT, 1, 1)
    cs = [a for a, (k, x) in sym.defs.items() if k == 'cos']
    sn = [a for a, (k, x) in sym.defs.items() if k == 'sin']
    rt = [a for a, (k, x) in sym.defs.items() if k == 'sqrt']
    if len(cs) != 1 or len(rt) != 1:
        raise AnalysisError('Fresnel: cos / sqrt atoms not unique')
    c, root = A(cs[0]), A(rt[0])
    rad = sym.defs[rt[0]][1]
    if sym.eq(rad, n * n - A(sn[0]) * A(sn[0])):
        res.ok('root^2 == (n2/n1)^2 - sin^2(aoi)')
    else:
        res.fail(ctx.finding('FRESNEL-ENERGY', f, f.node,
                             'radicand is not n^2 - sin^2(theta_i)',
                             construct='Fresnel radicand'))
    for name, r, t in (('s', rs, ts), ('p', rp_slot, tp)):
        if sym.eq(r * r + (root / c) * t * t, ONE):
            res.ok(f'R_{name} + T_{name} == 1 with T = (root/cos) t^2')
        else:
            res.fail(ctx.finding(
                'FRESNEL-ENERGY', f, f.node,
                f'Fresnel {name}-polarisation: R + T != 1 for the amplitude '
                f'coefficients computed by calculate_matrix',
                construct=f'Fresnel energy {name}'))
    # normal incidence: theta = 0
    sym0 = Sym()
    sym0.rel['I'] = -ONE
    sym0.assume_positive = True
    ev0, _ = _eval_matrix(P, f, True, aoi=ZERO, sym=sym0)
    want = ((A('n1') - A('n2')) / (A('n1') + A('n2')))
    for name, slot in (('s', _slot(ev0, 0, 0)), ('p', _slot(ev0, 1, 1))):
        if sym0.eq(slot * slot, want * want):
            res.ok(f'normal incidence: R_{name} == ((n1-n2)/(n1+n2))^2')
        else:
            res.fail(ctx.finding(
                'FRESNEL-ENERGY', f, f.node,
                f'normal-incidence {name}-reflectance is {slot}^2, not '
                f'((n1-n2)/(n1+n2))^2', construct=f'Fresnel normal {name}'))
    # Brewster: cos^2 = 1/(1+n^2) -> r_p numerator vanishes
    num = rp_slot.n
    relB = dict(sym.rel)
    relB[cs[0]] = ONE / (ONE + n * n)
    # r_p = +-(n^2 c - root)/(n^2 c + root): zero iff (n^2 c)^2 == root^2
    lhs = (n * n * c) * (n * n * c) - root * root
    from ..rat import rat_is_zero
    if rat_is_zero(lhs, relB):
        # and the numerator of the stored p really is n^2 c - root (up to sign)
        if sym.eq(rp_slot * (n * n * c + root), -(n * n * c - root)) or \
                sym.eq(rp_slot * (n * n * c + root), (n * n * c - root)):
            res.ok('r_p == +-(n^2 cos - root)/(n^2 cos + root): zero at '
                   'tan(theta) = n (Brewster)')
        else:
            res.fail(ctx.finding('FRESNEL-ENERGY', f, f.node,
                                 'r_p is not (n^2 cos - root)/(n^2 cos + root)',
                                 construct='Fresnel r_p form'))
    else:
        res.fail(ctx.finding('FRESNEL-ENERGY', f, f.node,
                             'r_p does not vanish at Brewster\'s angle',
                             construct='Fresnel Brewster'))
    # slots: k-component +-1, off-diagonals zero
    for ev, arm, kk in ((evR, 'reflect', -ONE), (evT, 'transmit', ONE)):
        if rat_eq(_slot(ev, 2, 2), kk):
            res.ok(f'{arm}: k slot == {kk}')
        else:
            res.fail(ctx.finding('FRESNEL-ENERGY', f, f.node,
                                 f'{arm}: propagation-direction slot is '
                                 f'{_slot(ev, 2, 2)}', construct=f'{arm} k slot'))
        extra = [k for k in ev.heap if k.startswith('jones_matrix[') and
                 k.replace(' ', '') not in ('jones_matrix[:,0,0]',
                                            'jones_matrix[:,1,1]',
                                            'jones_matrix[:,2,2]')]
        if extra:
            res.fail(ctx.finding('FRESNEL-ENERGY', f, f.node,
                                 f'{arm}: unexpected matrix entries {extra}',
                                 construct=f'{arm} extra slots'))
    # indices at the ray wavelength, pre -> n1, post -> n2
    src = Code(P, f)
    if 'n1 = self.material_pre.n(rays.w)' in src and \
            'n2 = self.material_post.n(rays.w)' in src:
        res.ok('n1 = pre.n(w), n2 = post.n(w)')
    else:
        res.fail(ctx.finding('FRESNEL-ENERGY', f, f.node,
                             'indices not taken from (pre, post) at the ray '
                             'wavelength', construct='Fresnel indices'))
    return res


def _rot_elements(P):
    out = []
    for cn, c in P.classes.items():
        if 'BaseJones' in P.mro(cn) and 'calculate_matrix' in c.methods:
            init = P.lookup(cn, '__init__')
            if init is not None and 'theta' in init.params:
                out.append(cn)
    return out


def _mat2(ev):
    return [[_slot(ev, 0, 0), _slot(ev, 0, 1)],
            [_slot(ev, 1, 0), _slot(ev, 1, 1)]]


def _mm(a, b):
    return [[a[0][0] * b[0][0] + a[0][1] * b[1][0],
             a[0][0] * b[0][1] + a[0][1] * b[1][1]],
            [a[1][0] * b[0][0] + a[1][1] * b[1][0],
             a[1][0] * b[0][1] + a[1][1] * b[1][1]]]


def rotation_law(ctx):
    P = ctx.P
    res = Result('ROTATION-LAW', 'an element at angle theta is the rotation of '
                 'the same element at theta = 0: J(theta) = R(theta) J(0) '
                 'R(-theta), with J(0) diagonal', level='proof')
    els = _rot_elements(P)
    for cn in els:
        f = P.lookup(cn, 'calculate_matrix')
        res.saw(f)
        sym = Sym()
        sym.rel['I'] = -ONE
        try:
            heap = {'self.theta': A('th')}
            ev, _ = _eval_matrix(P, f, sym=sym, heap=heap)
            heap0 = {'self.theta': ZERO}
            ev0, _ = _eval_matrix(P, f, sym=sym, heap=heap0)
        except Inconclusive as e:
            raise AnalysisError(f'{cn}.calculate_matrix outside fragment: {e}')
        J, J0 = _mat2(ev), _mat2(ev0)
        c, s = sym.cos(A('th')), sym.sin(A('th'))
        Rm = [[c, -s], [s, c]]
        Rt = [[c, s], [-s, c]]
        D0 = [[J0[0][0], ZERO], [ZERO, J0[1][1]]]
        want = _mm(_mm(Rm, D0), Rt)
        diag0 = sym.is_zero(J0[0][1]) and sym.is_zero(J0[1][0])
        if diag0:
            res.ok(f'{cn}: J(0) is diagonal')
        else:
            res.fail(ctx.finding(
                'ROTATION-LAW', f, f.node,
                f'{cn}: at theta = 0 the element is not diagonal in its own '
                f'axes (off-diagonal {J0[0][1]})',
                construct=f'{cn} J(0) diagonal'))
        for i in range(2):
            for j in range(2):
                if sym.eq(J[i][j], want[i][j]):
                    res.ok(f'{cn}: J[{i}{j}](theta) == (R J(0) R^T)[{i}{j}]')
                else:
                    res.fail(ctx.finding(
                        'ROTATION-LAW', f, f.node,
                        f'{cn}: entry [{i},{j}] at angle theta is not the '
                        f'rotation of the element at theta = 0',
                        construct=f'{cn} rotation entry [{i},{j}]'))
    res.require(10, 'rotation obligations')
    return res


def retarder(ctx):
    P = ctx.P
    res = Result('RETARDER-UNITARY', 'the linear retarder is unitary and '
                 'retards its slow axis by the stated retardance; quarter / '
                 'half wave plates pass pi/2 / pi', level='proof')
    f = P.func('JonesLinearRetarder.calculate_matrix')
    res.saw(f)
    sym = Sym()
    sym.rel['I'] = -ONE
    heap = {'self.theta': A('th'), 'self.retardance': A('d')}
    ev, _ = _eval_matrix(P, f, sym=sym, heap=heap)
    J = _mat2(ev)
    Jh = [[sym.conj(J[0][0]), sym.conj(J[1][0])],
          [sym.conj(J[0][1]), sym.conj(J[1][1])]]
    Pm = _mm(J, Jh)
    ok = sym.eq(Pm[0][0], ONE) and sym.eq(Pm[1][1], ONE) and \
        sym.is_zero(Pm[0][1]) and sym.is_zero(Pm[1][0])
    if ok:
        res.ok('J J^dagger == identity')
    else:
        res.fail(ctx.finding('RETARDER-UNITARY', f, f.node,
                             'the retarder matrix is not unitary',
                             construct='retarder unitary'))
    heap0 = {'self.theta': ZERO, 'self.retardance': A('d')}
    ev0, _ = _eval_matrix(P, f, sym=sym, heap=heap0)
    J0 = _mat2(ev0)
    # J0[1][1] / J0[0][0] == exp(i d)
    h = A('d') / C(2)
    e_half = sym.cos(h) + A('I') * sym.sin(h)
    if sym.eq(J0[1][1], J0[0][0] * e_half * e_half):
        res.ok('eigen-axes differ in phase by exp(i * retardance)')
    else:
        res.fail(ctx.finding('RETARDER-UNITARY', f, f.node,
                             'phase difference between the axes is not the '
                             'stated retardance', construct='retardance phase'))
    for cn, val in (('JonesQuarterWaveRetarder', Fr(1, 2)),
                    ('JonesHalfWaveRetarder', Fr(1))):
        init = P.func(cn + '.__init__')
        res.saw(init)
        calls = [c for c in ast.walk(init.node) if isinstance(c, ast.Call) and
                 isinstance(c.func, ast.Attribute) and
                 c.func.attr == '__init__']
        okv = False
        if calls and len(calls[0].args) >= 2:
            try:
                v = Ev().ev(calls[0].args[0])
                okv = rat_eq(v, A('pi') * C(val)) and \
                    unparse(calls[0].args[1]) == 'theta'
            except Inconclusive:
                okv = False
        if okv:
            res.ok(f'{cn}: retardance {val} pi, theta forwarded')
        else:
            res.fail(ctx.finding('RETARDER-UNITARY', init, init.node,
                                 f'{cn} does not pass retardance {val}*pi and '
                                 f'theta', construct=f'{cn} retardance'))
    return res


STATE_OF = {'JonesPolarizerH': 'H', 'JonesPolarizerV': 'V',
            'JonesPolarizerL45': 'L+45', 'JonesPolarizerL135': 'L-45',
            'JonesPolarizerRCP': 'RCP', 'JonesPolarizerLCP': 'LCP'}


def _states(P):
    fs = P.module_funcs('create_polarization')
    if not fs:
        raise AnalysisError('create_polarization not found')
    f = fs[0]
    out = {}
    for n in ast.walk(f.node):
        if isinstance(n, ast.If) and isinstance(n.test, ast.Compare) and \
                isinstance(n.test.comparators[0], ast.Constant):
            name = n.test.comparators[0].value
            vals = {}
            sym = Sym()
            sym.rel['I'] = -ONE
            ev = Ev(sym=sym)
            for s in n.body:
                if isinstance(s, ast.Assign) and isinstance(s.targets[0],
                                                            ast.Name):
                    try:
                        vals[s.targets[0].id] = ev.ev(s.value)
                    except Inconclusive:
                        pass
            if {'Ex', 'Ey', 'phase_x', 'phase_y'} <= set(vals):
                I = A('I')
                ex = vals['Ex'] * (sym.cos(vals['phase_x']) +
                                   I * sym.sin(vals['phase_x']))
                ey = vals['Ey'] * (sym.cos(vals['phase_y']) +
                                   I * sym.sin(vals['phase_y']))
                out[name] = (ex, ey, sym)
    return out


def projectors(ctx):
    P = ctx.P
    res = Result('PROJECTORS', 'fixed polarizers are idempotent Hermitian '
                 'projectors of trace one that fix the state '
                 'create_polarization builds for their name', level='proof')
    states = _states(P)
    for cn, st in STATE_OF.items():
        if cn not in P.classes:
            raise AnalysisError(f'{cn} not found')
        f = P.lookup(cn, 'calculate_matrix')
        res.saw(f)
        sym = states[st][2] if st in states else Sym()
        sym.rel['I'] = -ONE
        ev, _ = _eval_matrix(P, f, sym=sym)
        J = _mat2(ev)
        JJ = _mm(J, J)
        idem = all(sym.eq(JJ[i][j], J[i][j]) for i in range(2)
                   for j in range(2))
        herm = sym.eq(J[0][1], sym.conj(J[1][0])) and \
            sym.eq(J[0][0], sym.conj(J[0][0])) and \
            sym.eq(J[1][1], sym.conj(J[1][1]))
        tr1 = sym.eq(J[0][0] + J[1][1], ONE)
        kslot = rat_eq(_slot(ev, 2, 2), ONE)
        for name, ok in (('idempotent', idem), ('Hermitian', herm),
                         ('trace one', tr1), ('k slot 1', kslot)):
            if ok:
                res.ok(f'{cn}: {name}')
            else:
                res.fail(ctx.finding('PROJECTORS', f, f.node,
                                     f'{cn} is not {name}: not a projector '
                                     f'onto a pure state',
                                     construct=f'{cn} {name}'))
        if st in states:
            ex, ey, _ = states[st]
            ox = J[0][0] * ex + J[0][1] * ey
            oy = J[1][0] * ex + J[1][1] * ey
            if sym.eq(ox, ex) and sym.eq(oy, ey):
                res.ok(f'{cn} fixes the {st} state')
            else:
                res.fail(ctx.finding(
                    'PROJECTORS', f, f.node,
                    f'{cn} does not pass the {st!r} state built by '
                    f'create_polarization unchanged: it projects onto a '
                    f'different state', construct=f'{cn} stated state'))
        else:
            raise AnalysisError(f'state {st} not found in create_polarization')
    res.require(30)
    return res


def aoi(ctx):
    P = ctx.P
    res = Result('AOI', 'angle of incidence = arccos |n . d_before|, from the '
                 'pre-surface direction, passed to the Jones calculation with '
                 'the matching reflect flag; rays updated with that matrix')
    # the pre-surface direction is a snapshot taken before the ray is bent:
    # reflect() updates L, M, N in place, an alias would follow it
    for mn in ('refract', 'reflect'):
        g = P.func('RealRays.' + mn)
        res.saw(g)
        want_src = {'L0': 'self.L', 'M0': 'self.M', 'N0': 'self.N'}
        seen_ = {}
        first_write = None
        for st in g.node.body:
            for x in ast.walk(st):
                if isinstance(x, (ast.Assign, ast.AugAssign)):
                    tgs = x.targets if isinstance(x, ast.Assign) else [x.target]
                    for tg in tgs:
                        els = tg.elts if isinstance(tg, ast.Tuple) else [tg]
                        vals = x.value.elts if isinstance(tg, ast.Tuple) and \
                            isinstance(x.value, ast.Tuple) else [x.value] * len(els)
                        for t_, v_ in zip(els, vals):
                            u_ = unparse(t_)
                            if u_ in ('self.L0', 'self.M0', 'self.N0'):
                                seen_[u_[5:]] = (v_, x.lineno)
                            elif u_ in ('self.L', 'self.M', 'self.N') and \
                                    first_write is None:
                                first_write = x.lineno
        inplace = any(
            (isinstance(x, ast.AugAssign) and unparse(x.target) in
             ('self.L', 'self.M', 'self.N')) or
            (isinstance(x, ast.Subscript) and isinstance(x.ctx, ast.Store) and
             unparse(x.value) in ('self.L', 'self.M', 'self.N'))
            for x in ast.walk(g.node))
        bad = None
        for k, src_ in want_src.items():
            if k not in seen_:
                bad = f'{k} is not stored'
                break
            v_, ln = seen_[k]
            fresh = isinstance(v_, ast.Call) and (
                (isinstance(v_.func, ast.Attribute) and v_.func.attr == 'copy'
                 and unparse(v_.func.value) == src_) or
                (unparse(v_.func) in ('np.copy', 'np.array') and v_.args and
                 unparse(v_.args[0]) == src_))
            if not fresh and not (inplace is False and
                                  unparse(v_) == src_):
                bad = (f'{k} := {unparse(v_)} is not a copy of {src_}: the '
                       f'in-place update of the direction in reflect() makes '
                       f'the "pre-surface" direction equal the new one')
                break
            if first_write is not None and ln > first_write:
                bad = f'{k} is stored after the direction was changed'
                break
        if bad:
            res.fail(ctx.finding('AOI', g, g.node,
                                 f'RealRays.{mn}: {bad}',
                                 construct=f'{mn} pre-surface direction'))
        else:
            res.ok(f'RealRays.{mn}: L0, M0, N0 are copies taken before the '
                   f'direction changes')
    f = P.func('BaseCoating._compute_aoi')
    res.saw(f)
    from ..match import find as _find
    clips = [c_ for c_ in ast.walk(f.node) if isinstance(c_, ast.Call) and
             unparse(c_.func) == 'np.clip']
    for c_ in clips:
        a_ = [unparse(x) for x in c_.args]
        if len(a_) == 3 and a_[1] in ('-1', '-1.0') and a_[2] in ('1', '1.0'):
            res.ok(f'np.clip({a_[0]}, -1, 1) guards arccos against rounding')
        else:
            res.fail(ctx.finding('AOI', f, c_,
                                 f'np.clip({", ".join(a_)}) is not a clamp of '
                                 f'the cosine to [-1, 1]',
                                 construct='aoi clip arguments'))
    sfc = P.func('SurfaceGroup.set_fresnel_coatings')
    res.saw(sfc)
    if _find(sfc, 'for $s in self.surfaces[1:-1]:\n'
                  '    if $s.material_pre != $s.material_post:\n'
                  '        $s.set_fresnel_coating()'):
        res.ok('set_fresnel_coatings: every interior surface between '
               'different media gets a Fresnel coating')
    else:
        res.fail(ctx.finding('AOI', sfc, sfc.node,
                             'set_fresnel_coatings does not coat exactly the '
                             'interior surfaces that separate different media',
                             construct='set_fresnel_coatings'))
    sym = Sym()
    ev = fn_eval(P, f, sym=sym)
    ac = [a for a, (k, x) in sym.defs.items() if k == 'acos']
    src = Code(P, f)
    want = A('nx') * A('rays.L0') + A('ny') * A('rays.M0') + \
        A('nz') * A('rays.N0')
    ok = False
    if 'np.arccos' in src:
        # argument of arccos is clip(|n.d0|)
        e2 = Ev(sym=Sym())
        for s in f.node.body:
            if isinstance(s, ast.Assign) and isinstance(s.targets[0], ast.Name):
                if 'clip' in unparse(s.value):
                    continue
                e2.stmt(s)
        d = e2.env.get('dot')
        ok = d is not None and e2.sym.eq(d, e2.sym.absv(want))
    if ok:
        res.ok('aoi = arccos(clip(|nx L0 + ny M0 + nz N0|))')
    else:
        res.fail(ctx.finding('AOI', f, f.node,
                             'angle of incidence is not computed from the '
                             'pre-surface direction cosines (L0, M0, N0) and '
                             'the normal', construct='_compute_aoi'))
    for mn, flag in (('reflect', 'True'), ('transmit', 'False')):
        m = P.func('BaseCoatingPolarized.' + mn)
        res.saw(m)
        s = Code(P, m)
        if 'aoi = self._compute_aoi(rays, nx, ny, nz)' in s and \
                f'self.jones.calculate_matrix(rays, reflect={flag}, aoi=aoi)' \
                in s and 'rays.update(jones)' in s:
            res.ok(f'BaseCoatingPolarized.{mn}: aoi -> calculate_matrix('
                   f'reflect={flag}) -> rays.update')
        else:
            res.fail(ctx.finding('AOI', m, m.node,
                                 f'polarized coating {mn} does not compute the '
                                 f'Jones matrix from the angle of incidence '
                                 f'with reflect={flag}',
                                 construct=f'polarized {mn}'))
    fc = P.func('FresnelCoating.__init__')
    if 'JonesFresnel(material_pre, material_post)' in unparse(fc.node, 999):
        res.ok('FresnelCoating: JonesFresnel(pre, post)')
    else:
        res.fail(ctx.finding('AOI', fc, fc.node,
                             'Fresnel coating media swapped',
                             construct='FresnelCoating media'))
    sf = P.func('Surface.set_fresnel_coating')
    if 'FresnelCoating(self.material_pre, self.material_post)' in \
            unparse(sf.node, 999):
        res.ok('set_fresnel_coating(pre, post)')
    else:
        res.fail(ctx.finding('AOI', sf, sf.node,
                             'set_fresnel_coating media swapped',
                             construct='set_fresnel_coating media'))
    return res


def no_stale(ctx):
    from .common import stale_cache
    return stale_cache(ctx, 'NO-STALE-STATE', ['JonesFresnel', 'JonesLinearDiattenuator', 'JonesLinearRetarder', 'FresnelCoating', 'BaseCoatingPolarized'],
                       'the Jones matrix refers to an earlier call', min_methods=3)


ZERO_ = Rat.const(0)


def pol_frames(ctx):
    """PolarizedRays.update / _get_3d_electric_field / get_output_field proved
    with the vector evaluator: the s-p-k frames before and after a surface
    are orthonormal, the surface matrix maps the old direction onto the new
    one, keeps a transverse field transverse for every block-diagonal Jones
    matrix, and is orthogonal (intensity preserved for every state) when
    there is no coating."""
    from ..vec import (VecEv, V, Mx, dot, cross, matmul, transpose,
                       ZERO as Z0)
    from ..paths import paths, call_attr
    P = ctx.P
    res = Result('POL-FRAMES', 'one surface of the polarisation trace: '
                 'orthonormal s-p-k frames, k0 -> k1, transverse fields stay '
                 'transverse for any block-diagonal Jones matrix, orthogonal '
                 'surface matrix without coating; launch field transverse '
                 'with |E|^2 = Ex^2 + Ey^2')
    up = P.func('PolarizedRays.update')
    res.saw(up)
    A = Rat.atom
    I3 = Mx(((ONE, Z0, Z0), (Z0, ONE, Z0), (Z0, Z0, ONE)))

    def is_I(m, sym):
        return all(sym.eq(m[i][j], I3[i][j]) for i in range(3)
                   for j in range(3))

    def veq(u, v, sym):
        return all(sym.eq(x, y) for x, y in zip(u, v))

    for scen in ('generic', 'parallel'):
        for coated in (False, True):
            sym = Sym()
            k0 = V((A('a'), A('b'), A('c')))
            sym.rel['c'] = ONE - A('a') * A('a') - A('b') * A('b')
            if scen == 'generic':
                k1 = V((A('d'), A('e'), A('f')))
                sym.rel['f'] = ONE - A('d') * A('d') - A('e') * A('e')
            else:
                k1 = k0
            J = Mx(((A('j00'), A('j01'), Z0), (A('j10'), A('j11'), Z0),
                    (Z0, Z0, A('j22'))))
            attr = {'self.L0': k0[0], 'self.M0': k0[1], 'self.N0': k0[2],
                    'self.L': k1[0], 'self.M': k1[1], 'self.N': k1[2],
                    'self.p': I3}

            def scenario(q, scen=scen, coated=coated):
                kind, txt = q
                if kind == 'if' and txt.startswith('np.any('):
                    return scen == 'parallel'
                if kind == 'if' and txt.replace(' ', '') == \
                        'jones_matrixisNone':
                    return not coated
                if kind == 'mask':
                    return True
                return None
            ev = VecEv(sym=sym, attr=attr, scenario=scenario)
            ev.env['jones_matrix'] = J
            try:
                ev.run(up.node.body)
            except Inconclusive as e:
                raise AnalysisError(f'PolarizedRays.update: {e}')
            p = ev.attr['self.p']
            o_in, o_out = ev.env.get('o_in'), ev.env.get('o_out')
            tag = f'{scen} directions, ' + ('Jones matrix' if coated
                                            else 'no coating')
            if not isinstance(p, Mx):
                raise AnalysisError('PolarizedRays.update: self.p not a matrix')
            bad = None
            if not coated:
                if not (isinstance(o_in, Mx) and isinstance(o_out, Mx)):
                    raise AnalysisError('update: frames o_in / o_out not found')
                if not is_I(matmul(o_in, transpose(o_in)), sym):
                    bad = 'the incoming s-p-k frame is not orthonormal'
                elif not is_I(matmul(transpose(o_out), o_out), sym):
                    bad = 'the outgoing s-p-k frame is not orthonormal'
                elif not (veq(cross(V(o_in[0]), V(o_in[1])), k0, sym) and
                          veq(cross(V(transpose(o_out)[0]),
                                    V(transpose(o_out)[1])), k1, sym)):
                    bad = 's x p = k does not hold in both frames (the ' \
                          'frames differ in handedness: the p component ' \
                          'changes sign at the surface)'
                elif not veq(matmul(p, k0), k1, sym):
                    bad = 'the surface matrix does not map the incoming ' \
                          'direction onto the outgoing direction'
                elif not is_I(matmul(transpose(p), p), sym):
                    bad = 'the uncoated surface matrix is not orthogonal ' \
                          '(intensity is not preserved for every state)'
                elif not veq(matmul(p, V(o_in[0])), V(o_in[0]), sym):
                    bad = 'the s direction is not kept by the uncoated ' \
                          'surface matrix'
            else:
                # k1^T p = j22 k0^T: the component of the output along the new
                # ray is j22 times the component of the input along the old
                # ray, i.e. zero for a transverse input, whatever the 2x2 block
                lhs = matmul(transpose(p), k1)
                rhs = V(tuple(A('j22') * x for x in k0))
                if not veq(lhs, rhs, sym):
                    bad = 'a transverse input field does not stay ' \
                          'transverse to the outgoing ray'
                else:
                    # the 2x2 block acts on (s, p) components: s^T p s = j00
                    s_ = V(o_in[0]) if isinstance(o_in, Mx) else None
                    if s_ is not None and not sym.eq(
                            dot(s_, matmul(p, s_)), A('j00')):
                        bad = 'the s-s element of the Jones matrix does ' \
                              'not act on the s component'
            if bad:
                res.fail(ctx.finding('POL-FRAMES', up, up.node,
                                     f'{tag}: {bad}',
                                     construct=f'update: {tag}'))
            else:
                res.ok(f'update, {tag}')
            if scen == 'parallel' and not coated and isinstance(o_in, Mx):
                # an undeviated ray has no plane of incidence: the fallback s
                # must be the 'x' axis of the frame in which the input states
                # are defined, s_launch = (k x x) x k (Ex multiplies it in
                # _get_3d_electric_field), else every Jones element placed on
                # such a surface acts turned by 90 degrees
                xh = V((ONE, ZERO_, ZERO_))
                s_l = cross(cross(k0, xh), k0)
                s_u = V(o_in[0])
                par = veq(cross(s_u, s_l), V((ZERO_, ZERO_, ZERO_)), sym)
                if par:
                    res.ok('update, parallel directions: s is the x axis of '
                           'the launch frame ((k x x) x k)')
                else:
                    res.fail(ctx.finding(
                        'POL-FRAMES', up, up.node,
                        'for an undeviated ray the s axis falls back to a '
                        'direction that is not the x axis of the launch '
                        'frame ((k x x) x k): a Jones element on a plane '
                        'surface acts turned by 90 degrees - JonesPolarizerH '
                        'transmits 0 of H light and all of V, a quarter-wave '
                        'plate has the opposite retardance',
                        construct='update: fallback frame differs from the '
                                  'launch frame'))
    # the parallel case is recognised with a tolerance: the cross product of
    # two directions that differ by rounding only is noise, and normalising
    # noise gives an s that is not perpendicular to the ray
    from ..match import find, find_seq
    tol = find_seq(up, ['$m = np.linalg.norm($s, axis=1)', '$p = $m < $eps',
                        'if np.any($p):\n    $s[$p] = $v\n    $m = $w']) or \
        find_seq(up, ['$m = np.linalg.norm($s, axis=1)', '$p = $m < $eps',
                      'if np.any($p):\n    $x = $xv\n    $s[$p] = $v\n'
                      '    $m = $w']) or \
        find_seq(up, ['$m = np.linalg.norm($s, axis=1)',
                      'if np.any($m < $eps):\n    $s[$m < $eps] = $v\n'
                      '    $m = $w'])
    exact = find(up, 'np.any($m == 0)')
    if tol and not exact:
        res.ok('parallel directions detected with a tolerance on |k0 x k1|')
    else:
        res.fail(ctx.finding(
            'POL-FRAMES', up, up.node,
            'the parallel-direction case is detected with |k0 x k1| == 0 '
            'exactly: at an index-matched curved surface or a curved image '
            'surface the two directions differ by rounding, the cross '
            'product is noise and its normalisation is not perpendicular to '
            'the ray (intensity off by up to 0.99 on the bundled Hubble '
            'telescope)', construct='update: exact-zero parallel test'))
    # composition order and left multiplication
    if find(up, 'self.p = np.matmul($p, self.p)'):
        res.ok('ray matrix := surface matrix x ray matrix')
    else:
        res.fail(ctx.finding('POL-FRAMES', up, up.node,
                             'the surface matrix is not applied on the left '
                             'of the accumulated ray matrix',
                             construct='update: accumulation order'))
    # launch field
    g = P.func('PolarizedRays._get_3d_electric_field')
    res.saw(g)
    sym = Sym()
    sym.rel['I'] = -ONE
    k = V((A('a'), A('b'), A('c')))
    sym.rel['c'] = ONE - A('a') * A('a') - A('b') * A('b')
    ev = VecEv(sym=sym, attr={'self._L0': k[0], 'self._M0': k[1],
                              'self._N0': k[2]},
               scenario=lambda q: False if q[0] == 'if' else None)
    try:
        ev.run(g.node.body)
    except Inconclusive as e:
        raise AnalysisError(f'_get_3d_electric_field: {e}')
    E = ev.returned
    if not isinstance(E, V):
        raise AnalysisError('_get_3d_electric_field: no vector returned')
    Ec = V(tuple(sym.conj(z) for z in E))
    n2 = dot(E, Ec)
    want = A('state.Ex') * A('state.Ex') + A('state.Ey') * A('state.Ey')
    # the field is the state written in the launch frame the function built:
    # E = Ex exp(i phase_x) s + Ey exp(i phase_y) p
    law_ok = False
    s_l, p_l = ev.env.get('s'), ev.env.get('p')
    if isinstance(s_l, V) and isinstance(p_l, V):
        try:
            ev_l = VecEv(sym=sym, attr=dict(ev.attr))
            ev_l.env.update({'s': s_l, 'p': p_l})
            E_l = ev_l.evx(ast.parse(
                'state.Ex * np.exp(1j * state.phase_x) * s + '
                'state.Ey * np.exp(1j * state.phase_y) * p',
                mode='eval').body)
            law_ok = isinstance(E_l, V) and veq(E, E_l, sym)
        except Inconclusive:
            law_ok = False
    if law_ok:
        res.ok('launch field: E = Ex e^(i phase_x) s + Ey e^(i phase_y) p')
    else:
        res.fail(ctx.finding('POL-FRAMES', g, g.node,
                             'the launch field is not Ex exp(i phase_x) s + '
                             'Ey exp(i phase_y) p in the launch frame: the '
                             'state requested is not the state launched',
                             construct='launch field law'))
    if sym.is_zero(dot(E, k)) and sym.eq(n2, want):
        res.ok('launch field: E . k = 0 and |E|^2 = Ex^2 + Ey^2')
    else:
        res.fail(ctx.finding('POL-FRAMES', g, g.node,
                             'the launch field is not transverse to the ray '
                             'or |E|^2 differs from Ex^2 + Ey^2',
                             construct='launch field'))
    # x and y components are the stated ones: for a ray along z, E = (Ex', Ey')
    go = P.func('PolarizedRays.get_output_field')
    res.saw(go)
    if find(go, 'np.matmul(self.p, E[:, :, np.newaxis])'):
        res.ok('output field = ray matrix x input field')
    else:
        res.fail(ctx.finding('POL-FRAMES', go, go.node,
                             'output field is not the ray matrix applied to '
                             'the input field', construct='get_output_field'))
    pi = P.func('PolarizedRays.__init__')
    res.saw(pi)
    if find(pi, 'self.p = np.tile(np.eye(3), (self.x.size, 1, 1))') and \
            find(pi, 'self._L0 = L.copy()') and \
            find(pi, 'self._M0 = M.copy()') and \
            find(pi, 'self._N0 = N.copy()') and \
            find(pi, 'self._i0 = intensity.copy()'):
        res.ok('rays start with the identity matrix and remember the launch '
               'direction and intensity')
    else:
        res.fail(ctx.finding('POL-FRAMES', pi, pi.node,
                             'launch state (identity matrix, launch '
                             'direction, launch intensity) not recorded',
                             construct='PolarizedRays.__init__'))
    # every Jones matrix is block diagonal: only [0:2, 0:2] and [2, 2]
    n = 0
    for cn, c in P.classes.items():
        if 'BaseJones' not in P.mro(cn) or cn == 'BaseJones':
            continue
        m = c.methods.get('calculate_matrix')
        if m is None:
            continue
        res.saw(m)
        n += 1
        bad = None
        for st in ast.walk(m.node):
            if isinstance(st, ast.Assign) and isinstance(
                    st.targets[0], ast.Subscript) and \
                    unparse(st.targets[0].value) == 'jones_matrix':
                sl = st.targets[0].slice
                idx = [unparse(x) for x in sl.elts] if isinstance(
                    sl, ast.Tuple) else []
                if len(idx) != 3 or idx[0] != ':':
                    bad = unparse(st.targets[0])
                elif (idx[1], idx[2]) == ('2', '2'):
                    if unparse(st.value) not in ('1', '-1'):
                        bad = unparse(st)
                elif not (idx[1] in ('0', '1') and idx[2] in ('0', '1')):
                    bad = unparse(st.targets[0])
        if not find(m, 'jones_matrix = np.zeros((rays.x.size, 3, 3), '
                       'dtype=complex)'):
            bad = bad or 'matrix not initialised to zeros'
        if bad:
            res.fail(ctx.finding('POL-FRAMES', m, m.node,
                                 f'{m.qual}: Jones matrix is not block '
                                 f'diagonal ([0:2, 0:2] and [2, 2] = +-1): '
                                 f'{bad}', construct=f'{m.qual} block form'))
        else:
            res.ok(f'{m.qual}: block-diagonal 3x3')
    if n < 9:
        raise AnalysisError(f'POL-FRAMES: only {n} Jones classes found')
    # one update per surface, after the new direction is known
    it = P.func('Surface._interact')
    res.saw(it)
    bad = None
    for p_ in paths(it, loop_iters=(1,)):
        seq = [call_attr(e) for e in p_.events if e.kind == 'call']
        ups = [i for i, c in enumerate(seq) if c in ('update', 'interact')]
        bend = [i for i, c in enumerate(seq) if c in ('refract', 'reflect')]
        if len(ups) != 1 or not bend or ups[0] < bend[0]:
            bad = seq
            break
    if bad:
        res.fail(ctx.finding('POL-FRAMES', it, it.node,
                             f'Surface._interact: the ray matrix is not '
                             f'updated exactly once after the ray is bent '
                             f'(calls {bad})', construct='_interact update'))
    else:
        res.ok('Surface._interact: exactly one update / coating interaction, '
               'after refract / reflect')
    return res


def coating_media(ctx):
    """a Fresnel coating computes its coefficients from the media it holds;
    they must be the media of its surface after every edit of the index"""
    from ..match import find
    P = ctx.P
    res = Result('COATING-MEDIA', 'FresnelCoating holds the two media of its '
                 'surface; set_index, which rebinds them, rebuilds the '
                 'Fresnel coatings of the two surfaces it touches')
    fc = P.func('FresnelCoating.__init__')
    sf = P.func('Surface.set_fresnel_coating')
    si = P.func('Optic.set_index')
    for f in (fc, sf, si):
        res.saw(f)
    if find(sf, 'self.coating = FresnelCoating(self.material_pre, '
                'self.material_post)'):
        res.ok('Surface.set_fresnel_coating: coating of (material_pre, '
               'material_post)')
    else:
        res.fail(ctx.finding('COATING-MEDIA', sf, sf.node,
                             'set_fresnel_coating does not use the media of '
                             'its surface', construct='set_fresnel_coating'))
    rebuilt = [n for n in ast.walk(si.node) if isinstance(n, ast.Call) and
               isinstance(n.func, ast.Attribute) and
               n.func.attr == 'set_fresnel_coating']
    stores = [n for n in ast.walk(si.node) if isinstance(n, ast.Assign) and
              isinstance(n.targets[0], ast.Attribute) and
              n.targets[0].attr in ('material_pre', 'material_post')]
    loops = [n for n in ast.walk(si.node) if isinstance(n, ast.For) and
             any(c in ast.walk(n) for c in rebuilt)]
    ok = bool(rebuilt) and stores and \
        min(c.lineno for c in rebuilt) > max(s_.lineno for s_ in stores) and (
            len(rebuilt) >= 2 or (loops and isinstance(
                loops[0].iter, (ast.Tuple, ast.List)) and
                len(loops[0].iter.elts) == 2))
    if not ok and rebuilt and stores and loops and \
            isinstance(loops[0].iter, ast.Name):
        # the loop runs over a list that collects every surface whose media
        # were rebound: list literal + append calls
        ln = loops[0].iter.id
        members = set()
        for n in ast.walk(si.node):
            if isinstance(n, ast.Assign) and isinstance(
                    n.targets[0], ast.Name) and n.targets[0].id == ln and \
                    isinstance(n.value, (ast.List, ast.Tuple)):
                members |= {unparse(x) for x in n.value.elts}
            if isinstance(n, ast.Call) and isinstance(n.func, ast.Attribute) \
                    and n.func.attr == 'append' and \
                    unparse(n.func.value) == ln and n.args:
                members.add(unparse(n.args[0]))
        bases = {unparse(s_.targets[0].value) for s_ in stores}
        ok = bases <= members and \
            loops[0].lineno > max(s_.lineno for s_ in stores)
    if ok:
        res.ok('set_index rebuilds the Fresnel coatings of both surfaces '
               'after rebinding the media')
    else:
        res.fail(ctx.finding(
            'COATING-MEDIA', si, si.node,
            'set_index (and index variables through it) rebinds the media '
            'of two surfaces but leaves their Fresnel coatings with the old '
            'media: the traced transmittance stays that of the previous '
            'index', construct='set_index stale coating media'))
    return res


def pol_local_frame(ctx):
    """the accumulated polarisation matrix lives in one frame.  Surfaces are
    traced in their own frame: localize rotates positions and direction
    cosines (RealRays.rotate_x/y/z), the s-p-k frames of PolarizedRays.update
    are built from those local direction cosines, and globalize rotates the
    ray back - but nothing rotates the 3x3 matrices."""
    P = ctx.P
    res = Result('POL-LOCAL-FRAME', 'the polarisation matrix is expressed in '
                 'the frame of the direction cosines it is built from, also '
                 'for tilted surfaces')
    rot = [P.func('RealRays.rotate_' + a) for a in 'xyz']
    pr = P.classes['PolarizedRays']
    touches_p = any(isinstance(x, ast.Attribute) and x.attr == 'p' and
                    unparse(x.value) == 'self' for f in rot
                    for x in ast.walk(f.node))
    overrides = any(('rotate_' + a) in pr.methods for a in 'xyz')
    tr = P.func('Surface._trace_real')
    for f in rot + [tr]:
        res.saw(f)
    seq = [c.func.attr for c in ast.walk(tr.node) if isinstance(c, ast.Call)
           and isinstance(c.func, ast.Attribute) and c.func.attr in (
               'localize', '_interact', 'globalize')]
    between = seq[:3] == ['localize', '_interact', 'globalize'] or (
        'localize' in seq and '_interact' in seq and 'globalize' in seq and
        seq.index('localize') < seq.index('_interact') <
        seq.index('globalize'))
    if between and not (touches_p or overrides):
        res.fail(ctx.finding(
            'POL-LOCAL-FRAME', tr, tr.node,
            'PolarizedRays.update is called between localize and globalize, '
            'i.e. with direction cosines in the tilted frame of the surface, '
            'while the accumulated matrix is never rotated (rotate_x/y/z do '
            'not touch it): after a tilted surface the propagated field is '
            'no longer transverse to the ray (|E.k| = 8e-3 for rx = 0.2) and '
            'Fresnel intensities are wrong',
            construct='polarisation matrix not rotated with the ray frame'))
    else:
        res.ok('polarisation matrix follows the frame changes')
    if not overrides:
        return res
    # the override of each axis rotates the matrices with exactly the matrix
    # the base class applies to the direction cosines:  R (L, M, N) == the
    # direction RealRays.rotate_a leaves, for symbolic angle and direction
    for ax in 'xyz':
        base = P.func('RealRays.rotate_' + ax)
        over = pr.methods.get('rotate_' + ax)
        if over is None:
            res.fail(ctx.finding(
                'POL-LOCAL-FRAME', base, base.node,
                f'PolarizedRays overrides some rotations but not rotate_{ax}: '
                f'a tilt about {ax} leaves the matrices in the old frame',
                construct=f'rotate_{ax} not overridden'))
            continue
        res.saw(over)
        sym = Sym()
        ang = base.params[0]
        heap = {}
        evb = Ev(sym=sym, heap=heap)
        evb.env[ang] = A('ANGLE')
        try:
            evb.run(base.node.body)
        except Inconclusive as e:
            raise AnalysisError(f'RealRays.rotate_{ax}: {e}')
        newd = [heap.get('self.' + k, A('self.' + k)) for k in 'LMN']
        # override: super call with the same angle, then one matrix applied
        # to self.p from the left
        calls_super = any(
            isinstance(c, ast.Call) and isinstance(c.func, ast.Attribute) and
            c.func.attr == 'rotate_' + ax and
            isinstance(c.func.value, ast.Call) and
            unparse(c.func.value.func) == 'super' and
            [unparse(a_) for a_ in c.args] == [over.params[0]]
            for c in ast.walk(over.node))
        evo = Ev(sym=sym)
        evo.env[over.params[0]] = A('ANGLE')
        mat = None
        for st in over.node.body:
            if isinstance(st, ast.Assign):
                try:
                    evo.stmt(st)
                except Inconclusive:
                    pass
            for c in ast.walk(st):
                if isinstance(c, ast.Call) and c.args and isinstance(
                        c.args[0], ast.List) and len(c.args[0].elts) == 3 \
                        and all(isinstance(r_, ast.List) and
                                len(r_.elts) == 3 for r_ in c.args[0].elts):
                    try:
                        mat = [[evo.ev(x) for x in r_.elts]
                               for r_ in c.args[0].elts]
                    except Inconclusive as e:
                        raise AnalysisError(f'rotate_{ax} matrix: {e}')
        helper = pr.methods.get('_rotate_p')
        left = helper is not None and any(
            isinstance(c, ast.Call) and unparse(c.func) == 'np.matmul' and
            len(c.args) == 2 and unparse(c.args[1]) == 'self.p'
            for c in ast.walk(helper.node)) or any(
            isinstance(c, ast.Call) and unparse(c.func) == 'np.matmul' and
            len(c.args) == 2 and unparse(c.args[1]) == 'self.p'
            for c in ast.walk(over.node))
        d0 = [A('self.L'), A('self.M'), A('self.N')]
        ok = mat is not None and calls_super and left and all(
            sym.eq(mat[i][0] * d0[0] + mat[i][1] * d0[1] + mat[i][2] * d0[2],
                   newd[i]) for i in range(3))
        if ok:
            res.ok(f'rotate_{ax}: p <- R p with the matrix that rotates '
                   f'(L, M, N)')
        else:
            res.fail(ctx.finding(
                'POL-LOCAL-FRAME', over, over.node,
                f'PolarizedRays.rotate_{ax} does not rotate the polarization '
                f'matrices with the matrix RealRays.rotate_{ax} applies to '
                f'the direction cosines (super call with the angle, '
                f'p = R p): the matrices and the directions they are built '
                f'from are in different frames',
                construct=f'rotate_{ax} matrix'))
    return res


def pair_mean(ctx):
    """'the unpolarized intensity equals the mean of the intensities of any
    two orthogonal input states': both branches of update_intensity apply the
    same factor structure, i <- i * T, with T = |P E|^2 for a polarized state
    and T = (|P Ex|^2 + |P Ey|^2) / 2 for the unpolarized one, Ex / Ey the
    unit fields along the local x and y axes."""
    P = ctx.P
    res = Result('PAIR-MEAN', 'update_intensity: polarized i * |P E|^2, '
                 'unpolarized i * (|P Ex|^2 + |P Ey|^2) / 2 with the same '
                 'prefactor (launch intensity, apertures, absorption)')
    f = P.func('PolarizedRays.update_intensity')
    res.saw(f)
    top = [st for st in f.node.body if isinstance(st, ast.If)]
    if len(top) != 1 or 'is_polarized' not in unparse(top[0].test):
        raise AnalysisError('update_intensity: polarized / unpolarized '
                            'branches not found')
    arms = {'polarized': top[0].body, 'unpolarized': top[0].orelse}
    if isinstance(top[0].test, ast.UnaryOp):
        arms = {'polarized': top[0].orelse, 'unpolarized': top[0].body}

    tail = [st for st in f.node.body if st is not top[0] and
            not (isinstance(st, ast.Expr) and
                 isinstance(st.value, ast.Constant))]

    def run(body):
        """value stored to self.i for a ray that is not dark: the arm, then
        the statements after the branch (a masked store i = where(i == 0, 0,
        i * T) takes its non-dark arm)"""
        defs = {}

        def inline(call, ev):
            fn = unparse(call.func)
            if fn == 'np.sum' and call.args:
                inner = call.args[0]
                if isinstance(inner, ast.BinOp) and isinstance(
                        inner.op, ast.Pow) and const_of(inner.right) == 2 \
                        and isinstance(inner.left, ast.Call) and \
                        unparse(inner.left.func) == 'np.abs':
                    arg = inner.left.args[0]
                    src = defs.get(unparse(arg), unparse(arg))
                    return A('S<' + src + '>')
            return None

        def choose(test, ev):
            # the dark-ray mask is False for the ray considered
            if isinstance(test, ast.Compare) and \
                    unparse(test.left) == 'self.i' and \
                    const_of(test.comparators[0]) == 0:
                return isinstance(test.ops[0], ast.NotEq)
            return None
        ev = Ev(inline=inline, choose=choose)
        out = None
        for st in list(body) + tail:
            if isinstance(st, ast.Assign) and isinstance(st.targets[0],
                                                         ast.Name):
                v = st.value
                nm = st.targets[0].id
                if isinstance(v, ast.Call):
                    fn = unparse(v.func)
                    if fn == 'PolarizationState':
                        kw = {k.arg: unparse(k.value) for k in v.keywords}
                        defs[nm] = 'STATE(' + ','.join(
                            f'{k}={kw[k]}' for k in sorted(kw)) + ')'
                        continue
                    if fn in ('self._get_3d_electric_field',
                              'self.get_output_field') and len(v.args) == 1:
                        a0 = unparse(v.args[0])
                        defs[nm] = fn.split('.')[-1] + '(' + \
                            defs.get(a0, a0) + ')'
                        continue
                ev.env[nm] = ev.ev(v)
                continue
            if isinstance(st, ast.Assign) and \
                    unparse(st.targets[0]) == 'self.i':
                out = ev.ev(st.value)
        return out
    sx = ('STATE(Ex=1.0,Ey=0.0,is_polarized=True,phase_x=0.0,phase_y=0.0)')
    sy = ('STATE(Ex=0.0,Ey=1.0,is_polarized=True,phase_x=0.0,phase_y=0.0)')

    def S(state):
        return A('S<get_output_field(_get_3d_electric_field(' + state + '))>')
    try:
        pol = run(arms['polarized'])
        unp = run(arms['unpolarized'])
    except Inconclusive as e:
        raise AnalysisError(f'update_intensity: {e}')
    i = A('self.i')
    ok_p = isinstance(pol, Rat) and rat_eq(pol, i * S('state'))
    ok_u = isinstance(unp, Rat) and rat_eq(unp, i * (S(sx) + S(sy)) / C(2))
    if ok_p:
        res.ok('polarized: i <- i |P E(state)|^2')
    else:
        res.fail(ctx.finding('PAIR-MEAN', f, f.node,
                             f'polarized branch stores {pol}, not the scalar '
                             f'intensity times |P E|^2',
                             construct='polarized branch'))
    if ok_u:
        res.ok('unpolarized: i <- i (|P Ex|^2 + |P Ey|^2) / 2, unit fields '
               'along local x and y')
    else:
        res.fail(ctx.finding(
            'PAIR-MEAN', f, f.node,
            f'unpolarized branch stores {unp}: not the mean over the unit x '
            f'and y states with the prefactor of the polarized branch '
            f'(the mean-of-two-orthogonal-states identity fails by that '
            f'factor)', construct='branch normalisation'))
    return res


def pol_update_once(ctx):
    """every coating interaction updates the ray matrix exactly once (the
    s-p-k frame follows the ray through every surface): Surface._interact
    delegates to coating.interact -> transmit / reflect, so each concrete
    transmit / reflect must call rays.update once on every path."""
    from ..paths import paths, call_attr
    P = ctx.P
    res = Result('POL-UPDATE-ONCE', 'every coating transmit / reflect calls '
                 'rays.update exactly once on every path')
    bi = P.func('BaseCoating.interact')
    res.saw(bi)
    n = 0
    for cn in sorted(P.classes):
        if 'BaseCoating' not in P.mro(cn):
            continue
        for mn in ('transmit', 'reflect'):
            m = P.classes[cn].methods.get(mn)
            if m is None:
                continue
            if not any(not (isinstance(st, (ast.Pass, ast.Expr)) and (
                    isinstance(st, ast.Pass) or
                    isinstance(st.value, ast.Constant)))
                    for st in m.node.body):
                continue            # abstract: docstring / pass only
            res.saw(m)
            n += 1
            bad = None
            for p_ in paths(m, loop_iters=(1,)):
                ups = [e for e in p_.events if e.kind == 'call' and
                       call_attr(e) == 'update' and
                       unparse(e.node.func).startswith('rays.')]
                if len(ups) != 1:
                    bad = len(ups)
                    break
            if bad is None:
                res.ok(f'{m.qual}: one rays.update per path')
            else:
                res.fail(ctx.finding(
                    'POL-UPDATE-ONCE', m, m.node,
                    f'{m.qual} calls rays.update {bad} times: behind such a '
                    f'coating the s-p-k frame of polarized rays is not '
                    f'rotated with the ray (field no longer transverse) or '
                    f'rotated twice',
                    construct='no polarization update' if bad == 0
                    else 'repeated polarization update'))
    if n < 4:
        raise AnalysisError(f'POL-UPDATE-ONCE: only {n} coating methods found')
    return res


# META update: declined clause 'mean-of-two-states identity' re-worded
META['declined'] = [
    'intensity values (the mean-of-two-states identity is decided structurally: PAIR-MEAN; one frame update per surface: POL-UPDATE-ONCE)' if _d.startswith('mean-of-two-states identity') else _d
    for _d in META['declined']]


def pol_entries(ctx):
    """the intensities of polarized rays come from their polarization
    matrices; every public trace entry that hands back rays / fills the image
    record must convert them (update_intensity) after the surface trace -
    sibling agreement between Optic.trace and Optic.trace_generic - and the
    conversion keeps dark rays dark (their matrices may be nan)."""
    from ..paths import paths, annotate, call_attr, callee_names
    P = ctx.P
    res = Result('POL-ENTRIES', 'Optic.trace and Optic.trace_generic both '
                 'apply the polarization state after the surface trace; '
                 'update_intensity leaves rays of zero intensity at zero')
    entries = [P.func('Optic.trace'), P.func('Optic.trace_generic')]
    for f in entries:
        res.saw(f)
        ok = True
        n = 0
        for p in annotate(P, f, paths(f)):
            if p.exit == 'raise':
                continue
            n += 1
            tr = [i for i, e in enumerate(p.events) if e.kind == 'call' and
                  'SurfaceGroup.trace' in callee_names(e)]
            up = [i for i, e in enumerate(p.events) if e.kind == 'call' and
                  call_attr(e) == 'update_intensity']
            pol = any(e.kind == 'branch' and 'PolarizedRays' in
                      unparse(e.node) and e.extra for e in p.events) \
                if any(e.kind == 'branch' for e in p.events) else None
            if not tr:
                ok = False
            # on the path that takes the isinstance(rays, PolarizedRays)
            # branch the update follows the trace
            if up and not (up[-1] > tr[-1]):
                ok = False
        has_call = any(isinstance(c, ast.Call) and isinstance(
            c.func, ast.Attribute) and c.func.attr == 'update_intensity' and
            'self.polarization_state' in unparse(c)
            for c in ast.walk(f.node))
        guarded = any(isinstance(n_, ast.If) and
                      'PolarizedRays' in unparse(n_.test) and
                      any('update_intensity' in unparse(b) for b in n_.body)
                      for n_ in ast.walk(f.node))
        if ok and has_call and guarded:
            res.ok(f'{f.qual}: polarized rays get update_intensity('
                   f'polarization_state) after the surface trace')
        else:
            res.fail(ctx.finding(
                'POL-ENTRIES', f, f.node,
                f'{f.qual} does not convert the polarization matrices of '
                f'polarized rays into intensities: with Fresnel coatings it '
                f'returns intensity 1.000 where Optic.trace returns 0.9216 '
                f'for the same ray',
                construct='polarization state not applied'))
    ui = P.func('PolarizedRays.update_intensity')
    res.saw(ui)
    stores = [st for st in ast.walk(ui.node) if isinstance(st, ast.Assign) and
              unparse(st.targets[0]) == 'self.i']
    if not stores:
        raise AnalysisError('update_intensity: no store to self.i')
    bad = None
    for st in stores:
        v = st.value
        masked = isinstance(v, ast.Call) and unparse(v.func) == 'np.where' \
            and len(v.args) == 3 and isinstance(v.args[0], ast.Compare) and \
            unparse(v.args[0].left) == 'self.i' and \
            const_of(v.args[0].comparators[0]) == 0 and (
                (isinstance(v.args[0].ops[0], ast.Eq) and
                 const_of(v.args[1]) == 0) or
                (isinstance(v.args[0].ops[0], (ast.NotEq, ast.Gt)) and
                 const_of(v.args[2]) == 0))
        if not masked:
            bad = st
    if bad is None:
        res.ok('update_intensity: i = where(i == 0, 0, i * T)')
    else:
        res.fail(ctx.finding(
            'POL-ENTRIES', ui, bad,
            'update_intensity multiplies the intensity of every ray by the '
            'polarization transmittance: for a ray that missed a surface or '
            'was totally reflected the matrix is nan and 0 * nan = nan '
            '(ball-like singlet: [nan, 1, nan] instead of [0, 1, 0]; '
            'UVReflectingMicroscope: 52 nan rays)',
            construct='dark rays become nan'))
    return res


def fresnel_power(ctx):
    """'Fresnel amplitude coefficients conserve energy (R + T = 1 separately
    for s and p)': the ray intensity is the power a ray carries.  |t|^2 is a
    ratio of irradiances; the transmitted power is
    T = n2 cos(theta_t) / (n1 cos(theta_i)) |t|^2.  The polarization matrix
    carries t (JonesFresnel), so somewhere on the transmit path the scalar
    intensity has to take the factor n2 cos_t / (n1 cos_i)."""
    P = ctx.P
    res = Result('FRESNEL-POWER', 'the transmitted intensity of an uncoated '
                 'interface is T = n2 cos_t / (n1 cos_i) |t|^2 (so that '
                 'R + T = 1 and a passive lens never transmits more than 1)')
    jf = P.func('JonesFresnel.calculate_matrix')
    res.saw(jf)
    cands = []
    for q in ('FresnelCoating.transmit', 'BaseCoatingPolarized.transmit',
              'PolarizedRays.update', 'PolarizedRays.update_intensity',
              'BaseCoatingPolarized.interact'):
        if P.has(q):
            f = P.func(q)
            res.saw(f)
            cands.append(f)
    def has_factor(f):
        src = unparse(f.node, 1000000)
        return ('material_post.n' in src or 'n2' in src) and \
            ('material_pre.n' in src or 'n1' in src) and 'cos' in src and \
            any(isinstance(st, (ast.Assign, ast.AugAssign)) and
                unparse(st.target if isinstance(st, ast.AugAssign)
                        else st.targets[0]).endswith('.i')
                for st in ast.walk(f.node))
    if any(has_factor(f) for f in cands):
        res.ok('the power factor n2 cos_t / (n1 cos_i) is applied on the '
               'transmit path')
    else:
        tr = P.func('BaseCoatingPolarized.transmit')
        res.fail(ctx.finding(
            'FRESNEL-POWER', tr, tr.node,
            'the polarized trace reports |t|^2 as transmitted intensity: '
            'nothing on the transmit path multiplies by n2 cos(theta_t) / '
            '(n1 cos(theta_i)).  A single air-glass interface (n = 1.5) with '
            'the detector in the glass reads 0.64 instead of 0.96 '
            '(R + T = 0.68); a bare biconvex singlet at a 10 deg field '
            'transmits up to 1.038 (> 1) where the vector reference gives '
            '0.90 .. 0.94', construct='transmitted power factor missing'))
    return res


RULES = [fresnel_power, pol_entries, pair_mean, pol_update_once, pol_local_frame, coating_media, no_stale, pol_frames, fresnel, rotation_law, retarder, projectors, aoi]

"""C17 -- Fresnel coefficients conserve energy; polarization element algebra."""
import ast
from fractions import Fraction as Fr
from ..core import Result
from ..pm import AnalysisError, unparse
from ..match import Code
from ..rat import (Ev, Rat, Sym, Poly, fn_eval, rat_eq, Inconclusive, ONE,
                   ZERO, const_of)

META = {
    'explanation': (
        'FRESNEL-ENERGY: from the expressions of JonesFresnel.calculate_matrix, '
        'R + T = 1 for s and p with T = (root/cos) |t|^2, the normal-incidence '
        'reflectance ((1-n)/(1+n))^2 and the Brewster zero of r_p (relation '
        'cos^2 = 1/(1+n^2)); matrix slots s, p, k. ROTATION-LAW: for every '
        'element with an angle, J(theta) = R(theta) J(0) R(-theta) entry by '
        'entry (J(0) obtained from the same source with theta = 0), J(0) '
        'diagonal. RETARDER-UNITARY: J J^dagger = 1 and the retardance between '
        'the eigen-axes. PROJECTORS: the six fixed polarizers are idempotent, '
        'Hermitian, of trace one, and fix the state that create_polarization '
        'builds for their name. AOI: angle of incidence from the pre-surface '
        'direction, passed to the Jones calculation by both coating arms.'),
    'declined': ['intensity preservation and transversality through a lens',
                 'mean-of-two-states identity of the unpolarized trace'],
    'trusted': ['ring axioms with I^2 = -1, sin^2+cos^2 = 1, exp(ix) = cos x + '
                'i sin x, sin 2x = 2 sin x cos x', 'indices positive (sqrt of '
                'a square of an index is the index)'],
}

A = Rat.atom
C = Rat.const


def _eval_matrix(P, f, reflect=None, aoi=None, heap=None, sym=None,
                 theta_zero=False):
    sym = sym or Sym()
    sym.rel.setdefault('I', -ONE)
    heap = heap if heap is not None else {}

    def inline(call, ev):
        fn = call.func
        if isinstance(fn, ast.Attribute) and fn.attr == 'n' and call.args:
            return A('n1') if 'pre' in unparse(fn.value) else A('n2')
        if isinstance(fn, ast.Attribute) and fn.attr == 'zeros':
            return ZERO
        return None

    def choose(test, ev):
        if unparse(test) == 'reflect':
            return reflect
        return None
    args = [A('rays'), None, aoi if aoi is not None else A('aoi')]
    ev = fn_eval(P, f, args, sym=sym, heap=heap, inline=inline, choose=choose)
    return ev, sym


def _slot(ev, i, j):
    for k in (f'jones_matrix[:,{i},{j}]', f'jones_matrix[:, {i}, {j}]'):
        if k in ev.heap:
            return ev.heap[k]
    return ZERO


def fresnel(ctx):
    P = ctx.P
    res = Result('FRESNEL-ENERGY', 'R + T = 1 for s and p; normal-incidence '
                 'reflectance ((n1-n2)/(n1+n2))^2; r_p = 0 at Brewster angle',
                 level='proof')
    f = P.func('JonesFresnel.calculate_matrix')
    res.saw(f)
    try:
        evR, symR = _eval_matrix(P, f, True)
        evT, symT = _eval_matrix(P, f, False)
    except Inconclusive as e:
        raise AnalysisError(f'JonesFresnel outside fragment: {e}')
    # r, t from the slots (the p reflection slot carries a sign convention)
    rs, rp_slot = _slot(evR, 0, 0), _slot(evR, 1, 1)
    ts, tp = _slot(evT, 0, 0), _slot(evT, 1, 1)
    n = A('n2') / A('n1')

    def pieces(sym):
        cs = [a for a, (k, x) in sym.defs.items() if k == 'cos']
        rt = [a for a, (k, x) in sym.defs.items() if k == 'sqrt']
        if len(cs) != 1 or len(rt) != 1:
            raise AnalysisError('Fresnel: cos / sqrt atoms not unique')
        return A(cs[0]), A(rt[0]), sym.defs[rt[0]][1]
    cR, rR, radR = pieces(symR)
    cT, rT, radT = pieces(symT)
    # same atoms in both symbol tables? evaluate energy in each own table
    # R + T with T = (root / cos) t^2 -- need r and t over common atoms: build
    # both in one symbol context
    sym = Sym()
    sym.rel['I'] = -ONE
    evR, _ = _eval_matrix(P, f, True, sym=sym)
    evT, _ = _eval_matrix(P, f, False, sym=sym)
    rs, rp_slot = _slot(evR, 0, 0), _slot(evR, 1, 1)
    ts, tp = _slot(evT, 0, 0), _slot(evT, 1, 1)
    cs = [a for a, (k, x) in sym.defs.items() if k == 'cos']
    sn = [a for a, (k, x) in sym.defs.items() if k == 'sin']
    rt = [a for a, (k, x) in sym.defs.items() if k == 'sqrt']
    if len(cs) != 1 or len(rt) != 1:
        raise AnalysisError('Fresnel: cos / sqrt atoms not unique')
    c, root = A(cs[0]), A(rt[0])
    rad = sym.defs[rt[0]][1]
    if sym.eq(rad, n * n - A(sn[0]) * A(sn[0])):
        res.ok('root^2 == (n2/n1)^2 - sin^2(aoi)')
    else:
        res.fail(ctx.finding('FRESNEL-ENERGY', f, f.node,
                             'radicand is not n^2 - sin^2(theta_i)',
                             construct='Fresnel radicand'))
    for name, r, t in (('s', rs, ts), ('p', rp_slot, tp)):
        if sym.eq(r * r + (root / c) * t * t, ONE):
            res.ok(f'R_{name} + T_{name} == 1 with T = (root/cos) t^2')
        else:
            res.fail(ctx.finding(
                'FRESNEL-ENERGY', f, f.node,
                f'Fresnel {name}-polarisation: R + T != 1 for the amplitude '
                f'coefficients computed by calculate_matrix',
                construct=f'Fresnel energy {name}'))
    # normal incidence: theta = 0
    sym0 = Sym()
    sym0.rel['I'] = -ONE
    sym0.assume_positive = True
    ev0, _ = _eval_matrix(P, f, True, aoi=ZERO, sym=sym0)
    want = ((A('n1') - A('n2')) / (A('n1') + A('n2')))
    for name, slot in (('s', _slot(ev0, 0, 0)), ('p', _slot(ev0, 1, 1))):
        if sym0.eq(slot * slot, want * want):
            res.ok(f'normal incidence: R_{name} == ((n1-n2)/(n1+n2))^2')
        else:
            res.fail(ctx.finding(
                'FRESNEL-ENERGY', f, f.node,
                f'normal-incidence {name}-reflectance is {slot}^2, not '
                f'((n1-n2)/(n1+n2))^2', construct=f'Fresnel normal {name}'))
    # Brewster: cos^2 = 1/(1+n^2) -> r_p numerator vanishes
    num = rp_slot.n
    relB = dict(sym.rel)
    relB[cs[0]] = ONE / (ONE + n * n)
    # r_p = +-(n^2 c - root)/(n^2 c + root): zero iff (n^2 c)^2 == root^2
    lhs = (n * n * c) * (n * n * c) - root * root
    from ..rat import rat_is_zero
    if rat_is_zero(lhs, relB):
        # and the numerator of the stored p really is n^2 c - root (up to sign)
        if sym.eq(rp_slot * (n * n * c + root), -(n * n * c - root)) or \
                sym.eq(rp_slot * (n * n * c + root), (n * n * c - root)):
            res.ok('r_p == +-(n^2 cos - root)/(n^2 cos + root): zero at '
                   'tan(theta) = n (Brewster)')
        else:
            res.fail(ctx.finding('FRESNEL-ENERGY', f, f.node,
                                 'r_p is not (n^2 cos - root)/(n^2 cos + root)',
                                 construct='Fresnel r_p form'))
    else:
        res.fail(ctx.finding('FRESNEL-ENERGY', f, f.node,
                             'r_p does not vanish at Brewster\'s angle',
                             construct='Fresnel Brewster'))
    # slots: k-component +-1, off-diagonals zero
    for ev, arm, kk in ((evR, 'reflect', -ONE), (evT, 'transmit', ONE)):
        if rat_eq(_slot(ev, 2, 2), kk):
            res.ok(f'{arm}: k slot == {kk}')
        else:
            res.fail(ctx.finding('FRESNEL-ENERGY', f, f.node,
                                 f'{arm}: propagation-direction slot is '
                                 f'{_slot(ev, 2, 2)}', construct=f'{arm} k slot'))
        extra = [k for k in ev.heap if k.startswith('jones_matrix[') and
                 k.replace(' ', '') not in ('jones_matrix[:,0,0]',
                                            'jones_matrix[:,1,1]',
                                            'jones_matrix[:,2,2]')]
        if extra:
            res.fail(ctx.finding('FRESNEL-ENERGY', f, f.node,
                                 f'{arm}: unexpected matrix entries {extra}',
                                 construct=f'{arm} extra slots'))
    # indices at the ray wavelength, pre -> n1, post -> n2
    src = Code(P, f)
    if 'n1 = self.material_pre.n(rays.w)' in src and \
            'n2 = self.material_post.n(rays.w)' in src:
        res.ok('n1 = pre.n(w), n2 = post.n(w)')
    else:
        res.fail(ctx.finding('FRESNEL-ENERGY', f, f.node,
                             'indices not taken from (pre, post) at the ray '
                             'wavelength', construct='Fresnel indices'))
    return res


def _rot_elements(P):
    out = []
    for cn, c in P.classes.items():
        if 'BaseJones' in P.mro(cn) and 'calculate_matrix' in c.methods:
            init = P.lookup(cn, '__init__')
            if init is not None and 'theta' in init.params:
                out.append(cn)
    return out


def _mat2(ev):
    return [[_slot(ev, 0, 0), _slot(ev, 0, 1)],
            [_slot(ev, 1, 0), _slot(ev, 1, 1)]]


def _mm(a, b):
    return [[a[0][0] * b[0][0] + a[0][1] * b[1][0],
             a[0][0] * b[0][1] + a[0][1] * b[1][1]],
            [a[1][0] * b[0][0] + a[1][1] * b[1][0],
             a[1][0] * b[0][1] + a[1][1] * b[1][1]]]


def rotation_law(ctx):
    P = ctx.P
    res = Result('ROTATION-LAW', 'an element at angle theta is the rotation of '
                 'the same element at theta = 0: J(theta) = R(theta) J(0) '
                 'R(-theta), with J(0) diagonal', level='proof')
    els = _rot_elements(P)
    for cn in els:
        f = P.lookup(cn, 'calculate_matrix')
        res.saw(f)
        sym = Sym()
        sym.rel['I'] = -ONE
        try:
            heap = {'self.theta': A('th')}
            ev, _ = _eval_matrix(P, f, sym=sym, heap=heap)
            heap0 = {'self.theta': ZERO}
            ev0, _ = _eval_matrix(P, f, sym=sym, heap=heap0)
        except Inconclusive as e:
            raise AnalysisError(f'{cn}.calculate_matrix outside fragment: {e}')
        J, J0 = _mat2(ev), _mat2(ev0)
        c, s = sym.cos(A('th')), sym.sin(A('th'))
        Rm = [[c, -s], [s, c]]
        Rt = [[c, s], [-s, c]]
        D0 = [[J0[0][0], ZERO], [ZERO, J0[1][1]]]
        want = _mm(_mm(Rm, D0), Rt)
        diag0 = sym.is_zero(J0[0][1]) and sym.is_zero(J0[1][0])
        if diag0:
            res.ok(f'{cn}: J(0) is diagonal')
        else:
            res.fail(ctx.finding(
                'ROTATION-LAW', f, f.node,
                f'{cn}: at theta = 0 the element is not diagonal in its own '
                f'axes (off-diagonal {J0[0][1]})',
                construct=f'{cn} J(0) diagonal'))
        for i in range(2):
            for j in range(2):
                if sym.eq(J[i][j], want[i][j]):
                    res.ok(f'{cn}: J[{i}{j}](theta) == (R J(0) R^T)[{i}{j}]')
                else:
                    res.fail(ctx.finding(
                        'ROTATION-LAW', f, f.node,
                        f'{cn}: entry [{i},{j}] at angle theta is not the '
                        f'rotation of the element at theta = 0',
                        construct=f'{cn} rotation entry [{i},{j}]'))
    res.require(10, 'rotation obligations')
    return res


def retarder(ctx):
    P = ctx.P
    res = Result('RETARDER-UNITARY', 'the linear retarder is unitary and '
                 'retards its slow axis by the stated retardance; quarter / '
                 'half wave plates pass pi/2 / pi', level='proof')
    f = P.func('JonesLinearRetarder.calculate_matrix')
    res.saw(f)
    sym = Sym()
    sym.rel['I'] = -ONE
    heap = {'self.theta': A('th'), 'self.retardance': A('d')}
    ev, _ = _eval_matrix(P, f, sym=sym, heap=heap)
    J = _mat2(ev)
    Jh = [[sym.conj(J[0][0]), sym.conj(J[1][0])],
          [sym.conj(J[0][1]), sym.conj(J[1][1])]]
    Pm = _mm(J, Jh)
    ok = sym.eq(Pm[0][0], ONE) and sym.eq(Pm[1][1], ONE) and \
        sym.is_zero(Pm[0][1]) and sym.is_zero(Pm[1][0])
    if ok:
        res.ok('J J^dagger == identity')
    else:
        res.fail(ctx.finding('RETARDER-UNITARY', f, f.node,
                             'the retarder matrix is not unitary',
                             construct='retarder unitary'))
    heap0 = {'self.theta': ZERO, 'self.retardance': A('d')}
    ev0, _ = _eval_matrix(P, f, sym=sym, heap=heap0)
    J0 = _mat2(ev0)
    # J0[1][1] / J0[0][0] == exp(i d)
    h = A('d') / C(2)
    e_half = sym.cos(h) + A('I') * sym.sin(h)
    if sym.eq(J0[1][1], J0[0][0] * e_half * e_half):
        res.ok('eigen-axes differ in phase by exp(i * retardance)')
    else:
        res.fail(ctx.finding('RETARDER-UNITARY', f, f.node,
                             'phase difference between the axes is not the '
                             'stated retardance', construct='retardance phase'))
    for cn, val in (('JonesQuarterWaveRetarder', Fr(1, 2)),
                    ('JonesHalfWaveRetarder', Fr(1))):
        init = P.func(cn + '.__init__')
        res.saw(init)
        calls = [c for c in ast.walk(init.node) if isinstance(c, ast.Call) and
                 isinstance(c.func, ast.Attribute) and
                 c.func.attr == '__init__']
        okv = False
        if calls and len(calls[0].args) >= 2:
            try:
                v = Ev().ev(calls[0].args[0])
                okv = rat_eq(v, A('pi') * C(val)) and \
                    unparse(calls[0].args[1]) == 'theta'
            except Inconclusive:
                okv = False
        if okv:
            res.ok(f'{cn}: retardance {val} pi, theta forwarded')
        else:
            res.fail(ctx.finding('RETARDER-UNITARY', init, init.node,
                                 f'{cn} does not pass retardance {val}*pi and '
                                 f'theta', construct=f'{cn} retardance'))
    return res


STATE_OF = {'JonesPolarizerH': 'H', 'JonesPolarizerV': 'V',
            'JonesPolarizerL45': 'L+45', 'JonesPolarizerL135': 'L-45',
            'JonesPolarizerRCP': 'RCP', 'JonesPolarizerLCP': 'LCP'}


def _states(P):
    fs = P.module_funcs('create_polarization')
    if not fs:
        raise AnalysisError('create_polarization not found')
    f = fs[0]
    out = {}
    for n in ast.walk(f.node):
        if isinstance(n, ast.If) and isinstance(n.test, ast.Compare) and \
                isinstance(n.test.comparators[0], ast.Constant):
            name = n.test.comparators[0].value
            vals = {}
            sym = Sym()
            sym.rel['I'] = -ONE
            ev = Ev(sym=sym)
            for s in n.body:
                if isinstance(s, ast.Assign) and isinstance(s.targets[0],
                                                            ast.Name):
                    try:
                        vals[s.targets[0].id] = ev.ev(s.value)
                    except Inconclusive:
                        pass
            if {'Ex', 'Ey', 'phase_x', 'phase_y'} <= set(vals):
                I = A('I')
                ex = vals['Ex'] * (sym.cos(vals['phase_x']) +
                                   I * sym.sin(vals['phase_x']))
                ey = vals['Ey'] * (sym.cos(vals['phase_y']) +
                                   I * sym.sin(vals['phase_y']))
                out[name] = (ex, ey, sym)
    return out


def projectors(ctx):
    P = ctx.P
    res = Result('PROJECTORS', 'fixed polarizers are idempotent Hermitian '
                 'projectors of trace one that fix the state '
                 'create_polarization builds for their name', level='proof')
    states = _states(P)
    for cn, st in STATE_OF.items():
        if cn not in P.classes:
            raise AnalysisError(f'{cn} not found')
        f = P.lookup(cn, 'calculate_matrix')
        res.saw(f)
        sym = states[st][2] if st in states else Sym()
        sym.rel['I'] = -ONE
        ev, _ = _eval_matrix(P, f, sym=sym)
        J = _mat2(ev)
        JJ = _mm(J, J)
        idem = all(sym.eq(JJ[i][j], J[i][j]) for i in range(2)
                   for j in range(2))
        herm = sym.eq(J[0][1], sym.conj(J[1][0])) and \
            sym.eq(J[0][0], sym.conj(J[0][0])) and \
            sym.eq(J[1][1], sym.conj(J[1][1]))
        tr1 = sym.eq(J[0][0] + J[1][1], ONE)
        kslot = rat_eq(_slot(ev, 2, 2), ONE)
        for name, ok in (('idempotent', idem), ('Hermitian', herm),
                         ('trace one', tr1), ('k slot 1', kslot)):
            if ok:
                res.ok(f'{cn}: {name}')
            else:
                res.fail(ctx.finding('PROJECTORS', f, f.node,
                                     f'{cn} is not {name}: not a projector '
                                     f'onto a pure state',
                                     construct=f'{cn} {name}'))
        if st in states:
            ex, ey, _ = states[st]
            ox = J[0][0] * ex + J[0][1] * ey
            oy = J[1][0] * ex + J[1][1] * ey
            if sym.eq(ox, ex) and sym.eq(oy, ey):
                res.ok(f'{cn} fixes the {st} state')
            else:
                res.fail(ctx.finding(
                    'PROJECTORS', f, f.node,
                    f'{cn} does not pass the {st!r} state built by '
                    f'create_polarization unchanged: it projects onto a '
                    f'different state', construct=f'{cn} stated state'))
        else:
            raise AnalysisError(f'state {st} not found in create_polarization')
    res.require(30)
    return res


def aoi(ctx):
    P = ctx.P
    res = Result('AOI', 'angle of incidence = arccos |n . d_before|, from the '
                 'pre-surface direction, passed to the Jones calculation with '
                 'the matching reflect flag; rays updated with that matrix')
    f = P.func('BaseCoating._compute_aoi')
    res.saw(f)
    sym = Sym()
    ev = fn_eval(P, f, sym=sym)
    ac = [a for a, (k, x) in sym.defs.items() if k == 'acos']
    src = Code(P, f)
    want = A('nx') * A('rays.L0') + A('ny') * A('rays.M0') + \
        A('nz') * A('rays.N0')
    ok = False
    if 'np.arccos' in src:
        # argument of arccos is clip(|n.d0|)
        e2 = Ev(sym=Sym())
        for s in f.node.body:
            if isinstance(s, ast.Assign) and isinstance(s.targets[0], ast.Name):
                if 'clip' in unparse(s.value):
                    continue
                e2.stmt(s)
        d = e2.env.get('dot')
        ok = d is not None and e2.sym.eq(d, e2.sym.absv(want))
    if ok:
        res.ok('aoi = arccos(clip(|nx L0 + ny M0 + nz N0|))')
    else:
        res.fail(ctx.finding('AOI', f, f.node,
                             'angle of incidence is not computed from the '
                             'pre-surface direction cosines (L0, M0, N0) and '
                             'the normal', construct='_compute_aoi'))
    for mn, flag in (('reflect', 'True'), ('transmit', 'False')):
        m = P.func('BaseCoatingPolarized.' + mn)
        res.saw(m)
        s = Code(P, m)
        if 'aoi = self._compute_aoi(rays, nx, ny, nz)' in s and \
                f'self.jones.calculate_matrix(rays, reflect={flag}, aoi=aoi)' \
                in s and 'rays.update(jones)' in s:
            res.ok(f'BaseCoatingPolarized.{mn}: aoi -> calculate_matrix('
                   f'reflect={flag}) -> rays.update')
        else:
            res.fail(ctx.finding('AOI', m, m.node,
                                 f'polarized coating {mn} does not compute the '
                                 f'Jones matrix from the angle of incidence '
                                 f'with reflect={flag}',
                                 construct=f'polarized {mn}'))
    fc = P.func('FresnelCoating.__init__')
    if 'JonesFresnel(material_pre, material_post)' in unparse(fc.node, 999):
        res.ok('FresnelCoating: JonesFresnel(pre, post)')
    else:
        res.fail(ctx.finding('AOI', fc, fc.node,
                             'Fresnel coating media swapped',
                             construct='FresnelCoating media'))
    sf = P.func('Surface.set_fresnel_coating')
    if 'FresnelCoating(self.material_pre, self.material_post)' in \
            unparse(sf.node, 999):
        res.ok('set_fresnel_coating(pre, post)')
    else:
        res.fail(ctx.finding('AOI', sf, sf.node,
                             'set_fresnel_coating media swapped',
                             construct='set_fresnel_coating media'))
    return res


def no_stale(ctx):
    from .common import stale_cache
    return stale_cache(ctx, 'NO-STALE-STATE', ['JonesFresnel', 'JonesLinearDiattenuator', 'JonesLinearRetarder', 'FresnelCoating', 'BaseCoatingPolarized'],
                       'the Jones matrix refers to an earlier call', min_methods=3)


RULES = [no_stale, fresnel, rotation_law, retarder, projectors, aoi]

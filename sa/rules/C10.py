"""C10 -- Zernike families: indexing, normalisation, evaluation, fitting."""
import ast
import itertools
from fractions import Fraction as Fr
from ..core import Result
from ..pm import AnalysisError, Missing, unparse
from ..match import Code
from ..paths import paths, annotate, callee_names, call_attr
from ..rat import (Ev, Rat, Sym, Poly, fn_eval, rat_eq, Inconclusive, ONE,
                   ZERO, const_of)

META = {
    'explanation': (
        'LINEAR: a term is coefficient x (norm x radial x azimuthal) with the '
        'coefficient entering once; terms / poly are the list / sum of those '
        'terms over the family\'s indices. RADIAL-LAW: the summand of the '
        'radial polynomial equals the published factorial formula and the sum '
        'runs over k = 0 .. (n-|m|)/2. NORM-LAW: N^2 = n+1 (m = 0), 2n+2 '
        '(m != 0) for Standard and Noll, 1 for Fringe. INDEX-LAW: all families '
        'enumerate each admissible (n, m) exactly once (nested loops over n '
        'and m of the right parity); Standard in loop (= OSA) order; Fringe '
        'sorted by the published Fringe number formula; Noll sorted by '
        'n(n+1)/2 + |m| + c with the c table checked over all (sign m, n mod '
        '4) cases by predicate abstraction. FAMILY-DISPATCH and FIT-STORE: '
        'the requested family is the one fitted; the solver\'s solution is '
        'stored; the objective is model(sample points) - data.'),
    'declined': ['unit edge value as a combinatorial identity',
                 'orthonormality integrals', 'recovery of coefficients and '
                 'linearity of the fit in the data (least-squares behaviour)'],
    'trusted': ['published definitions: radial polynomial, OSA / Noll / '
                'Fringe index formulas as transcribed in C10.py',
                'scipy.optimize.least_squares returns .x'],
}

A = Rat.atom
C = Rat.const


def linear(ctx):
    P = ctx.P
    res = Result('LINEAR', 'evaluation is linear in the coefficients: each '
                 'term = coeff * norm * radial * azimuthal, poly = sum of the '
                 'terms over the family indices')
    f = P.func('ZernikeStandard.get_term')
    res.saw(f)

    def inline(call, ev):
        fn = call.func
        if isinstance(fn, ast.Attribute) and isinstance(fn.value, ast.Name) \
                and fn.value.id == 'self':
            return A(fn.attr.upper())
    ev = fn_eval(P, f, inline=inline)
    r = ev.returned
    want = A('coeff') * A('_NORM_CONSTANT') * A('_RADIAL_TERM') * \
        A('_AZIMUTHAL_TERM')
    if isinstance(r, Rat) and rat_eq(r, want):
        res.ok('get_term == coeff * norm * radial * azimuthal')
    else:
        res.fail(ctx.finding('LINEAR', f, f.node,
                             f'a Zernike term is {r}: not linear in its '
                             f'coefficient / not norm x radial x azimuthal',
                             construct='get_term form'))
    calls = {call_name(c): [unparse(a) for a in c.args]
             for c in ast.walk(f.node) if isinstance(c, ast.Call) and
             isinstance(c.func, ast.Attribute)}
    if calls.get('_norm_constant') == ['n', 'm'] and \
            calls.get('_radial_term') == ['n', 'm', 'r'] and \
            calls.get('_azimuthal_term') == ['m', 'phi']:
        res.ok('factors receive (n, m), (n, m, r), (m, phi)')
    else:
        res.fail(ctx.finding('LINEAR', f, f.node,
                             'term factors receive the wrong arguments',
                             construct='get_term arguments'))
    for cn in ('ZernikeFringe', 'ZernikeNoll'):
        if 'get_term' in P.classes[cn].methods or \
                'terms' in P.classes[cn].methods or \
                'poly' in P.classes[cn].methods:
            g = P.lookup(cn, 'get_term')
            res.fail(ctx.finding('LINEAR', g, g.node,
                                 f'{cn} overrides the evaluation: linearity '
                                 f'must be re-established',
                                 construct=f'{cn} overrides evaluation'))
        else:
            res.ok(f'{cn} inherits get_term / terms / poly')
    t = P.func('ZernikeStandard.terms')
    res.saw(t)
    s = Code(P, t)
    if 'for k, idx in enumerate(self.indices)' in s and 'n, m = idx' in s and \
            'self.get_term(self.coeffs[k], n, m, r, phi)' in s:
        res.ok('terms: get_term(coeffs[k], n_k, m_k, r, phi) for every index k')
    else:
        res.fail(ctx.finding('LINEAR', t, t.node,
                             'terms does not pair coefficient k with index k',
                             construct='terms pairing'))
    p = P.func('ZernikeStandard.poly')
    if unparse(p.node.body[-1]) == 'return sum(self.terms(r, phi))':
        res.ok('poly = sum(terms(r, phi))')
    else:
        res.fail(ctx.finding('LINEAR', p, p.node,
                             'poly is not the sum of the terms',
                             construct='poly sum'))
    return res


def call_name(c):
    f = c.func
    return f.attr if isinstance(f, ast.Attribute) else (
        f.id if isinstance(f, ast.Name) else None)


def radial_law(ctx):
    P = ctx.P
    res = Result('RADIAL-LAW', 'radial polynomial summand == (-1)^k (n-k)! / '
                 '(k! ((n+m)/2-k)! ((n-m)/2-k)!) r^(n-2k), k = 0..(n-|m|)/2; '
                 'azimuthal cos(m phi) / sin(m phi)', level='proof')
    f = P.func('ZernikeStandard._radial_term')
    res.saw(f)
    loops = [n for n in ast.walk(f.node) if isinstance(n, ast.For)]
    if len(loops) != 1:
        raise AnalysisError('_radial_term: summation loop not found')
    lp = loops[0]
    aug = [s for s in lp.body if isinstance(s, ast.AugAssign)]
    if len(aug) != 1 or not isinstance(aug[0].op, ast.Add):
        raise Missing('RADIAL-LAW', f, 'radial summand',
                      '_radial_term does not accumulate the terms of the radial '
                      'polynomial (no `value += ...` in the summation loop)')
    sym = Sym()
    ev = Ev(sym=sym)
    for p in ('n', 'm', 'r', 'k'):
        ev.env[p] = A(p)
    try:
        term = ev.ev(aug[0].value)
    except Inconclusive as e:
        raise AnalysisError(f'_radial_term summand outside fragment: {e}')

    def fact(x):
        return sym.opaque('call:math.factorial', (x,), 'math.factorial')

    def pw(b, e):
        return sym.opaque('pow', (b, e))
    n, m, r, k = A('n'), A('m'), A('r'), A('k')
    law = pw(C(-1), k) * fact(n - k) / (
        fact(k) * fact((n + m) / C(2) - k) * fact((n - m) / C(2) - k)) * \
        pw(r, n - C(2) * k)
    law2 = pw(C(-1), k) * fact(n - k) / (
        fact(k) * fact((n - m) / C(2) - k) * fact((n + m) / C(2) - k)) * \
        pw(r, n - C(2) * k)
    if sym.eq(term, law) or sym.eq(term, law2):
        res.ok('summand equals the published radial term')
    else:
        res.fail(ctx.finding('RADIAL-LAW', f, aug[0],
                             'the summand of the radial polynomial differs '
                             'from (-1)^k (n-k)! / (k! ((n+m)/2-k)! '
                             '((n-m)/2-k)!) r^(n-2k)',
                             construct='radial summand'))
    # range: k in range(s_max), s_max = (n - |m|)/2 + 1
    rng = unparse(lp.iter)
    smax = None
    for s in f.node.body:
        if isinstance(s, ast.Assign) and isinstance(s.targets[0], ast.Name) and \
                s.targets[0].id in rng:
            e2 = Ev(sym=Sym())
            e2.env['n'], e2.env['m'] = A('n'), A('m')
            smax = e2.ev(s.value)
            am = e2.sym.absv(A('m'))
            if e2.sym.eq(smax, (A('n') - am) / C(2) + ONE):
                res.ok('k runs over 0 .. (n-|m|)/2')
            else:
                res.fail(ctx.finding('RADIAL-LAW', f, s,
                                     f'number of radial terms is {smax}, not '
                                     f'(n-|m|)/2 + 1',
                                     construct='radial term count'))
    if smax is None or not rng.startswith('range('):
        res.fail(ctx.finding('RADIAL-LAW', f, lp,
                             'radial sum range not recognised',
                             construct='radial range'))
    init = [s for s in f.node.body if isinstance(s, ast.Assign) and
            isinstance(s.targets[0], ast.Name) and
            s.targets[0].id == unparse(aug[0].target)]
    if init and const_of(init[0].value) == 0:
        res.ok('accumulator starts at 0')
    else:
        res.fail(ctx.finding('RADIAL-LAW', f, f.node,
                             'radial accumulator does not start at 0',
                             construct='radial init'))
    a = P.func('ZernikeStandard._azimuthal_term')
    res.saw(a)
    ok = False
    for n_ in ast.walk(a.node):
        if isinstance(n_, ast.If) and unparse(n_.test) == 'm >= 0':
            ok = unparse(n_.body[0]) == 'return np.cos(m * phi)' and \
                unparse(n_.orelse[0]) == 'return np.sin(m * phi)'
    if ok:
        res.ok('azimuthal: cos(m phi) for m >= 0, sin(m phi) for m < 0')
    else:
        res.fail(ctx.finding('RADIAL-LAW', a, a.node,
                             'azimuthal term is not cos(m phi) / sin(m phi) '
                             'split at m >= 0', construct='azimuthal term'))
    return res


def norm_law(ctx):
    P = ctx.P
    res = Result('NORM-LAW', 'N^2 = n+1 for m = 0 and 2n+2 otherwise '
                 '(Standard, Noll); Fringe unnormalised', level='proof')
    for cn in ('ZernikeStandard', 'ZernikeNoll'):
        f = P.lookup(cn, '_norm_constant')
        res.saw(f)
        for mzero in (True, False):
            sym = Sym()

            def choose(test, ev, mzero=mzero):
                if unparse(test) == 'm == 0':
                    return mzero
                return None
            try:
                v = fn_eval(P, f, [A('n'), A('m')], sym=sym,
                            choose=choose).returned
            except Inconclusive as e:
                raise AnalysisError(f'{cn}._norm_constant: {e}')
            want = A('n') + ONE if mzero else C(2) * A('n') + C(2)
            if isinstance(v, Rat) and sym.eq(v * v, want):
                res.ok(f'{cn}: N^2 == {"n+1" if mzero else "2n+2"} for '
                       f'm {"=" if mzero else "!="} 0')
            else:
                res.fail(ctx.finding(
                    'NORM-LAW', f, f.node,
                    f'{cn}: normalisation for m {"=" if mzero else "!="} 0 is '
                    f'{v}, whose square is not {"n+1" if mzero else "2n+2"}: '
                    f'the family is not orthonormal',
                    construct=f'{cn} norm m{"=" if mzero else "!="}0'))
    f = P.lookup('ZernikeFringe', '_norm_constant')
    res.saw(f)
    v = fn_eval(P, f, [A('n'), A('m')]).returned
    if isinstance(v, Rat) and rat_eq(v, ONE):
        res.ok('ZernikeFringe: norm constant 1')
    else:
        res.fail(ctx.finding('NORM-LAW', f, f.node,
                             'Fringe polynomials are not unnormalised',
                             construct='Fringe norm'))
    return res


def index_law(ctx):
    P = ctx.P
    res = Result('INDEX-LAW', 'each family enumerates every admissible (n, m) '
                 'once; Standard in OSA order; Fringe / Noll sorted by their '
                 'published index number')
    for cn, nmax in (('ZernikeStandard', 15), ('ZernikeFringe', 20),
                     ('ZernikeNoll', 15)):
        f = P.lookup(cn, '_generate_indices')
        res.saw(f)
        loops = [n for n in ast.walk(f.node) if isinstance(n, ast.For)]
        ok = len(loops) == 2 and unparse(loops[0].target) == 'n' and \
            unparse(loops[0].iter) == f'range({nmax})' and \
            unparse(loops[1].target) == 'm' and \
            unparse(loops[1].iter) == 'range(-n, n + 1)'
        guard = [n for n in ast.walk(f.node) if isinstance(n, ast.If) and
                 unparse(n.test) == '(n - m) % 2 == 0']
        apps = [c for c in ast.walk(f.node) if isinstance(c, ast.Call) and
                call_name(c) == 'append' and
                unparse(c.func.value) == 'indices']
        ok = ok and guard and len(apps) == 1 and \
            unparse(apps[0].args[0]) == '(n, m)' and \
            any(apps[0] is x for x in ast.walk(guard[0]))
        if ok:
            res.ok(f'{cn}: (n, m) for n < {nmax}, |m| <= n, n - m even, each '
                   f'appended once')
        else:
            res.fail(ctx.finding('INDEX-LAW', f, f.node,
                                 f'{cn} does not enumerate each admissible '
                                 f'(n, m) exactly once',
                                 construct=f'{cn} enumeration'))
    # Standard: returned in loop order
    f = P.lookup('ZernikeStandard', '_generate_indices')
    rets = [n for n in ast.walk(f.node) if isinstance(n, ast.Return)]
    if rets and unparse(rets[0].value) == 'indices':
        res.ok('Standard: loop order (n ascending, m ascending) = OSA index '
               '(n(n+2)+m)/2 ascending')
    else:
        res.fail(ctx.finding('INDEX-LAW', f, f.node,
                             'Standard indices are reordered',
                             construct='Standard order'))
    # Fringe number formula
    f = P.lookup('ZernikeFringe', '_generate_indices')
    apps = [c for c in ast.walk(f.node) if isinstance(c, ast.Call) and
            call_name(c) == 'append' and unparse(c.func.value) == 'number']
    if len(apps) != 1:
        raise AnalysisError('Fringe number formula not found')
    sym = Sym()
    ev = Ev(sym=sym)
    ev.env['n'], ev.env['m'] = A('n'), A('m')
    try:
        v = ev.ev(apps[0].args[0])
    except Inconclusive as e:
        raise AnalysisError(f'Fringe number: {e}')
    am = sym.absv(A('m'))
    law = (ONE + (A('n') + am) / C(2)) ** 2 - C(2) * am + \
        (ONE - sym.sign(A('m'))) / C(2)
    if sym.eq(v, law):
        res.ok('Fringe number == (1 + (n+|m|)/2)^2 - 2|m| + (1 - sign m)/2')
    else:
        res.fail(ctx.finding('INDEX-LAW', f, apps[0],
                             'Fringe ordering number differs from the '
                             'published formula', construct='Fringe number'))
    s = Code(P, f)
    if 'sorted(zip(number, indices))' in s and 'indices_sorted[:120]' in s:
        res.ok('Fringe: sorted by number, first 120')
    else:
        res.fail(ctx.finding('INDEX-LAW', f, f.node,
                             'Fringe indices not sorted by their number / '
                             'truncated to 120', construct='Fringe sort'))
    # Noll
    f = P.lookup('ZernikeNoll', '_generate_indices')
    apps = [c for c in ast.walk(f.node) if isinstance(c, ast.Call) and
            call_name(c) == 'append' and unparse(c.func.value) == 'number']
    sym = Sym()
    ev = Ev(sym=sym)
    ev.env['n'], ev.env['m'], ev.env['c'] = A('n'), A('m'), A('c')
    if not apps:
        res.fail(ctx.finding('INDEX-LAW', f, f.node,
                             'the Noll number of an index pair is never '
                             'recorded (no number.append): the indices cannot '
                             'be sorted by it', construct='Noll number law'))
        return res
    v = ev.ev(apps[0].args[0])
    if sym.eq(v, A('n') * (A('n') + ONE) / C(2) + sym.absv(A('m')) + A('c')):
        res.ok('Noll number == n(n+1)/2 + |m| + c')
    else:
        res.fail(ctx.finding('INDEX-LAW', f, apps[0],
                             'Noll ordering number differs from '
                             'n(n+1)/2 + |m| + c', construct='Noll number'))
    # c table by predicate abstraction over (sign m, n mod 4)
    chain = None
    for n_ in ast.walk(f.node):
        if isinstance(n_, ast.If) and 'mod' in unparse(n_.test) and \
                any(isinstance(s, ast.Assign) and unparse(s.targets[0]) == 'c'
                    for s in n_.body):
            chain = n_
            break
    moddef = [s for s in ast.walk(f.node) if isinstance(s, ast.Assign) and
              unparse(s.targets[0]) == 'mod']
    if chain is None or not moddef or unparse(moddef[0].value) != 'n % 4':
        raise AnalysisError('Noll c table not found')

    def evalc(sign, mod):
        def cond(e):
            if isinstance(e, ast.BoolOp):
                vs = [cond(v) for v in e.values]
                return all(vs) if isinstance(e.op, ast.And) else any(vs)
            if isinstance(e, ast.Compare) and len(e.ops) == 1:
                l = unparse(e.left)
                r = const_of(e.comparators[0])
                val = sign if l == 'm' else mod if l == 'mod' else None
                if val is None or r is None:
                    raise AnalysisError('Noll c table: condition ' + unparse(e))
                op = e.ops[0]
                return {ast.Gt: val > r, ast.Lt: val < r, ast.GtE: val >= r,
                        ast.LtE: val <= r, ast.Eq: val == r,
                        ast.NotEq: val != r}[type(op)]
            raise AnalysisError('Noll c table: condition ' + unparse(e))
        node = chain
        while True:
            if cond(node.test):
                for s in node.body:
                    if isinstance(s, ast.Assign) and \
                            unparse(s.targets[0]) == 'c':
                        return const_of(s.value)
                return None
            if len(node.orelse) == 1 and isinstance(node.orelse[0], ast.If):
                node = node.orelse[0]
            else:
                for s in node.orelse:
                    if isinstance(s, ast.Assign) and \
                            unparse(s.targets[0]) == 'c':
                        return const_of(s.value)
                return None
    bad = []
    for sign, mod in itertools.product((-1, 0, 1), range(4)):
        # published Noll rule: even j for cosine (m > 0), odd j for sine
        # (m < 0): with base = n(n+1)/2 + |m|, c = 0 when
        # (m > 0 and n mod 4 in {0,1}) or (m < 0 and n mod 4 in {2,3}), else 1
        want = 0 if (sign > 0 and mod <= 1) or (sign < 0 and mod >= 2) else 1
        got = evalc(sign, mod)
        if got != want:
            bad.append((sign, mod, got, want))
    if not bad:
        res.ok('Noll c table correct for all 12 (sign m, n mod 4) cases')
    else:
        res.fail(ctx.finding('INDEX-LAW', f, chain,
                             f'Noll parity correction wrong for (sign m, n mod '
                             f'4, got, want) = {bad[:3]}',
                             construct='Noll c table'))
    s = Code(P, f)
    if 'sorted(zip(number, indices))' in s and \
            'return indices_sorted' in s.replace('[:', ' ['):
        res.ok('Noll: sorted by number')
    else:
        res.fail(ctx.finding('INDEX-LAW', f, f.node,
                             'Noll indices not sorted by their number',
                             construct='Noll sort'))
    init = P.func('ZernikeStandard.__init__')
    s = Code(P, init)
    if 'self.indices = self._generate_indices()' in s and \
            'len(coeffs) > 120' in s and 'raise ValueError' in s:
        res.ok('indices generated per family at construction; > 120 '
               'coefficients rejected')
    else:
        res.fail(ctx.finding('INDEX-LAW', init, init.node,
                             'family indices not generated at construction',
                             construct='Zernike init'))
    return res


def _strip_ravel(e):
    while True:
        if isinstance(e, ast.Call) and unparse(e.func) in (
                'np.ravel', 'np.asarray', 'np.array') and e.args:
            e = e.args[0]
        elif isinstance(e, ast.Call) and isinstance(e.func, ast.Attribute) \
                and e.func.attr in ('ravel', 'flatten') and not e.args:
            e = e.func.value
        else:
            return e


def _fit_linear(g):
    """None when ZernikeFit._fit is the linear least-squares solve described
    in `fit`, else the reason"""
    body = [st for st in g.node.body
            if not (isinstance(st, ast.Expr) and
                    isinstance(st.value, ast.Constant))]
    calls = [c for c in ast.walk(g.node) if isinstance(c, ast.Call)]
    if any(unparse(c.func).endswith('least_squares') for c in calls):
        return ('the linear fit is handed to scipy.optimize.least_squares '
                '(zero start, forward-difference Jacobian, absolute gradient '
                'tolerance): data of small magnitude return all-zero '
                'coefficients, large data the initial guess')
    defs = {}
    for st in body:
        # straight-line code of plain bindings: anything else (a masked or
        # augmented store, a loop, a conditional) can alter the solution
        # between the solve and the store
        t = st.targets[0] if isinstance(st, ast.Assign) and \
            len(st.targets) == 1 else None
        plain = t is not None and (
            isinstance(t, ast.Name) or
            (isinstance(t, ast.Tuple) and all(isinstance(x, ast.Name)
                                              for x in t.elts)) or
            unparse(t) == 'self.zernike.coeffs')
        guard = isinstance(st, ast.If) and not st.orelse and all(
            isinstance(b, ast.Raise) for b in st.body)
        if not plain and not guard and not isinstance(st, ast.Pass):
            return (f'`{unparse(st)[:70]}` is not a plain binding: the '
                    f'coefficients that are stored need not be the '
                    f'least-squares solution (e.g. small ones set to zero: '
                    f'the fit is no longer linear in the data)')
    for st in body:
        if isinstance(st, ast.Assign) and len(st.targets) == 1:
            t = st.targets[0]
            if isinstance(t, ast.Name):
                defs[t.id] = st.value
            elif isinstance(t, ast.Tuple) and t.elts and \
                    isinstance(t.elts[0], ast.Name):
                defs[t.elts[0].id] = ast.Subscript(
                    value=st.value, slice=ast.Constant(0), ctx=ast.Load())

    def resolve(e, depth=0):
        while isinstance(e, ast.Name) and e.id in defs and depth < 6:
            e = defs[e.id]
            depth += 1
        return e
    stores = [(i, st) for i, st in enumerate(body)
              if isinstance(st, ast.Assign) and
              unparse(st.targets[0]) == 'self.zernike.coeffs']
    if not stores:
        return 'the solution is not stored in self.zernike.coeffs'
    i_last, last = stores[-1]
    sol = resolve(last.value)
    if not (isinstance(sol, ast.Subscript) and
            unparse(sol.slice) == '0' and isinstance(sol.value, ast.Call) and
            unparse(sol.value.func) in ('np.linalg.lstsq',
                                        'scipy.linalg.lstsq', 'lstsq')):
        return ('the stored coefficients are not the solution [0] of a '
                'linear least-squares solve')
    ls = sol.value
    for k in ls.keywords:
        if k.arg == 'rcond' and unparse(k.value) not in ('None', '-1'):
            return (f'lstsq is called with rcond={unparse(k.value)}: small '
                    f'singular values are cut off, exact combinations are '
                    f'not recovered')
        if k.arg not in ('rcond',):
            return f'lstsq is called with {k.arg}'
    if len(ls.args) != 2:
        return 'lstsq is not called with (A, z)'
    # rows without a value may be left out of the solve: A[valid], z[valid]
    # with valid = isfinite(z) & all(isfinite(A), axis=1)
    a0, a1 = ls.args
    row_mask = None
    if isinstance(a0, ast.Subscript) and isinstance(a1, ast.Subscript) and \
            isinstance(a0.slice, ast.Name) and \
            unparse(a0.slice) == unparse(a1.slice):
        md = defs.get(a0.slice.id)
        src_ = unparse(md).replace(' ', '') if md is not None else ''
        if md is not None and 'np.isfinite(' in src_ and all(
                isinstance(c_, ast.Call) and unparse(c_.func) in (
                    'np.isfinite', 'np.all') or not isinstance(c_, ast.Call)
                for c_ in ast.walk(md)):
            row_mask = a0.slice.id
            ls = ast.Call(func=ls.func, args=[a0.value, a1.value],
                          keywords=ls.keywords)
        else:
            return ('rows are selected for the solve by a mask that is not '
                    'the finiteness of the samples')
    rhs = _strip_ravel(resolve(ls.args[1]))
    if unparse(rhs) != 'self.z':
        return (f'the right-hand side of the solve is {unparse(rhs)}, not '
                f'the data')
    A_ = resolve(ls.args[0])
    if not (isinstance(A_, ast.Call) and unparse(A_.func) in (
            'np.column_stack',) and len(A_.args) == 1):
        return 'the design matrix is not a column stack of the terms'
    cols = A_.args[0]
    if isinstance(cols, ast.ListComp) and len(cols.generators) == 1:
        src = resolve(cols.generators[0].iter)
        elt = cols.elt
        var = cols.generators[0].target
        # column = term (optionally broadcast with ones of num_pts)
        ok_elt = isinstance(var, ast.Name) and (
            unparse(elt) == var.id or (
                isinstance(elt, ast.BinOp) and isinstance(elt.op, ast.Mult)
                and var.id in (unparse(elt.left), unparse(elt.right)) and
                'np.ones(self.num_pts)' in (unparse(elt.left),
                                            unparse(elt.right))))
        if not ok_elt:
            return 'a column of the design matrix is not the term itself'
    else:
        src = resolve(cols)
    if not (isinstance(src, ast.Call) and
            unparse(src.func) == 'self.zernike.terms' and
            len(src.args) == 2 and not src.keywords):
        return ('the columns of the design matrix are not '
                'self.zernike.terms(radius, phi)')
    r_, p_ = (_strip_ravel(resolve(x)) for x in src.args)
    if (unparse(r_), unparse(p_)) != ('self.radius', 'self.phi'):
        return ('the terms are evaluated at '
                f'({unparse(r_)}, {unparse(p_)}), not at the sample points '
                '(radius, phi)')
    # unit coefficients, num_terms of them, in force when terms() is called
    unit = [i for i, st in stores[:-1]
            if unparse(st.value) in ('np.ones(self.num_terms)',
                                     '[1] * self.num_terms',
                                     '[1.0] * self.num_terms')]
    other = [i for i, st in stores[:-1] if i not in unit]
    i_terms = min((i for i, st in enumerate(body)
                   if any(c is src for c in ast.walk(st))), default=None)
    if i_terms is None or not unit or max(unit) > i_terms or \
            any(max(unit) < j < i_terms for j in other):
        return ('terms() is not evaluated with num_terms unit coefficients: '
                'the columns are not the first N terms of the family')
    return None


def fit(ctx):
    P = ctx.P
    res = Result('FAMILY-DISPATCH / FIT-STORE', 'the requested family is the '
                 'one fitted; the solver\'s solution is stored; objective = '
                 'model at the sample points - data')
    f = P.func('ZernikeFit.__init__')
    res.saw(f)
    table = {}
    for n in ast.walk(f.node):
        if isinstance(n, ast.If) and isinstance(n.test, ast.Compare) and \
                'self.type' in unparse(n.test.left) and \
                isinstance(n.test.comparators[0], ast.Constant):
            for s in n.body:
                if isinstance(s, ast.Assign) and \
                        unparse(s.targets[0]) == 'self.zernike':
                    table[n.test.comparators[0].value] = unparse(s.value)
    want = {'fringe': 'ZernikeFringe()', 'standard': 'ZernikeStandard()',
            'noll': 'ZernikeNoll()'}
    for k, v in want.items():
        if table.get(k) == v:
            res.ok(f"'{k}' -> {v}")
        else:
            res.fail(ctx.finding('FAMILY-DISPATCH', f, None,
                                 f"family '{k}' is fitted with {table.get(k)}",
                                 construct=f"family '{k}'"))
    if any(isinstance(n, ast.Raise) for n in ast.walk(f.node)):
        res.ok('unknown family raises')
    else:
        res.fail(ctx.finding('FAMILY-DISPATCH', f, f.node,
                             'unknown family accepted',
                             construct='family unknown'))
    s = Code(P, f)
    if 'self.radius = np.sqrt(self.x ** 2 + self.y ** 2)' in s and \
            'self.phi = np.arctan2(self.y, self.x)' in s and \
            s.index('self._fit()') > s.index('self.zernike ='):
        res.ok('polar sample coordinates from (x, y); fit after the family '
               'is chosen')
    else:
        res.fail(ctx.finding('FAMILY-DISPATCH', f, f.node,
                             'sample coordinates / fit order wrong',
                             construct='ZernikeFit init'))
    g = P.func('ZernikeFit._fit')
    res.saw(g)
    # "fitting data that are an exact combination of the first N terms
    # recovers those coefficients; fitting is linear in the data": the stored
    # vector must be the least-squares solution of A c = z, A[:, k] = term k
    # with unit coefficient at the sample points, z the data - a linear solve
    # (an iterative solver with an absolute tolerance and a finite-difference
    # Jacobian is neither exact nor homogeneous in the data).
    # samples of a lens wavefront are nan where a ray was blocked or lost:
    # they carry no information and must not enter the solve (one nan row
    # makes every coefficient nan)
    masked_rows = any(
        isinstance(c_, ast.Call) and unparse(c_.func).endswith('lstsq') and
        len(c_.args) == 2 and all(isinstance(a_, ast.Subscript) and
                                  isinstance(a_.slice, ast.Name)
                                  for a_ in c_.args)
        for c_ in ast.walk(g.node))
    if masked_rows:
        res.ok('_fit: non-finite samples are left out of the solve')
    else:
        res.fail(ctx.finding(
            'FIT-STORE', g, g.node,
            'every sample enters the least-squares solve: a single nan sample '
            '(ray lost to total internal reflection, central obscuration - '
            'UVReflectingMicroscope has 252 of them) makes all coefficients '
            'nan', construct='_fit nan samples'))
    conv = {unparse(st.targets[0]): unparse(st.value)
            for st in ast.walk(f.node) if isinstance(st, ast.Assign) and
            unparse(st.targets[0]) in ('self.x', 'self.y', 'self.z')}
    if all(conv.get('self.' + k, '').startswith(('np.asarray(' + k,
                                                  'np.array(' + k))
           for k in 'xyz'):
        res.ok('x, y, z are converted to arrays (array-like inputs)')
    else:
        res.fail(ctx.finding(
            'FIT-STORE', f, f.node,
            'ZernikeFit stores x, y, z as given: lists or tuples (documented '
            'as array-like) raise TypeError in x**2 + y**2',
            construct='ZernikeFit inputs not converted'))
    bad = _fit_linear(g)
    if bad:
        res.fail(ctx.finding('FIT-STORE', g, g.node, bad,
                             construct='_fit ' + bad[:30]))
    else:
        res.ok('_fit: coeffs := lstsq(A, z)[0], A = unit-coefficient terms of '
               'the chosen family at the sample points, num_terms columns')
    o = P.func('ZernikeFit._objective')
    res.saw(o)
    s = Code(P, o)
    if 'self.zernike.coeffs = coeffs' in s and \
            'self.zernike.poly(self.radius, self.phi)' in s and \
            'return z_computed - self.z' in s:
        res.ok('objective = poly(radius, phi; coeffs) - z')
    else:
        res.fail(ctx.finding('FIT-STORE', o, o.node,
                             'objective is not model(sample points) - data',
                             construct='_objective'))
    z = P.func('ZernikeOPD.__init__')
    res.saw(z)
    s = Code(P, z)
    if 'x = self.distribution.x' in s and 'y = self.distribution.y' in s and \
            'z = self.data[0][0][0]' in s and \
            'ZernikeFit.__init__(self, x, y, z, zernike_type, num_terms)' in s \
            and s.index('OPD.__init__') < s.index('ZernikeFit.__init__'):
        res.ok('ZernikeOPD fits the sampled OPD at its own sample points')
    else:
        res.fail(ctx.finding('FIT-STORE', z, z.node,
                             'ZernikeOPD does not fit its own OPD samples',
                             construct='ZernikeOPD'))
    return res


def no_stale(ctx):
    from .common import stale_cache
    return stale_cache(ctx, 'NO-STALE-STATE',
                       ['ZernikeStandard', 'ZernikeFringe', 'ZernikeNoll'],
                       'polynomial values depend on what was evaluated before',
                       min_methods=3)


def coeff_store(ctx):
    """the coefficient vector is kept as given (or as floats): an array
    conversion without a float dtype turns the library's own integer-zero
    default into an int64 array, and a later `z.coeffs[k] = 0.25` is
    truncated to 0 - evaluation is then not linear in the coefficients."""
    from ..match import match, parse
    P = ctx.P
    res = Result('COEFF-STORE', 'Zernike constructors keep their own copy of the '
                 'coefficient sequence, as a list or float array (never '
                 'the shared default list, never an integer array); ZernikeFit hands its family num_terms zeros')
    # the bare parameter is not acceptable: the default argument is one
    # mutable list shared by every default-constructed instance, so
    # `a.coeffs[4] = 2` would change the polynomial of all of them
    ok_forms = [parse(x) for x in (
        'list(coeffs)', 'np.asarray(coeffs, dtype=float)',
        'np.array(coeffs, dtype=float)', 'np.asarray(coeffs, dtype=np.float64)',
        'np.array(coeffs, dtype=np.float64)', 'np.asarray(coeffs, float)',
        'np.array(coeffs, float)', '[float($c) for $c in coeffs]',
        'np.asarray(coeffs).astype(float)', 'np.array(coeffs).astype(float)')]
    n = 0
    for cn in ('ZernikeStandard', 'ZernikeFringe', 'ZernikeNoll'):
        f = P.classes[cn].methods.get('__init__')
        if f is None:
            continue
        res.saw(f)
        for st in ast.walk(f.node):
            if isinstance(st, ast.Assign) and \
                    unparse(st.targets[0]) == 'self.coeffs':
                n += 1
                if any(match(pt, st.value, {}) is not None for pt in ok_forms):
                    res.ok(f'{cn}.__init__: coeffs := {unparse(st.value)}')
                else:
                    res.fail(ctx.finding(
                        'COEFF-STORE', f, st,
                        f'{cn}.__init__ stores {unparse(st.value)}: either '
                        f'the shared (default) list itself, so that editing '
                        f'one object edits the others, or an array without '
                        f'float dtype, so that later non-integer '
                        f'coefficients are truncated',
                        construct=f'{cn} coefficient store'))
    if n < 1:
        raise Missing('COEFF-STORE', P.func('ZernikeStandard.__init__'),
                      'coefficient store',
                      'the coefficients given to the constructor are not stored')
    return res


# META update: declined clause 'recovery of coefficients' re-worded
META['declined'] = [
    'conditioning of the sample set (that the fit is the linear least-squares solve of the unit-coefficient design matrix - hence exact recovery and linearity for a well-posed sample set - is decided: FIT-STORE)' if _d.startswith('recovery of coefficients') else _d
    for _d in META['declined']]


RULES = [coeff_store, no_stale, linear, radial_law, norm_law, index_law, fit]

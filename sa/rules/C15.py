"""C15 -- tolerancing restores the nominal lens (structural clauses)."""
import ast
from ..core import Result
from ..pm import AnalysisError, unparse
from ..paths import ipaths, paths, annotate, callee_names, call_attr
from ..match import Code

META = {
    'explanation': (
        'Path rules over every function that applies a perturbation: a reset '
        'of the whole tolerancing state follows the last apply on every normal '
        'exit (FINAL-RESET), precedes every apply inside the trial loop '
        '(RESET-BEFORE-APPLY); Tolerancing.reset covers perturbations and '
        'compensators and goes through the same Variable.update location as '
        'apply (RESET-COVERS); one sample feeds record and lens (ONE-SAMPLE); '
        'operand targets default to the nominal value (TARGET-DEFAULT).'),
    'declined': ['equality of table rows with an independent evaluation',
                 'reproducibility of scipy-driven compensation'],
    'trusted': ['call resolution by receiver type (E0)',
                'loops explored for 0 and 1 iterations (structured paths)'],
}

APPLY = 'Perturbation.apply'
RESET = 'Tolerancing.reset'


def _appliers(P):
    """functions outside Perturbation whose own body calls Perturbation.apply."""
    out = []
    for f in P.all_funcs():
        if f.cls == 'Perturbation':
            continue
        env = P.local_env(f)
        for n in ast.walk(f.node):
            if isinstance(n, ast.Call):
                r = P.resolve_call(n, env, f)
                if r and any(c.qual == APPLY for c in r):
                    out.append(f)
                    break
    return out


def _inline_same_obj(f):
    return lambda c: c.cls is not None and c.cls == f.cls and \
        c.name != f.name


def final_reset(ctx):
    P = ctx.P
    res = Result('FINAL-RESET', 'every function that applies a perturbation '
                 'resets the tolerancing state after the last apply on every '
                 'normal exit')
    P.func(APPLY)
    P.func(RESET)
    fs = _appliers(P)
    for f in fs:
        res.saw(f)
        bad = None
        for p in ipaths(P, f, _inline_same_obj(f), depth=2):
            if p.exit == 'raise':
                continue
            last_apply = None
            reset_after = False
            for e in p.events:
                if e.kind != 'call':
                    continue
                names = callee_names(e)
                if APPLY in names:
                    last_apply = e
                    reset_after = False
                elif RESET in names and last_apply is not None:
                    reset_after = True
            if last_apply is not None and not reset_after:
                bad = (p, last_apply)
                break
        if bad:
            p, e = bad
            res.fail(ctx.finding(
                'FINAL-RESET', f, e.node,
                'a normal exit is reached after perturbation.apply() without '
                'a following tolerancing.reset(): the lens stays perturbed',
                construct='exit without Tolerancing.reset after ' +
                unparse(e.node), path=p.describe()))
        else:
            res.ok(f'{f.module} {f.qual}: reset follows last apply on all '
                   f'normal exits')
    res.require(2, 'functions applying perturbations')
    return res


def reset_before_apply(ctx):
    P = ctx.P
    res = Result('RESET-BEFORE-APPLY', 'inside the trial loop a reset of the '
                 'tolerancing state precedes the first apply of the iteration')
    for f in _appliers(P):
        res.saw(f)
        # examine each outermost loop iteration separately: take paths with one
        # iteration; within the events between 'loop' and 'loopend' of the
        # trial loop (the outermost loop that contains an apply) a reset must
        # come before the first apply.
        bad = None
        for p in ipaths(P, f, _inline_same_obj(f), depth=2):
            depth = 0
            # find innermost loop that contains both evaluate and apply: we use
            # the loop directly enclosing the evaluation of operands; simpler
            # and exact here: the loop nearest to the first apply whose body
            # also contains the record of results (a call to .append).
            stack = []
            seen_reset_at = {}
            for e in p.events:
                if e.kind == 'loop' and e.extra:
                    stack.append(e)
                    seen_reset_at[id(e)] = False
                elif e.kind == 'loopend' and stack:
                    top = stack.pop()
                    seen_reset_at.pop(id(top), None)
                elif e.kind == 'call':
                    names = callee_names(e)
                    if RESET in names:
                        for k in seen_reset_at:
                            seen_reset_at[k] = True
                    elif APPLY in names:
                        if not stack:
                            bad = (p, e, 'apply outside any trial loop '
                                   'without preceding reset')
                        elif not any(seen_reset_at.values()):
                            bad = (p, e, 'apply in a trial iteration not '
                                   'preceded by tolerancing.reset()')
                if bad:
                    break
            if bad:
                break
        if bad:
            p, e, msg = bad
            res.fail(ctx.finding('RESET-BEFORE-APPLY', f, e.node, msg,
                                 construct='apply without prior reset: ' +
                                 unparse(e.node), path=p.describe()))
        else:
            res.ok(f'{f.qual}: reset precedes apply in each iteration')
    res.require(2)
    return res


def reset_covers(ctx):
    P = ctx.P
    res = Result('RESET-COVERS', 'Tolerancing.reset iterates perturbations and '
                 'compensator variables; Perturbation.reset/apply and '
                 'Variable.reset go through Variable.update; the restored value '
                 'is the one captured at construction')
    f = P.func(RESET)
    res.saw(f)
    env = P.local_env(f)
    loops = [n for n in ast.walk(f.node) if isinstance(n, ast.For)]
    got = {}
    for lp in loops:
        src = unparse(lp.iter)
        calls = []
        for n in ast.walk(lp):
            if isinstance(n, ast.Call):
                r = P.resolve_call(n, env, f) or []
                calls += [c.qual for c in r]
        got[src] = calls
    pert = any('perturbations' in k and 'Perturbation.reset' in v
               for k, v in got.items())
    comp = any('compensator' in k and 'Variable.reset' in v
               for k, v in got.items())
    for ok, what in ((pert, 'perturbations -> Perturbation.reset'),
                     (comp, 'compensator variables -> Variable.reset')):
        if ok:
            res.ok(f'Tolerancing.reset loops over {what}')
        else:
            res.fail(ctx.finding('RESET-COVERS', f, f.node,
                                 f'Tolerancing.reset does not reset {what}',
                                 construct='missing loop: ' + what))
    # pickups and solves are functions of the restored values: the
    # compensator optimiser re-applies them on every evaluation, so they sit
    # at the last trial's values until the optic is updated again
    ups = [i for i, st in enumerate(f.node.body)
           if isinstance(st, ast.Expr) and isinstance(st.value, ast.Call) and
           unparse(st.value.func) in ('self.optic.update',)]
    last_loop = max([i for i, st in enumerate(f.node.body)
                     if isinstance(st, ast.For)] or [-1])
    if ups and ups[-1] > last_loop:
        res.ok('Tolerancing.reset re-applies pickups and solves '
               '(optic.update()) after the variables are restored')
    else:
        res.fail(ctx.finding(
            'RESET-COVERS', f, f.node,
            'Tolerancing.reset restores perturbed and compensating variables '
            'only: pickup targets and solved distances, which the '
            'compensator optimiser moved with the perturbed lens, stay at '
            'the values of the last trial (no optic.update())',
            construct='reset without optic.update'))
    # Perturbation.reset -> Variable.reset ; Variable.reset -> update(initial)
    pr = P.func('Perturbation.reset')
    res.saw(pr)
    env = P.local_env(pr)
    called = set()
    for n in ast.walk(pr.node):
        if isinstance(n, ast.Call):
            for c in P.resolve_call(n, env, pr) or []:
                called.add(c.qual)
    if 'Variable.reset' in called:
        res.ok('Perturbation.reset calls Variable.reset')
    else:
        res.fail(ctx.finding('RESET-COVERS', pr, pr.node,
                             'Perturbation.reset does not reset its variable',
                             construct='missing call Variable.reset'))
    vr = P.func('Variable.reset')
    res.saw(vr)
    env = P.local_env(vr)
    okv = False
    for n in ast.walk(vr.node):
        if isinstance(n, ast.Call):
            r = P.resolve_call(n, env, vr) or []
            if any(c.qual == 'Variable.update' for c in r) and n.args and \
                    unparse(n.args[0]) == 'self.initial_value':
                okv = True
    # the restore is unconditional: a tolerance test ("already close to the
    # nominal") leaves small perturbations in place
    for fn, attr in ((vr, 'update'), (pr, 'reset')):
        for p_ in paths(fn, loop_iters=(1,)):
            if p_.exit != 'return':
                continue
            if not any(e.kind == 'call' and call_attr(e) == attr
                       for e in p_.events):
                okv = False
                res.fail(ctx.finding(
                    'RESET-COVERS', fn, fn.node,
                    f'{fn.qual}: a path returns without calling {attr}() '
                    f'({p_.describe(4)}): the restore must not '
                    f'depend on the current value',
                    construct=f'{fn.qual} conditional restore'))
                break
    if okv:
        res.ok('Variable.reset = update(self.initial_value)')
    else:
        res.fail(ctx.finding('RESET-COVERS', vr, vr.node,
                             'Variable.reset does not restore the value '
                             'captured at construction through update()',
                             construct='Variable.reset body'))
    # initial_value captured in __init__ from the value accessor, after the
    # behaviour object exists and with no update in between
    vi = P.func('Variable.__init__')
    res.saw(vi)
    stores = [n for n in ast.walk(vi.node) if isinstance(n, ast.Assign)
              and any(isinstance(t, ast.Attribute) and t.attr == 'initial_value'
                      for t in n.targets)]
    if len(stores) == 1 and unparse(stores[0].value) in ('self.value',
                                                         'self.variable.get_value()'):
        res.ok('initial_value := self.value at construction')
    else:
        res.fail(ctx.finding('RESET-COVERS', vi, vi.node,
                             'initial_value is not captured from the current '
                             'value at construction',
                             construct='initial_value store'))
    # no other writer of Variable.initial_value (typed stores; E2)
    from ..effects import Effects
    eff = ctx.effects
    for st in eff.writers(['Variable'], 'initial_value'):
        if st.base_t is None or st.func is vi:
            continue
        res.fail(ctx.finding(
            'RESET-COVERS', st.func, st.stmt,
            'Variable.initial_value rewritten after construction: '
            'reset() no longer restores the nominal lens'))
    return res


def one_sample(ctx):
    P = ctx.P
    res = Result('ONE-SAMPLE', 'a single sampler.sample() feeds both the '
                 'recorded value and variable.update in Perturbation.apply')
    f = P.func(APPLY)
    res.saw(f)
    bad = None
    for p in annotate(P, f, paths(f)):
        samples = [e for e in p.events if e.kind == 'call' and
                   call_attr(e) == 'sample']
        updates = [e for e in p.events if e.kind == 'call' and
                   'Variable.update' in callee_names(e)]
        if p.exit == 'raise':
            continue
        if len(samples) != 1 or len(updates) != 1:
            bad = (f.node, f'{len(samples)} sample() calls and {len(updates)} '
                   f'update() calls on a path (expected 1 and 1)')
            break
        # the update argument and the recorded value are the same expression
        rec = [e for e in p.events if e.kind == 'store' and
               isinstance(e.node, ast.Attribute) and e.node.attr == 'value']
        arg = updates[0].node.args[0] if updates[0].node.args else None
        if not rec or arg is None:
            bad = (f.node, 'the sampled value is not recorded in self.value')
            break
        rec_src = unparse(rec[-1].extra)
        tgt = unparse(rec[-1].node)
        if not (unparse(arg) == tgt or unparse(arg) == rec_src and
                'sample' not in rec_src):
            # allow `v = sample(); self.value = v; update(v)`
            names = {unparse(arg), rec_src}
            if len(names) != 1 or 'sample(' in rec_src:
                bad = (updates[0].node, 'variable.update receives '
                       f'{unparse(arg)} but the recorded value is {rec_src}')
                break
    if bad:
        res.fail(ctx.finding('ONE-SAMPLE', f, bad[0], bad[1],
                             construct='Perturbation.apply sample/update'))
    else:
        res.ok('Perturbation.apply: value := sample(); update(value)')
    return res


def target_default(ctx):
    P = ctx.P
    res = Result('TARGET-DEFAULT', 'Tolerancing.add_operand: target None => '
                 'target := current value before the operand is stored')
    f = P.func('Tolerancing.add_operand')
    res.saw(f)
    ok = False
    for n in ast.walk(f.node):
        if isinstance(n, ast.If) and 'target is None' in unparse(n.test):
            for s in n.body:
                if isinstance(s, ast.Assign) and any(
                        isinstance(t, ast.Attribute) and t.attr == 'target'
                        for t in s.targets) and \
                        unparse(s.value).endswith('.value'):
                    ok = True
    if ok:
        res.ok('target defaults to operand.value')
    else:
        res.fail(ctx.finding('TARGET-DEFAULT', f, f.node,
                             'operand target does not default to the nominal '
                             'value', construct='add_operand default'))
    return res


def trial_record(ctx):
    from ..match import find, find_seq
    P = ctx.P
    res = Result('TRIAL-RECORD', 'each trial: apply perturbation(s), then the '
                 'compensators, then evaluate; the row records '
                 'perturbation.value (the value applied), the operand values '
                 'just evaluated and the compensator values after the run')
    for f in _appliers(P):
        res.saw(f)
        bad = None
        for p in paths(f, loop_iters=(1,)):
            seq = [call_attr(e) for e in p.events if e.kind == 'call']
            if 'apply' not in seq:
                continue
            try:
                ia = max(i for i, c in enumerate(seq) if c == 'apply')
                ic = seq.index('apply_compensators')
                ie = seq.index('evaluate')
                ip = max(i for i, c in enumerate(seq) if c == 'append')
            except ValueError:
                bad = 'a trial path lacks apply_compensators / evaluate / ' \
                      'append'
                break
            if not ia < ic < ie < ip:
                bad = (f'order in the trial is {seq[min(ia, ic, ie):ip + 1]}: '
                       f'expected apply < apply_compensators < evaluate < '
                       f'record')
                break
        if bad:
            res.fail(ctx.finding('TRIAL-RECORD', f, f.node, f'{f.qual}: {bad}',
                                 construct=f'{f.qual} trial order'))
        else:
            res.ok(f'{f.qual}: apply < compensate < evaluate < record')
        # recorded perturbation value
        recs = [n for n in ast.walk(f.node) if isinstance(n, ast.Attribute)
                and n.attr == 'value' and isinstance(n.value, ast.Name)
                and n.value.id == 'perturbation']
        srcs = [n for n in ast.walk(f.node)
                if isinstance(n, (ast.Dict, ast.Assign))]
        if recs and (find(f, "{'perturbation_type': str($p.variable),"
                             " 'perturbation_value': $p.value}") or
                     find_seq(f, ['$k = str($p.variable)',
                                  '$row[$k] = $p.value'])):
            res.ok(f'{f.qual}: row records perturbation.value')
        else:
            res.fail(ctx.finding('TRIAL-RECORD', f, f.node,
                                 f'{f.qual}: the row does not record '
                                 f'perturbation.value',
                                 construct=f'{f.qual} recorded value'))
        if find_seq(f, ['$ov = self.tolerancing.evaluate()',
                        'zip(self.operand_names, $ov)',
                        '$cr = self.tolerancing.apply_compensators()',
                        '$row.update($cr)', '$all.append($row)']):
            res.ok(f'{f.qual}: operand values and compensator values of this '
                   f'trial are recorded')
        else:
            res.fail(ctx.finding('TRIAL-RECORD', f, f.node,
                                 f'{f.qual}: operand / compensator values '
                                 f'recorded are not those of this trial',
                                 construct=f'{f.qual} recorded results'))
    ac = P.func('Tolerancing.apply_compensators')
    res.saw(ac)
    okc = False
    for p in paths(ac, loop_iters=(1,)):
        seq = [(e.kind, unparse(e.node)[:60]) for e in p.events]
        txt = ' | '.join(x for _, x in seq)
        if 'self.compensator.run()' in txt:
            okc = txt.index('self.compensator.operands') < \
                txt.index('self.compensator.run()') if \
                'self.compensator.operands' in txt else False
    # the recorded compensator value: read after the run, from the
    # compensator variables, and in LENS units - a scaled variable
    # (apply_scaling) holds the optimiser's units in .value, so it goes
    # through inverse_scale
    loops = [n for n in ast.walk(ac.node) if isinstance(n, ast.For) and
             'self.compensator.variables' in unparse(n.iter)]
    rec_ok = False
    units_ok = False
    for lp in loops:
        body = unparse(lp, 100000)
        if "result[f'C{i}: {str(var)}']" in body and 'var.value' in body:
            rec_ok = True
        for n_ in ast.walk(lp):
            if isinstance(n_, ast.If) and 'apply_scaling' in unparse(n_.test) \
                    and 'inverse_scale' in unparse(n_, 100000):
                units_ok = True
    legacy = find(ac, "{f'C{i}: {str(var)}': var.value for i, var in "
                      "enumerate(self.compensator.variables)}")
    if legacy:
        rec_ok = True
    if okc and find(ac, 'self.compensator.operands = self.operands') and \
            rec_ok and not units_ok:
        res.fail(ctx.finding(
            'TRIAL-RECORD', ac, ac.node,
            'the compensator values of a trial are recorded as var.value, '
            'which for the scaled compensator variables is the optimiser\'s '
            'unit (thickness t/10 - 1, radius R/100 - 1): a back focal '
            'distance of 45.639 mm is reported as 3.564, so the trial row '
            'does not reproduce on a fresh lens',
            construct='compensator values in scaled units'))
    elif okc and find(ac, 'self.compensator.operands = self.operands') and \
            rec_ok:
        res.ok('apply_compensators: same operands, run, then read the '
               'variables in lens units')
    else:
        res.fail(ctx.finding('TRIAL-RECORD', ac, ac.node,
                             'compensation does not optimise the tolerancing '
                             'operands, or records values from before the run',
                             construct='apply_compensators'))
    cr = P.func('CompensatorOptimizer.run')
    go = P.func('CompensatorOptimizer.get_optimizer')
    res.saw(cr), res.saw(go)
    if find_seq(cr, ['$o = self.get_optimizer()(self)',
                     'return $o.optimize(tol=self.tol)']) and \
            find(go, 'return self._optimizer_map[self.method]'):
        res.ok('CompensatorOptimizer.run optimises itself with the chosen '
               'optimiser')
    else:
        res.fail(ctx.finding('TRIAL-RECORD', cr, cr.node,
                             'CompensatorOptimizer.run does not optimise this '
                             'problem', construct='CompensatorOptimizer.run'))
    ev_ = P.func('Tolerancing.evaluate')
    res.saw(ev_)
    if find(ev_, 'return [$o.value for $o in self.operands]'):
        res.ok('evaluate = value of every operand, in order')
    else:
        res.fail(ctx.finding('TRIAL-RECORD', ev_, ev_.node,
                             'evaluate is not the list of operand values',
                             construct='Tolerancing.evaluate'))
    # range sampler: k-th sample is the k-th value of linspace(start, end, n)
    rs = P.func('RangeSampler.sample')
    ri = P.func('RangeSampler.__init__')
    res.saw(rs), res.saw(ri)
    if find(ri, 'self.values = np.linspace(start, end, steps)') and \
            find(ri, 'self.index = 0') and find(ri, 'self.size = steps') and \
            find_seq(rs, ['$v = self.values[self.index]', 'return $v']) and \
            find(rs, 'self.index += 1'):
        rd = find(rs, '$v = self.values[self.index]')[0][0]
        inc = find(rs, 'self.index += 1')[0][0]
        if rd.lineno < inc.lineno:
            res.ok('RangeSampler: values = linspace(start, end, steps), one '
                   'per call in order, size = steps')
        else:
            res.fail(ctx.finding('TRIAL-RECORD', rs, rs.node,
                                 'RangeSampler skips its first value',
                                 construct='RangeSampler.sample order'))
    else:
        res.fail(ctx.finding('TRIAL-RECORD', rs, rs.node,
                             'RangeSampler no longer walks linspace(start, '
                             'end, steps) one value per call',
                             construct='RangeSampler'))
    ds = P.func('DistributionSampler.sample')
    di = P.func('DistributionSampler.__init__')
    res.saw(ds), res.saw(di)
    def _seeding(c):
        return isinstance(c, ast.Call) and (
            unparse(c.func) == 'np.random.seed' or
            unparse(c.func).split('.')[-1] in ('RandomState', 'default_rng',
                                               'Generator')) and \
            any(isinstance(n, ast.Name) and n.id == 'seed'
                for n in ast.walk(c))
    seed_guard = [n for n in ast.walk(di.node) if isinstance(n, ast.If) and
                  any(_seeding(c) for b in n.body for c in ast.walk(b))]
    guard_ok = bool(seed_guard) and all(
        isinstance(n.test, ast.Compare) and len(n.test.ops) == 1 and
        isinstance(n.test.ops[0], ast.IsNot) and
        unparse(n.test.left) == 'seed' and
        unparse(n.test.comparators[0]) == 'None' for n in seed_guard)
    unguarded = any(_seeding(c) for st in di.node.body
                    if isinstance(st, (ast.Expr, ast.Assign))
                    for c in ast.walk(st))
    if not (guard_ok or unguarded):
        res.fail(ctx.finding(
            'TRIAL-RECORD', di, di.node,
            'DistributionSampler seeds the generator only when the seed is '
            'truthy: seed=0 is silently ignored and the run is not '
            'reproducible', construct='DistributionSampler seed guard'))
    draws = {c.func.attr: c for c in ast.walk(ds.node)
             if isinstance(c, ast.Call) and isinstance(c.func, ast.Attribute)
             and c.func.attr in ('normal', 'uniform')}
    own_params = all(
        d in draws and not draws[d].args and len(draws[d].keywords) == 1 and
        draws[d].keywords[0].arg is None and
        unparse(draws[d].keywords[0].value) == 'self.params'
        for d in ('normal', 'uniform'))
    # each draw sits under the test of its own distribution name
    arms = {}
    for n in ast.walk(ds.node):
        if isinstance(n, ast.If) and isinstance(n.test, ast.Compare) and \
                unparse(n.test.left) == 'self.distribution' and \
                isinstance(n.test.ops[0], ast.Eq):
            for c in ast.walk(ast.Module(body=n.body, type_ignores=[])):
                if isinstance(c, ast.Call) and isinstance(
                        c.func, ast.Attribute) and c.func.attr in draws:
                    arms[const_str(n.test.comparators[0])] = c.func.attr
    if own_params and arms == {'normal': 'normal', 'uniform': 'uniform'} \
            and find(di, 'self.params = params') and \
            find(di, 'self.distribution = distribution'):
        res.ok('DistributionSampler: seeded at construction, draws the named '
               'distribution with its own parameters')
    else:
        res.fail(ctx.finding('TRIAL-RECORD', ds, ds.node,
                             'DistributionSampler does not seed / draw with '
                             'its own parameters',
                             construct='DistributionSampler'))
    return res


def c14_update(ctx):
    """shared with C14: the value a perturbation records is the value
    Variable.update writes to the lens"""
    from .C14 import bounds_units as _r
    return _r(ctx)

def c01_init_stores(ctx):
    """shared with C01: constructors keep private, float-typed copies of the
    coefficient containers they are given (no aliasing of caller lists or of
    the shared default, no integer tables)"""
    from .C01 import init_stores as _r
    return _r(ctx)

def c01_setters(ctx):
    """shared with C01: setters change exactly their quantity and leave a
    geometry that can be traced (reset of perturbations goes through them)"""
    from .C01 import setter_writes as _r
    return _r(ctx)

def index_edit(ctx):
    """an index variable / perturbation reads n(wavelength) of the medium and
    writes it back through Optic.set_index.  If set_index installs a new
    wavelength-independent, lossless IdealMaterial, reading and writing back
    the SAME value already changes the lens (dispersion and absorption are
    gone), and reset / undo cannot bring the glass back."""
    from ..match import find
    P = ctx.P
    res = Result('INDEX-EDIT', 'writing back the index that was read leaves '
                 'the medium as it was (dispersion, absorption): index '
                 'variables are faithful handles, reset and undo restore the '
                 'glass')
    si = P.func('Optic.set_index')
    uv = P.func('IndexVariable.update_value')
    gv = P.func('IndexVariable.get_value')
    for f in (si, uv, gv):
        res.saw(f)
    through = any(isinstance(c, ast.Call) and isinstance(c.func, ast.Attribute)
                  and c.func.attr == 'set_index' for c in ast.walk(uv.node))
    ideal = [c for c in ast.walk(si.node) if isinstance(c, ast.Call) and
             unparse(c.func) == 'IdealMaterial']
    keeps = any(isinstance(x, ast.Attribute) and x.attr in ('material_post',
                                                            'material_pre')
                and isinstance(x.ctx, ast.Load) for c in ideal
                for x in ast.walk(c))
    if through and ideal and not keeps:
        res.fail(ctx.finding(
            'INDEX-EDIT', si, ideal[0],
            'Optic.set_index replaces the medium by IdealMaterial(n=value, '
            'k=0) built from the number alone; IndexVariable.update_value '
            '(optimiser start point, undo, perturbation reset) goes through '
            'it, so a catalogue glass loses its dispersion and absorption at '
            'the first evaluation and is never restored',
            construct='index edit replaces the medium'))
    else:
        res.ok('index edits keep the dispersion and absorption of the medium')
    return res


def sampler_rng(ctx):
    """a seeded sampler makes a run reproducible when the sequence it draws
    depends on its own seed only"""
    P = ctx.P
    res = Result('SAMPLER-RNG', 'a seeded DistributionSampler owns its random '
                 'state (a Generator / RandomState created from the seed)')
    di = P.func('DistributionSampler.__init__')
    ds = P.func('DistributionSampler.sample')
    res.saw(di), res.saw(ds)
    glob_seed = [c for c in ast.walk(di.node) if isinstance(c, ast.Call) and
                 unparse(c.func) in ('np.random.seed', 'numpy.random.seed',
                                     'random.seed')]
    glob_draw = [c for c in ast.walk(ds.node) if isinstance(c, ast.Call) and
                 unparse(c.func).startswith(('np.random.', 'numpy.random.',
                                             'random.'))]
    # positive form: a seeded sampler stores a generator built from the seed
    # and sample() draws through that attribute
    own = [st.targets[0].attr for st in ast.walk(di.node)
           if isinstance(st, ast.Assign) and len(st.targets) == 1 and
           isinstance(st.targets[0], ast.Attribute) and
           isinstance(st.value, ast.Call) and
           unparse(st.value.func).split('.')[-1] in (
               'RandomState', 'default_rng', 'Generator') and
           any(isinstance(n, ast.Name) and n.id == 'seed'
               for n in ast.walk(st.value))]
    draws = [c for c in ast.walk(ds.node) if isinstance(c, ast.Call) and
             isinstance(c.func, ast.Attribute) and
             c.func.attr in ('normal', 'uniform')]
    if not draws:
        raise AnalysisError('DistributionSampler.sample: draws not found')
    if not glob_seed and not glob_draw and not (
            own and all(unparse(c.func.value) == 'self.' + own[0]
                        for c in draws)):
        glob_draw = draws
    if glob_seed or glob_draw:
        res.fail(ctx.finding(
            'SAMPLER-RNG', di, (glob_seed or glob_draw)[0],
            'DistributionSampler seeds and draws from numpy\'s global '
            'generator: the seed of one sampler is overwritten by the next '
            'sampler constructed, and anything else that draws random '
            'numbers in between changes the sequence (two set-ups seeded '
            'with 42, built and then run one after the other, differ)',
            construct='sampler uses the global generator'))
    else:
        res.ok('sampler draws from its own generator')
    return res


def const_str(n):
    return n.value if isinstance(n, ast.Constant) and \
        isinstance(n.value, str) else None


def trial_updated(ctx):
    """'reports true perturbed performance': the operands of a trial are
    evaluated on the perturbed lens with its pickups and solves applied.
    Perturbation.apply only edits one variable; Optic.update must run between
    the perturbations and the evaluation on every path - with compensators the
    optimiser does it, without them apply_compensators has to."""
    P = ctx.P
    res = Result('TRIAL-UPDATED', 'every trial applies pickups and solves '
                 '(Optic.update) after the perturbations, with or without '
                 'compensators')
    f = P.func('Tolerancing.apply_compensators')
    res.saw(f)

    def is_update(st):
        return isinstance(st, ast.Expr) and isinstance(st.value, ast.Call) \
            and unparse(st.value.func) in ('self.optic.update',
                                           'self.optic.update_optics')
    top = any(is_update(st) for st in f.node.body)
    both = False
    for st in f.node.body:
        if isinstance(st, ast.If) and st.orelse and \
                any(is_update(x) for x in st.orelse) and \
                'has_variables' in unparse(st.test):
            both = True
    pa = P.func('Perturbation.apply')
    res.saw(pa)
    in_apply = any(isinstance(c, ast.Call) and
                   unparse(c.func).endswith('optic.update')
                   for c in ast.walk(pa.node))
    if top or both or in_apply:
        res.ok('Optic.update runs in every trial')
    else:
        res.fail(ctx.finding(
            'TRIAL-UPDATED', f, f.node,
            'apply_compensators does nothing when there is no compensator, '
            'and Perturbation.apply only edits its variable: pickups and '
            'solves keep their nominal values in such a trial (singlet with '
            'pickup R2 = -R1, R1 perturbed to 45: recorded f2 48.214, true '
            '45.849)', construct='no update without compensators'))
    return res


def c04_parax_centred(ctx):
    """shared with C04: a decentre perturbation does not corrupt the paraxial operands"""
    from .C04 import parax_centred as _r
    return _r(ctx)



def no_stale(ctx):
    from .common import stale_cache
    return stale_cache(ctx, 'NO-STALE-STATE', [],
                       'a trial is evaluated with values of an earlier trial', min_methods=0)

RULES = [no_stale, c04_parax_centred, trial_updated, sampler_rng, index_edit, c01_setters, c01_init_stores, c14_update, trial_record, final_reset, reset_before_apply, reset_covers, one_sample,
         target_default]
